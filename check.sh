#!/bin/bash
# ./check.sh <PROPERTY> <quick|thorough>  – rebuilds the harness against /repo's current working
# tree (hooks on: -tags verif) and runs the property's check. Exit 0 held / 1 violation / 3 inconclusive.
set -u
ID="${1:?property id | replay}"; TIER="${2:-${VERIF_TIER:-quick}}"
cd "$(dirname "$0")/harness" || exit 2
export GOFLAGS=-mod=mod GOPROXY=off GOSUMDB=off GOTOOLCHAIN=local CGO_ENABLED=1
export VERIF_DIR="$(cd .. && pwd)"
BIN="$VERIF_DIR/.work/bin"; mkdir -p "$BIN"
# scratch of earlier runs (job files, worker output, race logs): keep only the 12 newest run directories
if [ -d "$VERIF_DIR/.work/run" ]; then ls -1dt "$VERIF_DIR"/.work/run/*/ 2>/dev/null | tail -n +13 | xargs -r rm -rf; fi
MODFLAG=""
if [ -n "${VERIF_MODFILE:-}" ]; then MODFLAG="-modfile=$VERIF_MODFILE"; BIN="$BIN-$(basename "$VERIF_MODFILE" .mod)"; mkdir -p "$BIN"; fi
go build $MODFLAG -tags verif -o "$BIN/vcheck" ./cmd/vcheck || { echo "BUILD FAILED"; exit 2; }
if [ "$ID" = "replay" ]; then
  # ./check.sh replay <replay-file>: rebuild (both binaries) and re-run the recorded case 20 times
  go build $MODFLAG -race -tags verif -o "$BIN/vcheck-race" ./cmd/vcheck || { echo "RACE BUILD FAILED"; exit 2; }
  exec "$BIN/vcheck" replay "$(cd "$VERIF_DIR" && realpath "$2")"
fi
case "$ID" in
  C14|C20) go build $MODFLAG -race -tags verif -o "$BIN/vcheck-race" ./cmd/vcheck || { echo "RACE BUILD FAILED"; exit 2; } ;;
esac
exec "$BIN/vcheck" run "$ID" "$TIER"
