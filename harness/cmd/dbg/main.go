package main

import (
	"fmt"

	"verifharness/world"
)

func main() {
	world.InstallQuietLogger()
	g := world.NewG(nil)
	add := func(t int, name string) int { return g.AddNode(t, name) }
	a0 := add(12, "a0")
	e1 := add(8, "e1")
	t25 := add(25, "")
	a3 := add(25, "a3")
	d4 := add(9, "d4")
	v5 := add(22, "v5")
	n6 := add(27, "n6")
	add(2, "a7")
	q8 := add(16, "q8")
	N := g.Sc.Nodes
	N[a0].FailOnce, N[a0].Lookups = []string{"init"}, []string{"n6"}
	N[e1].FailOnce = []string{"init"}
	N[t25].FailOnce = []string{"init"}
	N[a3].Lookups = []string{"e1"}
	N[d4].FailOnce = []string{"aps"}
	N[n6].Lookups = []string{"a0"}
	N[q8].FailOnce = []string{"init"}
	g.SetTag(a0, "IA2", "wire", "verifharness/world/T25")
	g.SetTag(e1, "Any1", "wire", "v5")
	g.SetTag(e1, "IB1", "wire", "d4")
	g.SetTag(t25, "IA1", "wire", "d4")
	g.SetTag(t25, "IB0", "wire", "d4")
	g.SetTag(a3, "IB1", "wire", "n6")
	g.SetTag(d4, "IA0", "wire", "e1")
	g.SetTag(d4, "IA1", "wire", "e1")
	g.SetTag(v5, "Any0", "wire", "n6")
	g.SetTag(v5, "IA0", "wire", "a3")
	g.SetTag(v5, "IA1", "wire", "e1")
	g.SetTag(n6, "IA0", "wire", "a0")
	g.SetTag(n6, "IA2", "wire", "a0")
	g.Sc.Order.DefMode = "sorted"
	r := world.Start(g.Sc, world.Options{})
	fmt.Println("outcome:", r.OutcomeDetail()[:100])
	n0 := r.Log.Len()
	for round := 0; round < 2; round++ {
		for i := range g.Sc.Nodes {
			name := g.Sc.Nodes[i].DisplayName()
			o, err := r.App.GetComponentByName(name)
			es := ""
			if err != nil {
				es = err.Error()
				if len(es) > 90 {
					es = es[:90]
				}
			}
			fmt.Printf("round %d lookup %s -> %T err=%v\n", round, name, o, es)
		}
	}
	for i, e := range r.Log.Events() {
		if i == n0 {
			fmt.Println("---- after Run")
		}
		fmt.Println(e.String())
	}
}
