package main

import (
	"fmt"

	"verifharness/mon"
	"verifharness/world"
)

func main() {
	world.InstallQuietLogger()
	g := world.NewG(nil)
	z0 := g.AddNode(4, "z0")
	t28 := g.AddNode(28, "")
	g.Sc.Nodes[t28].Lookups = []string{"z0"}
	g.SetTag(z0, "IA2", "wire", "verifharness/world/T28")
	g.SetTag(t28, "IA1", "wire", "z0")
	plan := map[string]world.SubPlan{"z0": {Before: true, Early: true, SameType: true}}
	g.Sc.Order.DefMode = "sorted"
	r := world.Start(g.Sc, world.Options{Extra: []any{world.NewSubstituter(plan)}})
	fmt.Println("outcome:", r.OutcomeDetail())
	for _, e := range r.Log.Events() {
		fmt.Println(e.String())
	}
	for _, e := range r.Tracer.Events() {
		if e.Name == "z0" || e.Name == "verifharness/world/T28" {
			fmt.Printf("%d %*s%s %s(%s allow=%v) m%d err=%q %v\n", e.Seq, e.Depth*2, "", e.Phase, e.Op, e.Name, e.Allow, e.Meta, e.Err, e.Bool)
		}
	}
	_ = mon.Event{}
	refs, _ := r.SlotRefs(r.Nodes[t28], "IA1")
	got, err := r.App.GetComponentByName("z0")
	fmt.Printf("T28.IA1=%v %p ; published z0 = %p %T err=%v\n", refs[0], refs[0].Obj, got, got, err)
}
