// vcheck: driver for the runtime-monitoring checks.
//
//	vcheck run <PROP> <quick|thorough>     parent: fan out workers, merge, write evidence, verdict
//	vcheck worker <job.json>               worker: run a shard of the case list
//	vcheck replay <replay.json>            re-run one recorded case 20 times
//
// No flags are used anywhere (app.NewApp calls flag.Parse on the global flag set).
package main

import (
	"bufio"
	"context"
	"encoding/json"
	"fmt"
	"os"
	"os/exec"
	"path/filepath"
	"regexp"
	"runtime"
	"runtime/debug"
	"sort"
	"strconv"
	"strings"
	"sync"
	"time"

	"verifharness/core"
	_ "verifharness/props"
	"verifharness/world"
)

func verifDir() string {
	if d := os.Getenv("VERIF_DIR"); d != "" {
		return d
	}
	return "/verif"
}

type Job struct {
	Prop     string `json:"prop"`
	Tier     string `json:"tier"`
	Seed     int64  `json:"seed"`
	Race     bool   `json:"race"`
	Start    int    `json:"start"`  // first index
	Stride   int    `json:"stride"` // step
	N        int    `json:"n"`      // exclusive upper bound
	Only     []int  `json:"only,omitempty"`
	Repeat   int    `json:"repeat,omitempty"`
	Out      string `json:"out"`
	Progress string `json:"progress"`
}

func main() {
	if len(os.Args) < 2 {
		fmt.Fprintln(os.Stderr, "usage: vcheck run|worker|replay ...")
		os.Exit(2)
	}
	if err := core.LoadFindings(filepath.Join(verifDir(), "known_findings.json")); err != nil {
		fmt.Fprintln(os.Stderr, "cannot load known findings:", err)
		os.Exit(2)
	}
	switch os.Args[1] {
	case "run":
		if len(os.Args) < 4 {
			fmt.Fprintln(os.Stderr, "usage: vcheck run <PROP> <tier>")
			os.Exit(2)
		}
		os.Exit(parent(os.Args[2], os.Args[3]))
	case "worker":
		os.Exit(worker(os.Args[2]))
	case "replay":
		os.Exit(replay(os.Args[2]))
	case "list":
		for _, id := range core.All() {
			p := core.Get(id)
			fmt.Printf("%s quick=%d thorough=%d\n", id, p.NumCases("quick"), p.NumCases("thorough"))
		}
	default:
		fmt.Fprintln(os.Stderr, "unknown command")
		os.Exit(2)
	}
}

// ------------------------------------------------------------------------------------------
// worker

// memoryWatchdog ends the worker when its heap explodes (a runaway re-creation under a defective
// tree can allocate tens of GB before any logical budget fires). Exit code 77 is attributed by the
// parent to the case in progress.
func memoryWatchdog(limit uint64) {
	go func() {
		var ms runtime.MemStats
		for {
			time.Sleep(100 * time.Millisecond)
			runtime.ReadMemStats(&ms)
			if ms.HeapAlloc > limit {
				fmt.Fprintf(os.Stderr, "MEMORY WATCHDOG: heap %d MB exceeds %d MB\n", ms.HeapAlloc>>20, limit>>20)
				os.Exit(77)
			}
		}
	}()
}

func worker(jobFile string) int {
	world.InstallQuietLogger()
	memoryWatchdog(uint64(envInt("VERIF_WORKER_HEAP_MB", 2048)) << 20)
	b, err := os.ReadFile(jobFile)
	if err != nil {
		fmt.Fprintln(os.Stderr, err)
		return 2
	}
	var job Job
	if err := json.Unmarshal(b, &job); err != nil {
		fmt.Fprintln(os.Stderr, err)
		return 2
	}
	p := core.Get(job.Prop)
	if p == nil {
		fmt.Fprintln(os.Stderr, "unknown property", job.Prop)
		return 2
	}
	if (job.Race && job.Start%2 == 1) || job.Prop == "C14" {
		// C14: App.Close reports failing closers through the logger from its goroutines - with the
		// repository's own logger that code is part of what runs
		if job.Start%4 == 1 {
			world.InstallRealLogger("verif", "worker") // every other of these workers: a logger with two prefixes of its own
		} else {
			world.InstallRealLogger()
		}
	}
	if job.Prop == "C07" && job.Start%2 == 1 {
		// half of C07's workers run with a logger level above Panic: duplicates are dropped silently
		world.InstallSilentLogger()
	}
	prog, err := os.OpenFile(job.Progress, os.O_CREATE|os.O_WRONLY|os.O_APPEND, 0o644)
	if err != nil {
		fmt.Fprintln(os.Stderr, err)
		return 2
	}
	defer prog.Close()
	res := core.NewResult()
	var indices []int
	if len(job.Only) > 0 {
		indices = job.Only
	} else {
		for i := job.Start; i < job.N; i += job.Stride {
			indices = append(indices, i)
		}
	}
	rep := job.Repeat
	if rep < 1 {
		rep = 1
	}
	for _, idx := range indices {
		for r := 0; r < rep; r++ {
			fmt.Fprintf(prog, "B %d\n", idx)
			runOne(p, &job, idx, res)
			fmt.Fprintf(prog, "E %d\n", idx)
		}
	}
	if err := os.WriteFile(job.Out, res.Marshal(), 0o644); err != nil {
		fmt.Fprintln(os.Stderr, err)
		return 2
	}
	return 0
}

func runOne(p core.Property, job *Job, idx int, res *core.Result) {
	c := core.NewCtx(job.Prop, job.Tier, job.Seed, idx, job.Race, res)
	res.Evaluations++
	defer func() {
		if r := recover(); r != nil {
			res.Panics++
			c.Fail("", fmt.Sprintf("panic escaped the case: %v", r), map[string]any{"stack": core.Short(string(debug.Stack()), 3000)})
		}
	}()
	if job.Race {
		p.(core.RaceProperty).RunRace(c)
	} else {
		p.Run(c)
	}
}

// ------------------------------------------------------------------------------------------
// parent

func envInt(name string, def int64) int64 {
	if v := os.Getenv(name); v != "" {
		if n, err := strconv.ParseInt(v, 10, 64); err == nil {
			return n
		}
	}
	return def
}

type workerOutcome struct {
	res          *core.Result
	fatal        []core.Witness
	inconclusive string
}

func runWorkers(bin string, p core.Property, tier string, seed int64, race bool, n int, workDir string, extraEnv []string, timeout time.Duration) workerOutcome {
	out := workerOutcome{res: core.NewResult()}
	maxW := int(envInt("VERIF_WORKERS", 16))
	w := maxW
	if n < w*4 {
		w = (n + 3) / 4
	}
	if w < 1 {
		w = 1
	}
	var mu sync.Mutex
	var wg sync.WaitGroup
	for k := 0; k < w; k++ {
		wg.Add(1)
		go func(k int) {
			defer wg.Done()
			start := k
			for attempt := 0; ; attempt++ {
				tag := fmt.Sprintf("w%02d-%d", k, attempt)
				if race {
					tag = "race-" + tag
				}
				job := Job{Prop: p.ID(), Tier: tier, Seed: seed, Race: race, Start: start, Stride: w, N: n,
					Out: filepath.Join(workDir, tag+".out.json"), Progress: filepath.Join(workDir, tag+".progress")}
				jb, _ := json.Marshal(job)
				jf := filepath.Join(workDir, tag+".job.json")
				os.WriteFile(jf, jb, 0o644)
				ctx, cancel := context.WithTimeout(context.Background(), timeout)
				cmd := exec.CommandContext(ctx, bin, "worker", jf)
				cmd.Env = append(os.Environ(), extraEnv...)
				errFile, _ := os.Create(filepath.Join(workDir, tag+".stderr"))
				cmd.Stdout = errFile
				cmd.Stderr = errFile
				err := cmd.Run()
				errFile.Close()
				timedOut := ctx.Err() == context.DeadlineExceeded
				cancel()
				if err == nil {
					b, rerr := os.ReadFile(job.Out)
					var r core.Result
					if rerr != nil || json.Unmarshal(b, &r) != nil {
						mu.Lock()
						out.inconclusive = "worker " + tag + " produced no readable result"
						mu.Unlock()
						return
					}
					mu.Lock()
					out.res.Merge(&r)
					mu.Unlock()
					return
				}
				// worker died: which case?
				last, done := lastBegun(job.Progress)
				mu.Lock()
				if timedOut {
					out.inconclusive = fmt.Sprintf("worker %s hit the wall-clock watchdog (%s) during case index %d", tag, timeout, last)
					mu.Unlock()
					return
				}
				stderr, _ := os.ReadFile(filepath.Join(workDir, tag+".stderr"))
				out.res.Evaluations += done
				out.fatal = append(out.fatal, core.Witness{Property: p.ID(), Index: last, Seed: seed, Tier: tier, Race: race,
					Case:   fmt.Sprintf("%s/%d/%d", p.ID(), seed, last),
					What:   fmt.Sprintf("process-fatal failure (worker exit: %v) during this case", err),
					Detail: map[string]any{"stderr_tail": tail(string(stderr), 6000)}})
				mu.Unlock()
				if last < 0 || attempt > 20 {
					return
				}
				start = last + w // continue after the fatal case
				if start >= n {
					return
				}
			}
		}(k)
	}
	wg.Wait()
	return out
}

func tail(s string, n int) string {
	if len(s) > n {
		return s[len(s)-n:]
	}
	return s
}

func lastBegun(progress string) (last int, done int) {
	last = -1
	f, err := os.Open(progress)
	if err != nil {
		return
	}
	defer f.Close()
	sc := bufio.NewScanner(f)
	for sc.Scan() {
		t := sc.Text()
		if strings.HasPrefix(t, "B ") {
			last, _ = strconv.Atoi(t[2:])
		} else if strings.HasPrefix(t, "E ") {
			done++
		}
	}
	return
}

func parent(id, tier string) int {
	t0 := time.Now()
	p := core.Get(id)
	if p == nil {
		fmt.Fprintln(os.Stderr, "unknown property", id)
		return 2
	}
	if tier != "quick" && tier != "thorough" {
		fmt.Fprintln(os.Stderr, "tier must be quick or thorough")
		return 2
	}
	seed := envInt("VERIF_SEED", 1)
	vd := verifDir()
	workDir := filepath.Join(vd, ".work", "run", fmt.Sprintf("%s-%s-%d-%d", id, tier, seed, os.Getpid()))
	os.RemoveAll(workDir)
	if err := os.MkdirAll(workDir, 0o755); err != nil {
		fmt.Fprintln(os.Stderr, err)
		return 2
	}
	self, _ := os.Executable()
	timeout := time.Duration(envInt("VERIF_WATCHDOG_S", map[string]int64{"quick": 900, "thorough": 7200}[tier])) * time.Second

	n := p.NumCases(tier)
	out := runWorkers(self, p, tier, seed, false, n, workDir, nil, timeout)
	total := out.res
	fatal := out.fatal
	inconclusive := out.inconclusive

	// race phase
	var raceReports []raceReport
	raceRan := 0
	if rp, ok := p.(core.RaceProperty); ok && rp.NumRaceCases(tier) > 0 {
		raceBin := os.Getenv("VCHECK_RACE_BIN")
		if raceBin == "" {
			raceBin = filepath.Join(filepath.Dir(self), "vcheck-race")
		}
		if _, err := os.Stat(raceBin); err != nil {
			inconclusive = "race binary missing: " + raceBin
		} else {
			raceLog := filepath.Join(workDir, "racelog")
			env := []string{"GORACE=halt_on_error=0 exitcode=0 history_size=3 log_path=" + raceLog}
			ro := runWorkers(raceBin, p, tier, seed, true, rp.NumRaceCases(tier), workDir, env, timeout)
			raceRan = ro.res.Evaluations
			ro.res.Evaluations = 0
			total.Merge(ro.res)
			total.Counters["race_cases_run"] = int64(raceRan)
			fatal = append(fatal, ro.fatal...)
			if ro.inconclusive != "" {
				inconclusive = ro.inconclusive
			}
			raceReports = parseRaceLogs(workDir, "racelog")
		}
	}

	// verdict
	os.MkdirAll(filepath.Join(vd, "replays"), 0o755)
	os.MkdirAll(filepath.Join(vd, "evidence"), 0o755)
	if old, _ := filepath.Glob(filepath.Join(vd, "replays", id+"-seed*")); len(old) > 0 {
		for _, f := range old {
			os.Remove(f) // replay files of earlier runs of this property
		}
	}
	exit := 0
	violations := total.ViolationCount + len(fatal)
	printed := 0
	emit := func(w core.Witness) {
		name := fmt.Sprintf("%s-seed%d-idx%d", id, w.Seed, w.Index)
		if w.Race {
			name += "-race"
		}
		path := filepath.Join(vd, "replays", name+".json")
		b, _ := json.MarshalIndent(w, "", " ")
		os.WriteFile(path, b, 0o644)
		if printed < 10 {
			fmt.Printf("VIOLATION property=%s replay=%s\n", id, path)
			fmt.Printf("  what: %s\n", core.Short(w.What, 600))
		}
		printed++
	}
	for _, w := range fatal {
		emit(w)
	}
	for _, w := range total.Violations {
		emit(w)
	}
	harnessRaces := 0
	distinctRace := map[string]raceReport{}
	for _, r := range raceReports {
		if !r.inRepo {
			harnessRaces++
			continue
		}
		if _, ok := distinctRace[r.sig]; !ok {
			distinctRace[r.sig] = r
		}
	}
	for _, sig := range core.SortedKeys(distinctRace) {
		r := distinctRace[sig]
		class := world.ClassifyRace(sig)
		if class != "" && core.IsKnown(id, class) {
			k := total.Known[class]
			if k == nil {
				k = &core.KnownHit{Example: core.Witness{Property: id, What: "data race " + sig}}
				total.Known[class] = k
			}
			k.Count++
			continue
		}
		violations++
		path := filepath.Join(vd, "replays", fmt.Sprintf("%s-seed%d-race-%x.txt", id, seed, hash32(sig)))
		os.WriteFile(path, []byte(r.text), 0o644)
		fmt.Printf("VIOLATION property=%s replay=%s\n", id, path)
		fmt.Printf("  what: DATA RACE %s\n", sig)
	}
	if violations > 0 {
		exit = 1
	}
	for _, f := range core.KnownFor(id) {
		cnt := 0
		if k := total.Known[f.ID]; k != nil {
			cnt = k.Count
		}
		fmt.Printf("KNOWN-FINDING: property=%s %s [%s; observed %d time(s) in this run]\n", id, f.What, f.ID, cnt)
	}
	nontriv := len(total.Sets["nontrivial"])
	if harnessRaces > 0 {
		inconclusive = fmt.Sprintf("%d race report(s) without any go-kid/ioc frame (harness bug); see %s", harnessRaces, workDir)
	}
	if inconclusive == "" && exit == 0 && nontriv < p.MinNontrivial(tier) {
		inconclusive = fmt.Sprintf("only %d distinct non-trivial cases observed (< %d)", nontriv, p.MinNontrivial(tier))
	}
	if inconclusive != "" && exit == 0 {
		fmt.Printf("INCONCLUSIVE property=%s %s\n", id, inconclusive)
		exit = 3
	}

	// evidence
	cov := map[string]any{
		"evaluations":         total.Evaluations,
		"distinct_nontrivial": nontriv,
		"rule":                p.Rule(),
		"samples":             total.Samples,
	}
	if ex, ok := p.(core.Exhaustive); ok {
		if e, note := ex.ExhaustiveNote(tier); note != "" {
			cov["exhaustive"] = e
			cov["exhaustive_scope"] = note
		}
	}
	for k, m := range total.Sets {
		if k != "nontrivial" {
			cov["distinct_"+k] = len(m)
		}
	}
	for k, v := range total.Counters {
		cov[k] = v
	}
	if len(total.Known) > 0 {
		kn := map[string]int{}
		for k, v := range total.Known {
			kn[k] = v.Count
		}
		cov["known_finding_hits"] = kn
	}
	if _, ok := p.(core.RaceProperty); ok {
		cov["race_reports_total"] = len(raceReports)
		cov["race_reports_distinct_in_repo"] = len(distinctRace)
		var sigs []string
		for s := range distinctRace {
			sigs = append(sigs, s)
		}
		sort.Strings(sigs)
		cov["race_report_signatures"] = sigs
	}
	if inconclusive != "" {
		cov["inconclusive"] = inconclusive
	}
	if len(total.Samples) == 0 {
		cov["samples"] = []any{"(no sample recorded)"}
	}
	ev := map[string]any{
		"property_id": id, "tier": tier, "seed": seed, "level": p.Level(),
		"coverage": cov, "assumptions": p.Assumptions(),
		"wall_s":     time.Since(t0).Seconds(),
		"violations": violations,
	}
	eb, _ := json.MarshalIndent(ev, "", " ")
	if err := os.WriteFile(filepath.Join(vd, "evidence", id+".json"), eb, 0o644); err != nil {
		fmt.Fprintln(os.Stderr, err)
		return 2
	}
	fmt.Printf("%s %s seed=%d: evaluations=%d distinct_nontrivial=%d violations=%d known_hits=%d wall=%.1fs exit=%d\n",
		id, tier, seed, total.Evaluations, nontriv, violations, len(total.Known), time.Since(t0).Seconds(), exit)
	for _, k := range core.SortedKeys(total.Counters) {
		fmt.Printf("  %s=%d\n", k, total.Counters[k])
	}
	for k, m := range total.Sets {
		fmt.Printf("  distinct_%s=%d\n", k, len(m))
	}
	if exit == 0 && os.Getenv("VERIF_KEEP_WORK") == "" {
		os.RemoveAll(workDir)
	}
	return exit
}

func hash32(s string) uint32 {
	var h uint32 = 2166136261
	for i := 0; i < len(s); i++ {
		h = (h ^ uint32(s[i])) * 16777619
	}
	return h
}

// ------------------------------------------------------------------------------------------
// race log parsing

type raceReport struct {
	sig    string
	inRepo bool
	text   string
}

var frameFn = regexp.MustCompile(`^  ([^\s].*)\(\)$`)

func parseRaceLogs(dir, prefix string) []raceReport {
	var reps []raceReport
	files, _ := filepath.Glob(filepath.Join(dir, prefix+".*"))
	for _, f := range files {
		b, err := os.ReadFile(f)
		if err != nil {
			continue
		}
		blocks := strings.Split(string(b), "==================\n")
		for _, blk := range blocks {
			if !strings.HasPrefix(blk, "WARNING: DATA RACE") {
				continue
			}
			reps = append(reps, analyseRace(blk))
		}
	}
	return reps
}

var lineNo = regexp.MustCompile(`\.func\d+(\.\d+)*`)

func analyseRace(blk string) raceReport {
	// sections: access 1, access 2 ("Previous ..."), then "Goroutine ... created at" sections
	lines := strings.Split(blk, "\n")
	var sections [][]string
	var cur []string
	for _, l := range lines[1:] {
		if l == "" {
			if cur != nil {
				sections = append(sections, cur)
				cur = nil
			}
			continue
		}
		cur = append(cur, l)
	}
	if cur != nil {
		sections = append(sections, cur)
	}
	var tops []string
	inRepo := false
	for _, s := range sections {
		if len(s) == 0 {
			continue
		}
		h := s[0]
		if !(strings.HasPrefix(h, "Write at") || strings.HasPrefix(h, "Read at") || strings.HasPrefix(h, "Previous ") ||
			strings.HasPrefix(h, "Atomic ")) {
			continue
		}
		top := "?"
		for _, l := range s[1:] {
			if m := frameFn.FindStringSubmatch(l); m != nil {
				fn := m[1]
				if strings.Contains(fn, "github.com/go-kid/ioc") {
					top = lineNo.ReplaceAllString(fn, ".func")
					inRepo = true
					break
				}
			}
		}
		tops = append(tops, top)
	}
	sort.Strings(tops)
	return raceReport{sig: strings.Join(tops, " <-> "), inRepo: inRepo, text: blk}
}

// ------------------------------------------------------------------------------------------
// replay

func replay(file string) int {
	b, err := os.ReadFile(file)
	if err != nil {
		fmt.Fprintln(os.Stderr, err)
		return 2
	}
	var w core.Witness
	if err := json.Unmarshal(b, &w); err != nil {
		fmt.Fprintln(os.Stderr, "not a JSON replay file (race reports are plain text):", err)
		return 2
	}
	p := core.Get(w.Property)
	if p == nil {
		fmt.Fprintln(os.Stderr, "unknown property", w.Property)
		return 2
	}
	vd := verifDir()
	workDir := filepath.Join(vd, ".work", "replay", fmt.Sprintf("%d", os.Getpid()))
	os.MkdirAll(workDir, 0o755)
	defer os.RemoveAll(workDir)
	self, _ := os.Executable()
	bin := self
	if w.Race {
		bin = filepath.Join(filepath.Dir(self), "vcheck-race")
	}
	job := Job{Prop: w.Property, Tier: w.Tier, Seed: w.Seed, Race: w.Race, Only: []int{w.Index}, Repeat: 20,
		Out: filepath.Join(workDir, "out.json"), Progress: filepath.Join(workDir, "progress")}
	jb, _ := json.Marshal(job)
	jf := filepath.Join(workDir, "job.json")
	os.WriteFile(jf, jb, 0o644)
	cmd := exec.Command(bin, "worker", jf)
	cmd.Stdout = os.Stderr
	cmd.Stderr = os.Stderr
	if err := cmd.Run(); err != nil {
		fmt.Printf("VIOLATION property=%s replay=%s\n  what: process-fatal failure on replay: %v\n", w.Property, file, err)
		return 1
	}
	rb, _ := os.ReadFile(job.Out)
	var r core.Result
	json.Unmarshal(rb, &r)
	fmt.Printf("replayed %s 20 times: %d violating observation(s), %d known-finding hit(s)\n", w.Case, r.ViolationCount, len(r.Known))
	for i, v := range r.Violations {
		if i >= 3 {
			break
		}
		vb, _ := json.MarshalIndent(v, "", " ")
		fmt.Println(string(vb))
	}
	if r.ViolationCount > 0 {
		fmt.Printf("VIOLATION property=%s replay=%s\n", w.Property, file)
		return 1
	}
	return 0
}
