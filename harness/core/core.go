// Package core is the property-independent part of the harness: case contexts, result
// aggregation, known-finding classification, evidence records.
package core

import (
	"encoding/json"
	"fmt"
	"hash/fnv"
	"math/rand"
	"os"
	"sort"
	"strings"
)

// Property is one checked property: a deterministic case list (a pure function of
// property id, seed and index) plus an oracle that is run on every case.
type Property interface {
	ID() string
	Level() string // "exploration" | "fault_enumeration"
	Rule() string  // how cases are generated, what makes one non-trivial / distinct
	Assumptions() []string
	// NumCases is the number of cases of the given tier ("quick" | "thorough").
	NumCases(tier string) int
	// MinNontrivial is the minimal number of distinct non-trivial cases a run of the tier must
	// have observed; fewer ⇒ the run is inconclusive.
	MinNontrivial(tier string) int
	// Run executes case c.Index and reports through c.
	Run(c *Ctx)
}

// RaceProperty is implemented by properties that also have a workload for the -race binary.
type RaceProperty interface {
	Property
	NumRaceCases(tier string) int
	RunRace(c *Ctx)
}

// Exhaustive is implemented by properties that enumerate a finite sub-space completely.
type Exhaustive interface {
	ExhaustiveNote(tier string) (bool, string)
}

// Witness describes a refuting observation. Class is a property-specific machine-readable
// classification of the *input* (call site + input class), used to match known findings.
type Witness struct {
	Property string         `json:"property"`
	Case     string         `json:"case"`
	Index    int            `json:"index"`
	Seed     int64          `json:"seed"`
	Tier     string         `json:"tier"`
	Race     bool           `json:"race,omitempty"`
	Class    string         `json:"class,omitempty"` // known-finding id this witness falls under ("" = none)
	What     string         `json:"what"`
	Detail   map[string]any `json:"detail,omitempty"`
}

// Ctx is handed to Property.Run for one case.
type Ctx struct {
	Prop  string
	Tier  string
	Seed  int64
	Index int
	Race  bool
	Rng   *rand.Rand
	res   *Result
	// per-case scratch
	failed bool
}

func CaseSeed(prop string, seed int64, index int, race bool) int64 {
	h := fnv.New64a()
	fmt.Fprintf(h, "%s|%d|%d|%v", prop, seed, index, race)
	return int64(h.Sum64() & 0x7fffffffffffffff)
}

func NewCtx(prop, tier string, seed int64, index int, race bool, res *Result) *Ctx {
	return &Ctx{Prop: prop, Tier: tier, Seed: seed, Index: index, Race: race,
		Rng: rand.New(rand.NewSource(CaseSeed(prop, seed, index, race))), res: res}
}

func (c *Ctx) CaseID() string {
	r := ""
	if c.Race {
		r = "race/"
	}
	return fmt.Sprintf("%s/%s%d/%d", c.Prop, r, c.Seed, c.Index)
}

// Fail records a refuting observation. class is the id of the known-finding class the *input*
// belongs to according to the property's own classifier ("" when it belongs to none).
func (c *Ctx) Fail(class, what string, detail map[string]any) {
	c.failed = true
	w := Witness{Property: c.Prop, Case: c.CaseID(), Index: c.Index, Seed: c.Seed, Tier: c.Tier, Race: c.Race,
		Class: class, What: what, Detail: detail}
	if class != "" && IsKnown(c.Prop, class) {
		k := c.res.Known[class]
		if k == nil {
			k = &KnownHit{Example: w}
			c.res.Known[class] = k
		}
		k.Count++
		return
	}
	c.res.ViolationCount++
	if len(c.res.Violations) < 25 {
		c.res.Violations = append(c.res.Violations, w)
	}
}

func (c *Ctx) Failed() bool { return c.failed }

// Nontrivial marks the case as non-trivial with a canonical signature (distinct-counted).
func (c *Ctx) Nontrivial(sig string) { c.res.addSet("nontrivial", sig) }

// Distinct adds sig to a named distinct-counted set (reported in evidence as distinct_<set>).
func (c *Ctx) Distinct(set, sig string) { c.res.addSet(set, sig) }

// Count adds n to a named counter.
func (c *Ctx) Count(key string, n int) { c.res.Counters[key] += int64(n) }

// AddEvaluations counts additional executions performed inside one case (e.g. one start per fault site).
func (c *Ctx) AddEvaluations(n int) { c.res.Evaluations += n }

// Sample keeps up to a few written-out cases per worker.
func (c *Ctx) Sample(v any) {
	if len(c.res.Samples) < 3 {
		c.res.Samples = append(c.res.Samples, map[string]any{"case": c.CaseID(), "data": v})
	}
}

func (c *Ctx) WantSample() bool { return len(c.res.Samples) < 3 }

// Ambiguous marks a case whose assertions were (partly) dropped because the statement is silent.
func (c *Ctx) Ambiguous() { c.res.Counters["ambiguous_cases"]++ }

type KnownHit struct {
	Count   int     `json:"count"`
	Example Witness `json:"example"`
}

// Result is what one worker reports (and what the parent merges).
type Result struct {
	Evaluations    int                        `json:"evaluations"`
	Sets           map[string]map[uint64]bool `json:"-"`
	SetsOut        map[string][]uint64        `json:"sets"`
	Counters       map[string]int64           `json:"counters"`
	Samples        []any                      `json:"samples"`
	Violations     []Witness                  `json:"violations"`
	ViolationCount int                        `json:"violation_count"`
	Known          map[string]*KnownHit       `json:"known"`
	Panics         int                        `json:"panics"`
}

func NewResult() *Result {
	return &Result{Sets: map[string]map[uint64]bool{}, Counters: map[string]int64{}, Known: map[string]*KnownHit{}}
}

// SetCap bounds every distinct-counted set per worker; beyond it further signatures are dropped and
// the reported cardinality is a lower bound (flagged in the evidence).
const SetCap = 150000

func (r *Result) addSet(set, sig string) {
	m := r.Sets[set]
	if m == nil {
		m = map[uint64]bool{}
		r.Sets[set] = m
	}
	if len(m) >= SetCap {
		r.Counters["distinct_sets_capped_dropped_signatures"]++
		return
	}
	h := fnv.New64a()
	h.Write([]byte(sig))
	m[h.Sum64()] = true
}

func (r *Result) Marshal() []byte {
	r.SetsOut = map[string][]uint64{}
	for k, m := range r.Sets {
		for h := range m {
			r.SetsOut[k] = append(r.SetsOut[k], h)
		}
	}
	b, _ := json.Marshal(r)
	return b
}

func (r *Result) Merge(o *Result) {
	r.Evaluations += o.Evaluations
	for k, l := range o.SetsOut {
		m := r.Sets[k]
		if m == nil {
			m = map[uint64]bool{}
			r.Sets[k] = m
		}
		for _, h := range l {
			m[h] = true
		}
	}
	for k, v := range o.Counters {
		r.Counters[k] += v
	}
	for _, s := range o.Samples {
		if len(r.Samples) < 5 {
			r.Samples = append(r.Samples, s)
		}
	}
	r.Violations = append(r.Violations, o.Violations...)
	r.ViolationCount += o.ViolationCount
	for k, v := range o.Known {
		if cur := r.Known[k]; cur == nil {
			r.Known[k] = v
		} else {
			cur.Count += v.Count
		}
	}
	r.Panics += o.Panics
}

// ---------------------------------------------------------------------------------------------
// known findings

type Finding struct {
	Status    string `json:"status"` // "known" | "fixed"
	Property  string `json:"property"`
	ID        string `json:"id,omitempty"`
	Where     string `json:"where,omitempty"`
	Predicate string `json:"predicate,omitempty"`
	What      string `json:"what"`
	Commit    string `json:"commit,omitempty"`
}

var findings []Finding

func LoadFindings(path string) error {
	b, err := os.ReadFile(path)
	if err != nil {
		if os.IsNotExist(err) {
			return nil
		}
		return err
	}
	var f struct {
		Findings []Finding `json:"findings"`
	}
	if err := json.Unmarshal(b, &f); err != nil {
		return err
	}
	findings = f.Findings
	return nil
}

func IsKnown(prop, id string) bool {
	for _, f := range findings {
		if f.Status == "known" && f.Property == prop && f.ID == id {
			return true
		}
	}
	return false
}

func KnownFor(prop string) []Finding {
	var out []Finding
	for _, f := range findings {
		if f.Status == "known" && f.Property == prop {
			out = append(out, f)
		}
	}
	return out
}

// ---------------------------------------------------------------------------------------------
// helpers

func SortedKeys[V any](m map[string]V) []string {
	var ks []string
	for k := range m {
		ks = append(ks, k)
	}
	sort.Strings(ks)
	return ks
}

func Short(s string, n int) string {
	s = strings.ReplaceAll(s, "\n", " ")
	if len(s) > n {
		return s[:n] + "…"
	}
	return s
}

// Registry of properties.
var props = map[string]Property{}

func Register(p Property) { props[p.ID()] = p }
func Get(id string) Property {
	return props[id]
}
func All() []string {
	var ks []string
	for k := range props {
		ks = append(ks, k)
	}
	sort.Strings(ks)
	return ks
}
