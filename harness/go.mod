module verifharness

go 1.20

require (
	github.com/anishathalye/porcupine v1.3.0
	github.com/expr-lang/expr v1.16.9
	github.com/go-kid/ioc v0.0.0
	github.com/go-playground/validator/v10 v10.22.0
	gopkg.in/yaml.v3 v3.0.1
)

require (
	github.com/davecgh/go-spew v1.1.2-0.20180830191138-d8f796af33cc // indirect
	github.com/fsnotify/fsnotify v1.7.0 // indirect
	github.com/gabriel-vasile/mimetype v1.4.3 // indirect
	github.com/go-kid/properties v0.0.6 // indirect
	github.com/go-kid/strconv2 v0.0.2 // indirect
	github.com/go-kid/strings2 v0.0.1 // indirect
	github.com/go-playground/locales v0.14.1 // indirect
	github.com/go-playground/universal-translator v0.18.1 // indirect
	github.com/hashicorp/hcl v1.0.0 // indirect
	github.com/leodido/go-urn v1.4.0 // indirect
	github.com/magiconair/properties v1.8.7 // indirect
	github.com/mitchellh/mapstructure v1.5.0 // indirect
	github.com/pelletier/go-toml/v2 v2.2.2 // indirect
	github.com/pkg/errors v0.9.1 // indirect
	github.com/pmezard/go-difflib v1.0.1-0.20181226105442-5d4384ee4fb2 // indirect
	github.com/sagikazarmark/slog-shim v0.1.0 // indirect
	github.com/samber/lo v1.46.0 // indirect
	github.com/spf13/afero v1.11.0 // indirect
	github.com/spf13/cast v1.6.0 // indirect
	github.com/spf13/pflag v1.0.5 // indirect
	github.com/spf13/viper v1.19.0 // indirect
	github.com/stretchr/testify v1.9.0 // indirect
	github.com/subosito/gotenv v1.6.0 // indirect
	golang.org/x/crypto v0.21.0 // indirect
	golang.org/x/net v0.23.0 // indirect
	golang.org/x/sys v0.18.0 // indirect
	golang.org/x/text v0.16.0 // indirect
	gopkg.in/ini.v1 v1.67.0 // indirect
)

replace github.com/go-kid/ioc => /repo
