package props

import (
	"fmt"
	"math"
	"reflect"
	"runtime"
	"sort"
	"strings"
	"sync"
	"time"

	"verifharness/core"
	"verifharness/world"
)

// C10 Start-up outcome does not depend on registration or iteration order.
type c10 struct{}

func init() { core.Register(c10{}) }

func (c10) ID() string    { return "C10" }
func (c10) Level() string { return "exploration" }
func (c10) Rule() string {
	return "differential: one scenario (fixed components + tags) is started under 12 (quick) / 24 (thorough) combinations of registration permutation, SingletonRegistry name-enumeration permutation and DefinitionRegistry candidate permutation (k-th permutation of the name-sorted candidate list for k=0..23, which is every permutation of candidate sets of size <= 4; seeded shuffles, sorted, reversed and the native sync.Map order beyond). Scenario families: (a) populations where holders are candidates for their own by-type fields, unique-Primary and unique-unnamed situations, qualified points; (b) cyclic interface graphs with an after-initialization substituting post-processor, where success depends on where creation enters the cycle (only the name sort in Refresh makes that independent of enumeration order). Oracle: all runs agree on success/failure (unless the model says a tie decides reachability of a failing component), every point lies in its tied set (model), and points whose tied set is a singleton receive the same component in every run. non-trivial = scenario with a self-candidate holder, a narrowed multi-candidate point or a wrapped cycle; distinct = canonical scenario signature; populations include several zero-size components of different types; dependent post-processors with MinInt / MaxInt orders; the runner sequence is part of the compared outcome when the contract fixes it; names differing only in case; a plain (not instantiation-aware) post-processor next to the substituter; every 9th case a user scanner rejects one definition (half of them slowly): the start fails in every run; arrays family (array-typed points behave alike in every run); tiedUnnamed family (a tie among un-named candidates next to named ones); lazyWrappedCycle, crowdedDefinitions (every point of crowded definitions populated in every run) and wrappedSliceCycle families; orderedTie family (a wrapped member on a cycle of components with the same Order())"
}
func (c10) Assumptions() []string {
	return []string{
		"Go map iteration in Meta.GetAllProperties / applyDefinitionRegistryPostProcessors and the goroutine schedule of the scan phase are sampled by the repeated starts, not controlled",
	}
}
func (c10) popCount(tier string) int      { return tierN(tier, 700, 30000) }
func (c10) cycCount(tier string) int      { return tierN(tier, 300, 12000) }
func (p c10) NumCases(tier string) int    { return p.popCount(tier) + p.cycCount(tier) }
func (c10) MinNontrivial(tier string) int { return tierN(tier, 200, 3000) }

// arrays: an array-typed point ([1]I, [2]I) over candidates that are not equally ranked (one Primary, named
// ones): whatever the container makes of such a point - it rejects it today - it makes the same of it in
// every run and under every registration / enumeration order.
func (p c10) arrays(c *core.Ctx) {
	g := world.NewG(c.Rng)
	g.AddNode(6, g.FreshName(0)) // T06: IA, Primary
	for x := 0; x < 2+c.Rng.Intn(3); x++ {
		g.AddNode([]int{0, 1, 12}[c.Rng.Intn(3)], g.FreshName(x+1))
	}
	size := 1 + c.Rng.Intn(2)
	tag := []string{`wire:""`, `wire:",required=false"`}[c.Rng.Intn(2)]
	ft := reflect.ArrayOf(size, world.TypeIA)
	var sigs []string
	for o := 0; o < 8; o++ {
		g.ShuffleOrders()
		h := world.NewHolder(world.BuildStruct([]world.FieldSpec{{Name: "Arr", Type: ft, Tag: tag}}))
		r := world.Start(g.Sc, world.Options{Extra: []any{h}})
		c.Count("starts", 1)
		if abnormal(r.Outcome()) {
			c.Fail("", fmt.Sprintf("array-typed point %s `%s`: %s", ft, tag, core.Short(r.OutcomeDetail(), 300)), failDetail(g.Sc, r, nil))
			return
		}
		sig := r.Outcome() + ":"
		av := reflect.ValueOf(h).Elem().Field(0)
		for i := 0; i < av.Len(); i++ {
			if n, ok := av.Index(i).Interface().(world.Node); ok {
				sig += n.DisplayName() + ","
			} else {
				sig += "-,"
			}
		}
		sigs = append(sigs, sig)
	}
	for i := 1; i < len(sigs); i++ {
		if sigs[i] != sigs[0] {
			c.Fail("", fmt.Sprintf("same scenario, different orders: array-typed point %s `%s` over unequally ranked candidates: run 0 -> %s, run %d -> %s", ft, tag, sigs[0], i, sigs[i]), failDetail(g.Sc, nil, map[string]any{"signatures": sigs}))
			return
		}
	}
	c.Count("family_arrays", 1)
	c.Nontrivial("arrays|" + g.Sc.GraphSig() + tag + fmt.Sprint(size))
}

// lazyWrappedCycle: a cycle of two lazy components, one of which a post-processor proxies for its early
// reference, reached only through an eager holder's by-type slice: which member the cycle is entered
// through follows the registry's enumeration order - the outcome of the start does not.
func (p c10) lazyWrappedCycle(c *core.Ctx) {
	g := world.NewG(c.Rng)
	l1 := g.AddNode([]int{8, 11}[c.Rng.Intn(2)], g.FreshName(0)) // lazy IAs
	l2 := g.AddNode([]int{8, 11}[c.Rng.Intn(2)], g.FreshName(1))
	if g.EdgeByName(l1, l2, "", "iface") == "" || g.EdgeByName(l2, l1, "", "iface") == "" {
		return
	}
	h := g.AddNode([]int{2, 13}[c.Rng.Intn(2)], g.FreshName(2)) // eager IB
	g.SetTag(h, "SA0", "wire", "")
	for x, nx := 0, c.Rng.Intn(3); x < nx; x++ {
		g.AddNode([]int{2, 13, 5}[c.Rng.Intn(3)], g.FreshName(3+x)) // no further IAs
	}
	plan := map[string]world.SubPlan{g.Sc.Nodes[l1].DisplayName(): {Early: true}}
	if c.Rng.Intn(3) == 0 {
		plan[g.Sc.Nodes[l2].DisplayName()] = world.SubPlan{Early: true}
	}
	var sigs []string
	for o := 0; o < 10; o++ {
		g.ShuffleOrders()
		if o%2 == 0 {
			g.Sc.Order.DefMode, g.Sc.Order.PermK = "perm", o/2
		}
		r := world.Start(g.Sc, world.Options{Extra: []any{world.NewSubstituter(plan)}})
		c.Count("starts", 1)
		if abnormal(r.Outcome()) {
			c.Fail("", "lazy cycle with an early-proxied member behind a by-type slice: "+core.Short(r.OutcomeDetail(), 300), failDetail(g.Sc, r, map[string]any{"plan": plan}))
			return
		}
		sigs = append(sigs, r.Outcome())
	}
	for i := 1; i < len(sigs); i++ {
		if sigs[i] != sigs[0] {
			c.Fail("", fmt.Sprintf("same scenario, different orders: a lazy cycle with an early-proxied member, reached through a by-type slice: run 0 -> %s, run %d -> %s", sigs[0], i, sigs[i]), failDetail(g.Sc, nil, map[string]any{"outcomes": sigs, "plan": plan}))
			return
		}
	}
	c.Count("family_lazy_wrapped_cycle", 1)
	c.Nontrivial("lazywrapped|" + g.Sc.GraphSig() + fmt.Sprint(plan))
}

// crowdedDefinitions: components that carry many points of several tag kinds (wire, func, value, prop): the
// scanners of the different kinds all contribute to one definition; in every run every point is found and
// populated, whatever the schedule of the parallel scan phase.
func (p c10) crowdedDefinitions(c *core.Ctx) {
	g := world.NewG(c.Rng)
	g.AddNode(0, "pa")
	g.AddNode(4, "marked") // T04: Mark()
	g.Sc.Config = "crowd:\n  v: 17\n"
	nH, nF := 4+c.Rng.Intn(6), 10+c.Rng.Intn(25)
	mk := func(h int) any {
		var fields []world.FieldSpec
		for i := 0; i < nF; i++ {
			fields = append(fields,
				world.FieldSpec{Name: fmt.Sprintf("W%dx%d", h, i), Type: world.TypeIA, Tag: `wire:"pa"`},
				world.FieldSpec{Name: fmt.Sprintf("F%dx%d", h, i), Type: world.TypeAny, Tag: `func:"Mark"`},
				world.FieldSpec{Name: fmt.Sprintf("V%dx%d", h, i), Type: reflect.TypeOf(0), Tag: `value:"${crowd.v}"`},
				world.FieldSpec{Name: fmt.Sprintf("P%dx%d", h, i), Type: reflect.TypeOf(0), Tag: `prop:"crowd.v"`})
		}
		c.Rng.Shuffle(len(fields), func(i, j int) { fields[i], fields[j] = fields[j], fields[i] })
		return world.NewHolder(world.BuildStruct(fields))
	}
	var types []any
	for h := 0; h < nH; h++ {
		types = append(types, mk(h))
	}
	for o := 0; o < 5; o++ {
		g.ShuffleOrders()
		var holders []any
		for _, t := range types {
			holders = append(holders, reflect.New(reflect.TypeOf(t).Elem()).Interface())
		}
		r := world.Start(g.Sc, world.Options{Extra: holders, NoTracer: true})
		c.Count("starts", 1)
		if r.Outcome() != "ok" {
			c.Fail("", fmt.Sprintf("%d components with %d points of four tag kinds each: run %d: %s", nH, 4*nF, o, core.Short(r.OutcomeDetail(), 300)), nil)
			return
		}
		for _, h := range holders {
			hv := reflect.ValueOf(h).Elem()
			for i := 0; i < hv.NumField(); i++ {
				if hv.Field(i).IsZero() {
					c.Fail("", fmt.Sprintf("%d components with %d points of four tag kinds each: in run %d field %s `%s` was not populated (the point was lost between the scanners)", nH, 4*nF, o, hv.Type().Field(i).Name, hv.Type().Field(i).Tag), nil)
					return
				}
			}
		}
	}
	c.Count("family_crowded_definitions", 1)
	c.Nontrivial(fmt.Sprintf("crowded|%d|%d|%d", nH, nF, c.Index))
}

// wrappedSliceCycle: a cycle that is closed through a by-type slice (alpha -> hub, hub collects alpha among
// other candidates) and whose entry component a post-processor wraps after initialisation: whether the stale
// early version in the hub's slice is noticed does not depend on the position alpha has in that slice.
func (p c10) wrappedSliceCycle(c *core.Ctx) {
	g := world.NewG(c.Rng)
	alpha := g.AddNode([]int{0, 1, 12}[c.Rng.Intn(3)], "a-alpha") // entered first (eager components are created in name order)
	hub := g.AddNode([]int{2, 13}[c.Rng.Intn(2)], "hub")
	g.EdgeByName(alpha, hub, "", "iface")
	g.SetTag(hub, []string{"SA0", "SA1", "AnyS"}[c.Rng.Intn(3)], "wire", "")
	for x, nx := 0, 1+c.Rng.Intn(3); x < nx; x++ {
		g.AddNode([]int{0, 1, 12}[c.Rng.Intn(3)], fmt.Sprintf("m-other-%d", x)) // further IAs
	}
	plan := map[string]world.SubPlan{"a-alpha": []world.SubPlan{{After: true}, {Before: true}}[c.Rng.Intn(2)]}
	var sigs []string
	for o := 0; o < 10; o++ {
		g.ShuffleOrders()
		if o%2 == 0 {
			g.Sc.Order.DefMode, g.Sc.Order.PermK = "perm", o/2
		}
		r := world.Start(g.Sc, world.Options{Extra: []any{world.NewSubstituter(plan)}})
		c.Count("starts", 1)
		if abnormal(r.Outcome()) {
			c.Fail("", "cycle through a by-type slice with a wrapped entry component: "+core.Short(r.OutcomeDetail(), 300), failDetail(g.Sc, r, map[string]any{"plan": plan}))
			return
		}
		sigs = append(sigs, r.Outcome())
	}
	for i := 1; i < len(sigs); i++ {
		if sigs[i] != sigs[0] {
			c.Fail("", fmt.Sprintf("same scenario, different orders: a cycle closed through a by-type slice whose entry component is wrapped after initialisation: run 0 -> %s, run %d -> %s", sigs[0], i, sigs[i]), failDetail(g.Sc, nil, map[string]any{"outcomes": sigs, "plan": plan}))
			return
		}
	}
	c.Count("family_wrapped_slice_cycle", 1)
	c.Nontrivial("wrappedslice|" + g.Sc.GraphSig() + fmt.Sprint(plan))
}

// orderedTie: two eager components that declare the same Order() on a by-name cycle, one of them wrapped after its
// initialisation: through which member the cycle is entered decides whether the start is refused - and that is the
// same under every registration and enumeration order.
func (p c10) orderedTie(c *core.Ctx) {
	g := world.NewG(c.Rng)
	a := g.AddNode(17, "a-first")
	b := g.AddNode(17, "b-second")
	ord := []int{0, 10, -3}[c.Rng.Intn(3)]
	g.Sc.Nodes[a].Ord, g.Sc.Nodes[b].Ord = ord, ord
	g.EdgeByName(a, b, "", "iface")
	g.EdgeByName(b, a, "", "iface")
	for x, nx := 0, c.Rng.Intn(3); x < nx; x++ {
		k := g.AddNode(17, fmt.Sprintf("m-other-%d", x))
		g.Sc.Nodes[k].Ord = ord
	}
	plan := map[string]world.SubPlan{[]string{"a-first", "b-second"}[c.Rng.Intn(2)]: {After: true}}
	var sigs []string
	for o := 0; o < 10; o++ {
		g.ShuffleOrders()
		if o%2 == 0 {
			g.Sc.Order.DefMode, g.Sc.Order.PermK = "perm", o/2
		}
		r := world.Start(g.Sc, world.Options{Extra: []any{world.NewSubstituter(plan)}})
		c.Count("starts", 1)
		if abnormal(r.Outcome()) {
			c.Fail("", "cycle of two equally ordered components, one wrapped: "+core.Short(r.OutcomeDetail(), 300), failDetail(g.Sc, r, map[string]any{"plan": plan}))
			return
		}
		sigs = append(sigs, r.Outcome())
	}
	for i := 1; i < len(sigs); i++ {
		if sigs[i] != sigs[0] {
			c.Fail("", fmt.Sprintf("same scenario, different orders: a cycle of two components with the same Order(), one wrapped after initialisation: run 0 -> %s, run %d -> %s", sigs[0], i, sigs[i]), failDetail(g.Sc, nil, map[string]any{"outcomes": sigs, "plan": plan}))
			return
		}
	}
	c.Count("family_ordered_tie", 1)
	c.Nontrivial("orderedtie|" + g.Sc.GraphSig() + fmt.Sprint(plan))
}

// tiedUnnamed: a single-valued point whose best-ranked candidates are several un-named components (a genuine
// tie) next to named ones and no Primary: whatever the order, it receives one of the tied ones - never a
// lower-ranked named candidate.
func (p c10) tiedUnnamed(c *core.Ctx) {
	g := world.NewG(c.Rng)
	tied := map[string]bool{}
	for _, t := range [][]int{{0, 1}, {0, 12}, {1, 3, 12}, {0, 1, 3}}[c.Rng.Intn(4)] {
		k := g.AddNode(t, "") // un-named IAs of different types, none Primary
		tied[g.Sc.Nodes[k].DisplayName()] = true
	}
	for x, nx := 0, 1+c.Rng.Intn(3); x < nx; x++ {
		g.AddNode([]int{0, 1, 3, 12}[c.Rng.Intn(4)], g.FreshName(x)) // named IAs
	}
	h := g.AddNode([]int{2, 13}[c.Rng.Intn(2)], g.FreshName(9)) // the holder: an IB that is no IA
	slot := []string{"IA0", "IA1", "Any0"}[c.Rng.Intn(3)]
	if slot == "Any0" {
		return // (an any-typed point would also see the holder's own kind; keep the tie pure)
	}
	g.SetTag(h, slot, "wire", []string{"", ",required=false"}[c.Rng.Intn(2)])
	seen := map[string]int{}
	for o := 0; o < 10; o++ {
		g.ShuffleOrders()
		r := world.Start(g.Sc, world.Options{})
		c.Count("starts", 1)
		if r.Outcome() != "ok" {
			c.Fail("", "population with tied un-named candidates did not start: "+core.Short(r.OutcomeDetail(), 300), failDetail(g.Sc, r, nil))
			return
		}
		refs, _ := r.SlotRefs(r.Nodes[h], slot)
		got := "<nil>"
		if len(refs) == 1 && !refs[0].Nil {
			if n, ok := refs[0].Obj.(world.Node); ok {
				got = n.DisplayName()
			}
		}
		seen[got]++
		if !tied[got] {
			c.Fail("", fmt.Sprintf("point %s of %q received %q in run %d; the best-ranked candidates are the un-named %v (a tie among them is the only freedom)", slot, g.Sc.Nodes[h].DisplayName(), got, o, core.SortedKeys(tied)), failDetail(g.Sc, r, map[string]any{"received_so_far": seen}))
			return
		}
	}
	c.Count("family_tied_unnamed", 1)
	c.Nontrivial("tiedunnamed|" + g.Sc.GraphSig())
}

func (p c10) Run(c *core.Ctx) {
	if c.Index%25 == 13 {
		p.arrays(c)
		return
	}
	if c.Index%25 == 21 {
		p.tiedUnnamed(c)
		return
	}
	if c.Index%25 == 6 {
		p.lazyWrappedCycle(c)
		return
	}
	if c.Index%25 == 17 {
		p.crowdedDefinitions(c)
		return
	}
	if c.Index%25 == 2 {
		p.wrappedSliceCycle(c)
		return
	}
	if c.Index%25 == 19 {
		p.orderedTie(c)
		return
	}
	orders := tierN(c.Tier, 12, 24)
	var g *world.G
	var plan map[string]world.SubPlan
	var holders []any
	family := "pop"
	var providers []any // providers outside the palette (lean / rich / zero-size), the same objects in every run
	var dups []any      // duplicate-name components (registered in permuted positions)
	type depSpec struct {
		class, ord int
		name       string
	}
	var depSpecs []depSpec // post-processors with injection points of their own (fresh objects per run)
	if c.Index < p.popCount(c.Tier) && c.Index%7 == 5 {
		// duplicate names: every registration order must be rejected alike (or resolve alike)
		family = "duplicate-names"
		g = RandomPopulation(c.Rng, PopOpts{MinP: 2, MaxP: 5, Types: []int{2, 5, 13, 27}, PUnnamed: 0.3})
		h := g.AddNode(5, "dupholder")
		switch c.Rng.Intn(3) {
		case 0: // two instances of one type under one custom name
			g.AddNode(0, "dup")
			d := world.Palette[0].New()
			d.Core().Name = "dup"
			dups = append(dups, d)
			g.SetTag(h, "IA0", "wire", "dup")
		case 1: // different types, same custom name
			g.AddNode(1, "dup")
			d := world.Palette[3].New()
			d.Core().Name = "dup"
			dups = append(dups, d)
			g.SetTag(h, "IA0", "wire", "dup")
		case 2: // zero-size components sharing a custom name
			dups = append(dups, &world.ZeroA{}, &world.ZeroB{})
			g.SetTag(h, "IA0", "wire", "zero-name")
		}
		g.SetTag(h, "SA0", "wire", ",required=false")
	} else if c.Index < p.popCount(c.Tier) && c.Index%7 == 6 {
		family = "post-processors-with-dependencies"
		g = RandomPopulation(c.Rng, PopOpts{MinP: 2, MaxP: 8, Types: plainAB, PUnnamed: 0.4})
		g.Sc.Config = "dep:\n  v: configured\n"
		ords := []int{-5, 1, 3, 100}
		nd := 1 + c.Rng.Intn(3)
		if c.Rng.Intn(3) == 0 {
			// the highest / lowest precedence idiom next to small orders
			ords = []int{math.MinInt, -1, 3, 100, math.MaxInt, math.MaxInt - 1, math.MinInt + 1}
			nd = 2 + c.Rng.Intn(3)
		}
		for k := 0; k < nd; k++ {
			depSpecs = append(depSpecs, depSpec{c.Rng.Intn(3), ords[c.Rng.Intn(len(ords))], fmt.Sprintf("deppp%d", k)})
		}
	} else if c.Index < p.popCount(c.Tier) {
		g = RandomPopulation(c.Rng, PopOpts{MinP: 3, MaxP: 12, Types: world.TypesAll, PUnnamed: 0.4})
		if c.Rng.Intn(4) == 0 {
			// two components whose names differ only in case: two names, two components
			g.AddNode([]int{0, 1}[c.Rng.Intn(2)], "cv")
			g.AddNode([]int{0, 3}[c.Rng.Intn(2)], "Cv")
			h := g.AddNode(5, "cvholder")
			g.SetTag(h, "IA0", "wire", "cv")
			g.SetTag(h, "IA1", "wire", "Cv")
			g.SetTag(h, "Any0", "wire", []string{"cv", "Cv"}[c.Rng.Intn(2)])
			c.Count("populations_with_case_variant_names", 1)
		}
		if c.Rng.Intn(4) == 0 {
			// several providers answer a single-valued func point with the same result, one of them un-named
			// (preferred): the choice is determined, whatever order they are enumerated in
			kt := []int{5, 10, 12, 13}
			var made []int
			for x := 0; x < 3; x++ {
				t := kt[c.Rng.Intn(len(kt))]
				name := fmt.Sprintf("kz%d", x)
				if x == 0 && !g.HasUnnamed(t) {
					name = ""
				}
				k := g.AddNode(t, name)
				g.Sc.Nodes[k].Kind = "kz"
				made = append(made, k)
			}
			h := g.AddNode(4, "kzholder")
			g.SetTag(h, "Any1", "func", "Kind,returns=kz")
			g.SetTag(h, "AnyS", "func", "Kind,returns=kz,required=false")
			c.Count("populations_with_tied_breaking_func_points", 1)
		}
		n := len(g.Sc.Nodes)
		mix := TagMix{ByType: 4, Func: 0.4, ByName: 0.4, PQualifier: 0.3, POptional: 0.4}
		// self-candidate holders: by-type points on interfaces the holder implements itself
		for x := 0; x < 1+c.Rng.Intn(3); x++ {
			i := c.Rng.Intn(n)
			ti := world.Palette[g.Sc.Nodes[i].Type]
			slots := g.FreeSlots(i, func(si world.SlotInfo) bool {
				if si.Kind == "ptr" {
					return si.Type == ti.Idx
				}
				return (si.Kind == "iface" || si.Kind == "sliceiface") && ti.Implements(si.Iface)
			})
			for _, s := range slots {
				if c.Rng.Intn(3) == 0 {
					arg := ""
					if c.Rng.Intn(3) == 0 {
						arg = ",required=false"
					}
					g.SetTag(i, s, "wire", arg)
				}
			}
			AddRandomPoints(g, i, 0, 2, mix, nil)
		}
		for h := 0; h < c.Rng.Intn(2); h++ {
			hm := mix
			hm.POptional = 0.85
			holders = append(holders, LiteralHolder(c.Rng, h, 1+c.Rng.Intn(3), g.Sc, hm))
		}
		providers = LeanProviders(c.Rng)
		repairUnsatisfiable(c, g, holders, 0.9, providers...)
	} else {
		family = "wrapped-cycle"
		sc := RandomGraph(c.Rng, GraphOpts{MinN: 2, MaxN: 7, Types: plainAB, PCycle: 1, Chords: 1, OnlyIface: true, PUnnamed: 0.3})
		g = &world.G{Rng: c.Rng, Sc: sc}
		plan = map[string]world.SubPlan{}
		k := 1 + c.Rng.Intn(2)
		for x := 0; x < k; x++ {
			nm := sc.Nodes[c.Rng.Intn(len(sc.Nodes))].DisplayName()
			plan[nm] = []world.SubPlan{{After: true}, {Early: true}, {Early: true, After: true}, {Before: true}}[c.Rng.Intn(4)]
		}
	}
	sc := g.Sc
	type obs struct {
		outcome string
		wiring  string
		detail  string
	}
	var all []obs
	plainName := []string{"a-plain-pp", "verif.zz-plain-pp", "m-plain-pp"}[c.Rng.Intn(3)]
	// every 9th case: the definition scan of one component fails (a user scanner rejects it) - in every run,
	// whatever the schedule of the parallel scan phase, the start then fails
	scanFault, slowFault := map[string]bool{}, false
	if c.Index%9 == 4 && len(sc.Nodes) > 0 {
		scanFault[sc.Nodes[c.Rng.Intn(len(sc.Nodes))].DisplayName()] = true
		slowFault = c.Rng.Intn(2) == 0
		c.Count("cases_with_a_failing_definition_scan", 1)
	}
	nontrivial := family == "wrapped-cycle"
	ambiguous := false
	for o := 0; o < orders; o++ {
		g.ShuffleOrders()
		if o < 24 && o%2 == 0 {
			sc.Order.DefMode, sc.Order.PermK = "perm", o/2+12*(c.Index%2)
		}
		for _, h := range holders {
			resetHolder(h)
		}
		opt := world.Options{Extra: append(append([]any{}, holders...), providers...)}
		var depPPs []any
		for _, d := range depSpecs {
			depPPs = append(depPPs, world.NewDepPP(d.class, d.name, d.ord))
		}
		c.Rng.Shuffle(len(depPPs), func(i, j int) { depPPs[i], depPPs[j] = depPPs[j], depPPs[i] })
		opt.Extra = append(opt.Extra, depPPs...)
		// a factory post-processor that inspects the registered components (fresh per run, registered at a
		// seeded position): what it sees is part of the compared outcome
		catalog := &world.CatalogFactoryPP{}
		if c.Rng.Intn(2) == 0 {
			opt.ExtraFirst = append(opt.ExtraFirst, catalog)
		} else {
			opt.Extra = append(opt.Extra, catalog)
		}
		if len(dups) > 0 {
			// the duplicates take part in the registration permutation: before or after the nodes
			if c.Rng.Intn(2) == 0 {
				opt.ExtraFirst = append(opt.ExtraFirst, dups...)
			} else {
				perm := c.Rng.Perm(len(dups))
				for _, i := range perm {
					opt.Extra = append(opt.Extra, dups[i])
				}
			}
		}
		{
			// perturb the schedule of the parallel scan phase in every third run: a harness scanner that yields /
			// sleeps per component (the scanner itself is registered in every run: same population)
			delays := map[string]int{}
			var dmu sync.Mutex
			perturb := o%3 == 1
			opt.Extra = append(opt.Extra, &world.FaultScanner{Nm: "verif.yieldscanner", FailFor: scanFault, Gate: func(name string, failing bool) {
				if failing && slowFault {
					time.Sleep(150 * time.Microsecond) // the failing scan is among the last to finish
				}
				if !perturb {
					return
				}
				dmu.Lock()
				d, ok := delays[name]
				if !ok {
					d = int(c.Rng.Int31n(4))
					delays[name] = d
				}
				dmu.Unlock()
				switch d {
				case 1:
					runtime.Gosched()
				case 2:
					time.Sleep(time.Duration(20+len(name)) * time.Microsecond)
				}
			}})
		}
		if plan != nil {
			opt.Extra = append(opt.Extra, world.NewSubstituter(plan))
			// a post-processor of the plain kind that changes nothing, next to the substituting one: whichever of
			// them the registry enumerates last, the substitutions take place
			opt.Extra = append(opt.Extra, &world.PlainPP{Nm: plainName})
		}
		r := world.Start(sc, opt)
		c.Count("starts", 1)
		c.Count("outcome_"+r.Outcome(), 1)
		if len(dups) > 0 && r.Outcome() == "panic" && strings.Contains(fmt.Sprint(r.Panic), "duplicate") {
			all = append(all, obs{outcome: "rejected-duplicate", detail: "registration rejected: " + core.Short(fmt.Sprint(r.Panic), 120)})
			nontrivial = true
			continue
		}
		if len(scanFault) > 0 {
			if r.Outcome() != "error" {
				c.Fail("", fmt.Sprintf("a user scanner rejects the definition of %v in every run (slow=%v), but in run %d App.Run returned %s", core.SortedKeys(scanFault), slowFault, o, r.Outcome()), failDetail(sc, r, nil))
				return
			}
			all = append(all, obs{outcome: "error", detail: "definition scan failed"})
			nontrivial = true
			continue
		}
		ps, exp := evalAgainstModel(r, plan == nil && len(dups) == 0, holders...)
		if len(dups) > 0 {
			ps = nil // the model does not describe populations with rejected members; the differential below judges
		}
		if plan != nil {
			// substitution may legitimately make the start fail (C03); panics / divergence / wiring are still checked
			var keep []problem
			for _, q := range ps {
				if q.Kind != "unexpected-error" {
					keep = append(keep, q)
				}
			}
			ps = keep
		}
		if exp.MayFail != exp.MustFail {
			ambiguous = true
		}
		for _, pr := range exp.Points {
			if len(pr.Res.S) > 1 && len(pr.Res.Tied) == 1 {
				nontrivial = true
			}
			if !pr.Res.Slice && pr.Pt.Holder >= 0 {
				// holder would be a candidate of its own point
				pt := pr.Pt
				pt.Holder = -2
				if len(world.Resolve(world.Describe(r.Population()), pt).S) > len(pr.Res.S) {
					nontrivial = true
				}
			}
		}
		if len(ps) > 0 {
			c.Count("problem_"+ps[0].Kind, 1)
			c.Fail("", ps[0].Msg, failDetail(sc, r, map[string]any{"problems": msgs(ps), "family": family, "plan": plan}))
			return
		}
		for ord := range r.Perm.Orders {
			c.Distinct("candidate_orders", ord)
		}
		wiring := determinedWiring(r, exp)
		if len(dups) > 0 {
			wiring = rawWiring(r)
		}
		// the sequence in which the application runners ran is part of the outcome whenever the ordering
		// contract fixes it completely (no two runners of one class with the same order, at most one unordered)
		{
			type rk struct{ class, ord int }
			seen := map[rk]int{}
			var runs []string
			fixed := true
			for i := range sc.Nodes {
				if world.Palette[sc.Nodes[i].Type].Runner {
					pt := runnerPart(sc, i)
					k := rk{pt.class, pt.ord}
					if pt.class == 2 {
						k.ord = 0
					}
					seen[k]++
					if seen[k] > 1 {
						fixed = false
					}
				}
			}
			if fixed && len(seen) >= 2 {
				for _, e := range r.Log.Events() {
					if e.Kind == "run" {
						runs = append(runs, e.Who)
					}
				}
				wiring += ";runners=" + strings.Join(runs, ">")
				c.Count("runs_with_a_fixed_runner_sequence", 1)
			}
		}
		wiring += ";catalog=" + fmt.Sprint(catalog.Seen) + ":" + fmt.Sprintf("%x", len(catalog.Names))
		var descs []string
		for _, d := range depPPs {
			descs = append(descs, d.(world.Describer).Describe())
			nontrivial = true
		}
		sort.Strings(descs)
		wiring += ";" + strings.Join(descs, ";")
		all = append(all, obs{outcome: r.Outcome(), wiring: wiring, detail: core.Short(r.OutcomeDetail(), 300)})
	}
	if ambiguous {
		c.Ambiguous()
	} else {
		for i := 1; i < len(all); i++ {
			if all[i].outcome != all[0].outcome {
				c.Fail("", fmt.Sprintf("same scenario, different orders: run 0 -> %s, run %d -> %s", all[0].detail, i, all[i].detail),
					failDetail(sc, nil, map[string]any{"family": family, "plan": plan, "outcomes": outcomesOf(all, func(o obs) string { return o.outcome })}))
				return
			}
			if all[i].outcome == "ok" && all[i].wiring != all[0].wiring {
				c.Fail("", fmt.Sprintf("same scenario, different orders: determined points differ between run 0 and run %d", i),
					failDetail(sc, nil, map[string]any{"family": family, "plan": plan, "run0": all[0].wiring, "runi": all[i].wiring}))
				return
			}
		}
	}
	if nontrivial {
		c.Nontrivial(sc.GraphSig() + fmt.Sprint(plan))
		c.Count("family_"+family, 1)
		if c.WantSample() {
			c.Sample(map[string]any{"scenario": describeScenario(sc), "family": family, "plan": plan, "orders": orders, "outcome_all_runs": all[0].outcome})
		}
	}
}

var plainAB = func() []int {
	var out []int
	for _, t := range world.Palette {
		if (t.A || t.B) && !t.Runner && !t.Closer {
			out = append(out, t.Idx)
		}
	}
	return out
}()

var plainAny = func() []int {
	var out []int
	for _, t := range world.Palette {
		if !t.Runner && !t.Closer {
			out = append(out, t.Idx)
		}
	}
	return out
}()

// rawWiring renders every tagged slot of every node by object identity (node index / type).
func rawWiring(r *world.Run) string {
	var parts []string
	for ni, n := range r.Nodes {
		for _, s := range world.SortedSlots(&r.Sc.Nodes[ni]) {
			refs, _ := r.SlotRefs(n, s)
			var ids []string
			for _, ref := range refs {
				switch {
				case ref.Nil:
					ids = append(ids, "nil")
				default:
					if nd, ok := ref.Obj.(world.Node); ok {
						ids = append(ids, fmt.Sprintf("%T#%d:%s", ref.Obj, nd.Core().Idx, nd.DisplayName()))
					} else {
						ids = append(ids, fmt.Sprintf("%T", ref.Obj))
					}
				}
			}
			sort.Strings(ids)
			parts = append(parts, fmt.Sprintf("%d.%s=%s", ni, s, strings.Join(ids, ",")))
		}
	}
	return strings.Join(parts, ";")
}

func outcomesOf[T any](xs []T, f func(T) string) []string {
	var out []string
	for _, x := range xs {
		out = append(out, f(x))
	}
	return out
}

// determinedWiring renders what every point with a singleton tied set (and every slice) holds.
func determinedWiring(r *world.Run, exp world.Expect) string {
	var parts []string
	for _, pr := range exp.Points {
		if !pr.Res.Slice && len(pr.Res.Tied) != 1 {
			continue
		}
		if pr.Pt.Holder < 0 || !exp.Must[pr.Pt.Holder] {
			continue // a lazy holder that only a tie may reach
		}
		refs, _ := r.ValueRefs(pr.Val)
		var ids []string
		for _, ref := range refs {
			switch {
			case ref.Nil:
				ids = append(ids, "nil")
			case ref.Wrap != nil:
				ids = append(ids, "w:"+ref.Wrap.OrigName)
			case ref.Pop >= 0:
				ids = append(ids, fmt.Sprintf("%T:%s", ref.Obj, nameOfObj(ref.Obj)))
			default:
				ids = append(ids, "?")
			}
		}
		sort.Strings(ids)
		parts = append(parts, pr.HolderName+"."+pr.Slot+"="+strings.Join(ids, ","))
	}
	sort.Strings(parts)
	return strings.Join(parts, ";")
}

func nameOfObj(o any) string {
	if n, ok := o.(world.Node); ok {
		return n.DisplayName()
	}
	return ""
}
