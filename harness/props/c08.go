package props

import (
	"fmt"
	"strings"

	"verifharness/core"
	"verifharness/world"
)

// C08 Qualifier and Primary narrowing applies to every field independently.
type c08 struct{}

func init() { core.Register(c08{}) }

func (c08) ID() string    { return "C08" }
func (c08) Level() string { return "exploration" }
func (c08) Rule() string {
	return "seeded populations with arbitrary qualifier / Primary / naming attributes (types that declare no qualifier, an empty one, one of g1..g3); holders (palette nodes and reflect.StructOf holders) with 1..5 tagged fields mixing qualified points (bare qualifier, one value, two values, unknown value, capitalised argument name), unqualified by-type points, by-name points and optional points without any candidate (absent name / no qualifier match) placed at arbitrary positions among them; each scenario under 4 registration x enumeration x candidate orders. Oracle: reference model per field: every element of a qualified point declares a qualifier from the requested set; a unique Primary wins, else (no Primary) a unique unnamed component; independent of the holder's other fields. non-trivial = holder with >= 2 tagged fields of which one is narrowed (qualifier argument, or several candidates with a unique Primary / unique unnamed); distinct = canonical scenario signature; zero-size candidates with different qualifiers / Primary marks take part; a third of the cases add a holder that is itself a (merely ordered) post-processor; a subset-answering post-processor between collection and narrowing; qualifier sets widened at run time through AddArg (the model narrows with the widened sets); explicitly empty qualifier items; qualifiers widened through the map Property.Args() hands out; optional points of odd kinds in front of the other points of literal holders; components named exactly like their type / like a qualifier word; configuration fields next to the wiring points of the same holder; sameFieldNames family (equally named points in two embedded structs)"
}
func (c08) Assumptions() []string {
	return []string{"two Primaries / several unnamed candidates without a Primary: the statements are silent, any member of the candidate set is accepted"}
}
func (c08) NumCases(tier string) int      { return tierN(tier, 3000, 200000) }
func (c08) MinNontrivial(tier string) int { return tierN(tier, 500, 5000) }

// sameFieldNames: two points of one holder whose struct fields carry the same name (they live in two embedded structs),
// each with a qualifier of its own: each is narrowed by its own qualifier.
func (p c08) sameFieldNames(c *core.Ctx) {
	g := world.NewG(c.Rng)
	types := []int{0, 1, 3, 12, 25}
	var replicas, primaries []int
	for x, n := 0, 1+c.Rng.Intn(2); x < n; x++ {
		k := g.AddNode(types[c.Rng.Intn(len(types))], g.FreshName(len(g.Sc.Nodes)))
		g.Sc.Nodes[k].Qual = "replica"
		replicas = append(replicas, k)
	}
	for x, n := 0, 1+c.Rng.Intn(2); x < n; x++ {
		k := g.AddNode(types[c.Rng.Intn(len(types))], g.FreshName(len(g.Sc.Nodes)))
		g.Sc.Nodes[k].Qual = "primary"
		primaries = append(primaries, k)
	}
	for x, n := 0, c.Rng.Intn(3); x < n; x++ {
		k := g.AddNode(types[c.Rng.Intn(len(types))], g.FreshName(len(g.Sc.Nodes)))
		g.Sc.Nodes[k].Qual = "other"
	}
	g.ShuffleOrders()
	h := &world.TwoStores{}
	r := world.Start(g.Sc, world.Options{Extra: []any{h}})
	c.Count("starts", 1)
	c.Count("same_field_name_starts", 1)
	detail := failDetail(g.Sc, r, nil)
	if r.Outcome() != "ok" {
		c.Fail("", "holder with equally named points in two embedded structs: "+core.Short(r.OutcomeDetail(), 300), detail)
		return
	}
	qualOf := func(o any) string {
		for i, nd := range r.Nodes {
			if any(nd) == o {
				return g.Sc.Nodes[i].Qual
			}
		}
		return "?"
	}
	check := func(where, want string, single world.IA, all []world.IA, n int) bool {
		if single == nil || qualOf(any(single)) != want {
			c.Fail("", fmt.Sprintf("%s.Store `wire:\",qualifier=%s\"` holds a component with qualifier %q", where, want, qualOf(any(single))), detail)
			return false
		}
		if len(all) != n {
			c.Fail("", fmt.Sprintf("%s.All `wire:\",qualifier=%s\"` holds %d components, %d declare that qualifier", where, want, len(all), n), detail)
			return false
		}
		for _, o := range all {
			if qualOf(any(o)) != want {
				c.Fail("", fmt.Sprintf("%s.All `wire:\",qualifier=%s\"` holds a component with qualifier %q", where, want, qualOf(any(o))), detail)
				return false
			}
		}
		return true
	}
	if !check("ReadDeps", "replica", h.ReadDeps.Store, h.ReadDeps.All, len(replicas)) || !check("WriteDeps", "primary", h.WriteDeps.Store, h.WriteDeps.All, len(primaries)) {
		return
	}
	c.Nontrivial("samefieldnames|" + g.Sc.GraphSig())
}

func (p c08) Run(c *core.Ctx) {
	if c.Index%20 == 8 {
		p.sameFieldNames(c)
		return
	}
	g := RandomPopulation(c.Rng, PopOpts{MinP: 4, MaxP: 20, Types: world.TypesAll, PUnnamed: 0.35})
	mix := TagMix{ByType: 3, ByName: 0.5, ByNameAbsent: 0.8, Func: 0.3, PQualifier: 0.55, POptional: 0.5}
	if c.Rng.Intn(3) == 0 {
		// names that invite confusion: a component that names itself exactly like its type would be named by
		// default (it still carries a name of its own), and components that declare no qualifier but are NAMED like
		// a qualifier word some point asks for (a name is no qualifier)
		used := map[string]bool{}
		for i := range g.Sc.Nodes {
			used[g.Sc.Nodes[i].DisplayName()] = true
		}
		for i := range g.Sc.Nodes {
			ns := &g.Sc.Nodes[i]
			if ns.Name == "" {
				continue
			}
			switch c.Rng.Intn(5) {
			case 0:
				if dn := world.Palette[ns.Type].DefaultName; !used[dn] {
					delete(used, ns.Name)
					ns.Name, used[dn] = dn, true
					c.Count("components_named_like_their_type", 1)
				}
			case 1:
				if w := qualPool[c.Rng.Intn(len(qualPool))]; !world.Palette[ns.Type].Qualifier && !used[w] {
					delete(used, ns.Name)
					ns.Name, used[w] = w, true
					c.Count("unqualified_components_named_like_a_qualifier", 1)
				}
			}
		}
	}
	n := len(g.Sc.Nodes)
	for x := 0; x < 1+c.Rng.Intn(3); x++ {
		AddRandomPoints(g, c.Rng.Intn(n), 1, 5, mix, nil)
	}
	if c.Rng.Intn(2) == 0 {
		// configuration-bound fields next to the wiring points of the same holders (every field is narrowed on its
		// own, whatever other kinds of tagged fields the holder has and in whatever order they are listed)
		for i := range g.Sc.Nodes {
			if len(g.Sc.Nodes[i].Tags) > 0 && c.Rng.Intn(3) > 0 {
				g.Sc.Nodes[i].Cfg = map[string]world.TagSpec{"CfgS": {Tag: "value", Val: "${c08.s:dflt}"}}
				if c.Rng.Intn(2) == 0 {
					g.Sc.Nodes[i].Cfg["CfgI"] = world.TagSpec{Tag: "prop", Val: "c08.i:7"}
				}
				c.Count("holders_with_configuration_fields_next_to_their_points", 1)
			}
		}
	}
	var holders []any
	for h := 0; h < c.Rng.Intn(3); h++ {
		hm := mix
		hm.POptional = 0.85
		holders = append(holders, LiteralHolder(c.Rng, h, 1+c.Rng.Intn(5), g.Sc, hm))
	}
	if c.Rng.Intn(3) == 0 {
		// a holder that is a post-processor itself: wired while the chain is being set up
		holders = append(holders, &world.QualPP{})
		c.Count("cases_with_a_post_processor_holder", 1)
	}
	prov := LeanProviders(c.Rng)
	if c.Rng.Intn(3) == 0 {
		// a user post-processor between candidate collection and narrowing that answers
		// PostProcessProperties with the properties it handled (none)
		prov = append(prov, &world.SubsetPP{Ord: 3, Tag: "no-such-tag"})
		c.Count("cases_with_a_subset_answering_post_processor", 1)
	}
	repairUnsatisfiable(c, g, holders, 0.9, prov...)
	var view func(sc *world.Scenario) func()
	if len(holders) == 0 && c.Rng.Intn(4) == 0 {
		// a user post-processor widens every qualifier set by "G1" at run time: the model narrows with the
		// widened sets (literal holders are left out of these cases: their tags cannot be rewritten)
		prov = append(prov, &world.WidenPP{Add: "G1", ViaArgsMap: c.Rng.Intn(2) == 0}) // through Property.AddArg or through the map Args() hands out
		c.Count("cases_with_run_time_widened_qualifiers", 1)
		view = func(sc *world.Scenario) func() {
			type saved struct {
				i    int
				slot string
				ts   world.TagSpec
			}
			var old []saved
			for i := range sc.Nodes {
				for slot, ts := range sc.Nodes[i].Tags {
					if ts.Tag != "wire" {
						continue
					}
					_, args := world.ParseTag(ts.Val)
					if q, ok := args["qualifier"]; ok && !(len(q) == 1 && q[0] == "") {
						old = append(old, saved{i, slot, ts})
						// append the widened item to the (last) qualifier segment as written
						parts := strings.Split(ts.Val, ",")
						for k := len(parts) - 1; k >= 1; k-- {
							if strings.HasPrefix(strings.ToLower(parts[k]), "qualifier=") {
								parts[k] += " G1"
								break
							}
						}
						sc.Nodes[i].Tags[slot] = world.TagSpec{Tag: ts.Tag, Val: strings.Join(parts, ",")}
					}
				}
			}
			return func() {
				for _, o := range old {
					sc.Nodes[o.i].Tags[o.slot] = o.ts
				}
			}
		}
	}
	runModelCase(c, g, holders, 4, true, nil, prov, view, func(exp world.Expect) bool {
		byHolder := map[int][]world.PointRes{}
		for _, pr := range exp.Points {
			byHolder[pr.Pt.Holder] = append(byHolder[pr.Pt.Holder], pr)
		}
		for _, prs := range byHolder {
			if len(prs) < 2 {
				continue
			}
			for _, pr := range prs {
				if strings.Contains(strings.ToLower(pr.Pt.Raw), "qualifier") || (len(pr.Res.S) > 1 && len(pr.Res.Tied) == 1) {
					return true
				}
			}
		}
		return false
	})
}
