package props

import (
	"fmt"
	"github.com/go-kid/ioc/container"
	"reflect"
	"sort"
	"strings"
	"sync"
	"unsafe"

	"github.com/go-kid/ioc/component_definition"
	"github.com/go-kid/ioc/container/processors"
	"github.com/go-kid/ioc/syslog"
	"verifharness/core"
	"verifharness/world"
)

// C11 Tag scanning sees through embedded structs and touches nothing else.
type c11 struct{}

func init() { core.Register(c11{}) }

func (c11) ID() string    { return "C11" }
func (c11) Level() string { return "exploration" }
func (c11) Rule() string {
	return "metamorphic + frame check on run-time built struct types (reflect.StructOf). A seeded multiset of leaves (wire by name / by-type slice, func, value literal / placeholder / list, prop with and without default, prefix scalar / list, an anonymous struct WITH a prefix tag bound as a whole, logger, a user tag 'mytag' with arguments) plus decoys (exported untagged, foreign-tagged, unexported fields carrying recognised tags, a named (non-embedded) struct field containing tagged leaves, an embedded nil pointer), all decoys pre-filled with sentinels. The flat struct and 3 (quick) / 5 (thorough) random re-arrangements of the same leaves into anonymous untagged by-value embedded structs (depth <= 5) are each started on the real container with the same providers and configuration. Oracle: every leaf has the same value in every arrangement (component leaves compared by provider identity, config leaves by value) and equals the generator's expectation; a recording user tag processor received exactly the leaves carrying its tag with the tag's value and arguments; every sentinel is intact, leaves inside the named struct field are untouched, the embedded pointer stays nil. non-trivial = arrangement of depth >= 2 with >= 1 decoy below the top level; distinct = arrangement shape + leaf multiset; plus compile-time fixtures: equally named fields in sibling embedded structs, shadowed promoted fields, a non-nil embedded pointer that must not be entered; fixtures: embedded mix-in implementing ConfigurationProperties, logger:\"\" prefix at different embedding depths; an early subset-answering user post-processor; fixture with embedded structs carrying a user-defined / a foreign tag; fixtures: one field one binding (tag next to extract handler), logger with embed on a direct field; leaves the user processor claims by field type through its extract handler (no literal tag); compile-time fixtures with blank fields and with one type embedded through two paths; dash values; a user processor with the component property type on leaves of kinds no component fits; tagged zero-size marker fields; a tag processor that learns its tag in its factory hook; a handler that names its finds differently from the processor's tag; arguments expected per the independent reference parser, incl. bracketed groups with blanks"
}
func (c11) Assumptions() []string {
	return []string{
		"unexported decoys are pre-filled and read back through unsafe/kind-specific reflect getters inside the harness only",
		"struct shapes are limited to what reflect.StructOf can build (no methods, no generic types)",
	}
}
func (c11) NumCases(tier string) int      { return tierN(tier, 1000, 150000) }
func (c11) MinNontrivial(tier string) int { return tierN(tier, 300, 3000) }

type leaf struct {
	name   string
	typ    reflect.Type
	tag    string
	expect any    // expected value for config leaves; []string of provider names for component leaves; nil = only compared
	kind   string // wire | func | value | prop | prefix | logger | custom | decoy-...
	decoy  bool
	unexp  bool
}

type recorder struct {
	processors.DefaultInstantiationAwareComponentPostProcessor
	mu   sync.Mutex
	seen map[string][]string // component name -> "field|TagVal|args"
	// stampTag: the tag name under which the scanner's handler reports the fields it claims by type ("" = "mytag")
	stampTag string
}

func (m *recorder) Naming() string                                          { return "verif.recorder" }
func (m *recorder) Order() int                                              { return 100 }
func (m *recorder) PostProcessAfterInstantiation(any, string) (bool, error) { return true, nil }
func (m *recorder) PostProcessProperties(props []*component_definition.Property, c any, name string) ([]*component_definition.Property, error) {
	m.mu.Lock()
	defer m.mu.Unlock()
	for _, p := range props {
		if p.Tag == "latetag" {
			m.seen["late:"+name] = append(m.seen["late:"+name], fmt.Sprintf("%s|%s|%s", p.StructField.Name, p.TagVal, p.Args().String()))
			continue
		}
		if p.Tag == "plug" {
			m.seen["plug:"+name] = append(m.seen["plug:"+name], fmt.Sprintf("%s|%s|%s", p.StructField.Name, p.TagVal, p.Args().String()))
			continue
		}
		want := "mytag"
		if p.StructField.Type == stampType && m.stampTag != "" {
			want = m.stampTag // (a field claimed by the handler arrives under the tag name the handler gave it)
		}
		if p.Tag != want {
			continue
		}
		got := map[string][]string{}
		p.Args().ForEach(func(t component_definition.ArgType, items []string) {
			if k := string(t); k != "" {
				got[strings.ToLower(k[:1])+k[1:]] = items
			}
		})
		m.seen[name] = append(m.seen[name], fmt.Sprintf("%s|%s|%s", p.StructField.Name, p.TagVal, renderArgs(got)))
		if p.Value.Kind() == reflect.Int {
			p.Value.SetInt(int64(len(p.TagVal)))
		}
		p.SetArg(component_definition.ArgRequired, "false")
	}
	return nil, nil
}

// renderArgs renders parsed arguments canonically: names sorted, items separated by an unprintable byte.
func renderArgs(args map[string][]string) string {
	names := make([]string, 0, len(args))
	for k := range args {
		names = append(names, k)
	}
	sort.Strings(names)
	var sb strings.Builder
	for _, k := range names {
		items := args[k]
		if len(items) == 1 && items[0] == "" {
			items = nil // (a bare argument and "name=" both carry no item)
		}
		sb.WriteString("." + k + "(" + strings.Join(items, "\x1f") + ")")
	}
	return sb.String()
}

type lateTagScanner struct {
	processors.DefaultTagScanDefinitionRegistryPostProcessor
}

func (m *lateTagScanner) Naming() string { return "verif.latetagscanner" }
func (m *lateTagScanner) PostProcessComponentFactory(container.Factory) error {
	m.NodeType, m.Tag = "late", "latetag"
	return nil
}

type plugScanner struct {
	processors.DefaultTagScanDefinitionRegistryPostProcessor
}

func (m *plugScanner) Naming() string { return "verif.plugscanner" }

type mytagScanner struct {
	processors.DefaultTagScanDefinitionRegistryPostProcessor
}

func (m *mytagScanner) Naming() string { return "verif.mytagscanner" }

var loggerType = reflect.TypeOf((*syslog.Logger)(nil)).Elem()

// stamp: fields of this type are claimed by the user's processor by type (no literal tag)
type stamp int

var stampType = reflect.TypeOf(stamp(0))

const stampTagVal = "by-type,k=auto"

const c11Config = "c11:\n  s: from-config\n  i: 17\n  l: [p, q, r]\n  sub:\n    s: nested-value\n    n: 5\n"

func genLeaves(c *core.Ctx) []leaf {
	var ls []leaf
	add := func(l leaf) {
		l.name = fmt.Sprintf("L%d", len(ls))
		if l.unexp {
			l.name = fmt.Sprintf("u%d", len(ls))
		}
		ls = append(ls, l)
	}
	t00 := reflect.TypeOf(&world.T00{})
	n := 3 + c.Rng.Intn(8)
	for i := 0; i < n; i++ {
		switch c.Rng.Intn(16) {
		case 0:
			add(leaf{typ: t00, tag: `wire:"pa"`, expect: []string{"pa"}, kind: "wire"})
		case 1:
			add(leaf{typ: reflect.SliceOf(world.TypeIB), tag: `wire:""`, expect: []string{"pab", "verifharness/world/T02", "verifharness/world/T04"}, kind: "wire"})
		case 2:
			add(leaf{typ: world.TypeIA, tag: `wire:"pab,required=true"`, expect: []string{"pab"}, kind: "wire"})
		case 3:
			add(leaf{typ: reflect.SliceOf(world.TypeIA), tag: `func:"Mark"`, expect: []string{"verifharness/world/T04"}, kind: "func"})
		case 4:
			add(leaf{typ: reflect.TypeOf(""), tag: `value:"hello"`, expect: "hello", kind: "value"})
		case 5:
			add(leaf{typ: reflect.TypeOf(0), tag: `value:"42"`, expect: 42, kind: "value"})
		case 6:
			add(leaf{typ: reflect.TypeOf(""), tag: `value:"${c11.s}"`, expect: "from-config", kind: "value"})
		case 7:
			add(leaf{typ: reflect.TypeOf([]int{}), tag: `value:"[1,2,3]"`, expect: []int{1, 2, 3}, kind: "value"})
		case 8:
			add(leaf{typ: reflect.TypeOf(""), tag: `prop:"c11.s"`, expect: "from-config", kind: "prop"})
		case 9:
			add(leaf{typ: reflect.TypeOf(0), tag: `prop:"c11.none:9,required=true"`, expect: 9, kind: "prop"})
		case 10:
			add(leaf{typ: reflect.TypeOf(0), tag: `prefix:"c11.i"`, expect: 17, kind: "prefix"})
		case 11:
			add(leaf{typ: reflect.TypeOf([]string{}), tag: `prefix:"c11.l"`, expect: []string{"p", "q", "r"}, kind: "prefix"})
		case 12:
			add(leaf{typ: loggerType, tag: `logger:""`, kind: "logger"})
		case 13:
			if c.Rng.Intn(3) == 0 {
				// a second user tag processor that declares the component property type for its (optional) tag, on
				// fields of kinds no component fits into: it is handed its fields all the same
				add(leaf{typ: []reflect.Type{reflect.TypeOf(map[string]string{}), reflect.TypeOf(func() {}), reflect.TypeOf(0)}[c.Rng.Intn(3)], tag: `plug:"p1,required=false,k=v"`, kind: "plug", expect: "p1,required=false,k=v"})
				break
			}
			// (values with blanks at their ends are handed over as written)
			v := []string{"v1,k=a b", "plain", "x,Flag,n=[1,2] z", "/get,methods=[GET HEAD],roles=(admin ops) guest", "r,m={a b} [c d],Flag", " | ", "  ,kind=prefix", " padded ,k=a b", "tail  ", "-", "-"}[c.Rng.Intn(11)]
			add(leaf{typ: reflect.TypeOf(0), tag: fmt.Sprintf("mytag:%q", v), kind: "custom", expect: v})
		case 14:
			if c.Rng.Intn(2) == 0 {
				// a field the user's processor claims by its type (through the scanner's extract handler) instead of
				// by a literal tag: it is handed over like a tagged one, at any embedding depth
				add(leaf{typ: stampType, tag: "", kind: "custom", expect: stampTagVal})
				break
			}
			add(leaf{typ: reflect.TypeOf(""), tag: `value:"${c11.none:dflt}"`, expect: "dflt", kind: "value"})
		case 15:
			if c.Rng.Intn(2) == 0 {
				add(leaf{typ: reflect.TypeOf(""), tag: `value:"-"`, expect: "-", kind: "value"}) // a literal dash is a value
				break
			}
			add(leaf{typ: reflect.TypeOf(0), tag: `value:"#{${c11.i}+1}"`, expect: 18, kind: "value"})
		}
	}
	nd := 1 + c.Rng.Intn(5)
	for i := 0; i < nd; i++ {
		switch c.Rng.Intn(10) {
		case 7: // foreign keys that merely END with a recognised key
			add(leaf{typ: t00, tag: `hardwire:"pa"`, kind: "decoy-foreign-suffix", decoy: true})
		case 8:
			add(leaf{typ: reflect.TypeOf(""), tag: `defaultvalue:"5" xprop:"c11.s" noprefix:"c11.s"`, kind: "decoy-foreign-suffix", decoy: true})
		case 9:
			add(leaf{typ: reflect.TypeOf(0), tag: `simytag:"v1" autowire:"" dlogger:""`, kind: "decoy-foreign-suffix", decoy: true})
		case 0:
			add(leaf{typ: reflect.TypeOf(""), tag: ``, kind: "decoy-untagged", decoy: true})
		case 1:
			add(leaf{typ: t00, tag: ``, kind: "decoy-untagged-ptr", decoy: true})
		case 2:
			add(leaf{typ: reflect.TypeOf(""), tag: `json:"wire" yaml:"value"`, kind: "decoy-foreign", decoy: true})
		case 3:
			add(leaf{typ: reflect.TypeOf(0), tag: `other:"value" wirex:""`, kind: "decoy-foreign", decoy: true})
		case 4:
			add(leaf{typ: reflect.TypeOf(0), tag: `value:"5"`, kind: "decoy-unexported", decoy: true, unexp: true})
		case 5:
			add(leaf{typ: reflect.TypeOf(""), tag: `prop:"c11.s"`, kind: "decoy-unexported", decoy: true, unexp: true})
		case 6:
			add(leaf{typ: world.TypeIA, tag: `wire:""`, kind: "decoy-unexported-iface", decoy: true, unexp: true})
		}
	}
	return ls
}

// arrange builds a struct type holding the leaves in a random tree of anonymous untagged by-value
// embedded structs of depth <= maxDepth (maxDepth 0 = flat). Returns type, depth, decoys below top.
func arrange(c *core.Ctx, ls []leaf, maxDepth int, id string) (reflect.Type, int, int) {
	cnt := 0
	var build func(items []leaf, depth int) ([]world.FieldSpec, int, int)
	build = func(items []leaf, depth int) ([]world.FieldSpec, int, int) {
		var fields []world.FieldSpec
		maxd, deepDecoys := depth, 0
		rest := items
		if depth < maxDepth && len(items) > 0 {
			// split off 1..2 groups into embedded structs
			groups := 1 + c.Rng.Intn(2)
			for g := 0; g < groups && len(rest) > 0; g++ {
				k := 1 + c.Rng.Intn(len(rest))
				sub := rest[:k]
				rest = rest[k:]
				cnt++
				sf, d, dd := build(sub, depth+1)
				if d > maxd {
					maxd = d
				}
				deepDecoys += dd
				fields = append(fields, world.FieldSpec{Name: fmt.Sprintf("E%s%d", id, cnt), Anonymous: true, Sub: sf})
			}
		}
		for _, l := range rest {
			fields = append(fields, world.FieldSpec{Name: l.name, Type: l.typ, Tag: l.tag, Unexported: l.unexp})
			if l.decoy && depth > 0 {
				deepDecoys++
			}
		}
		c.Rng.Shuffle(len(fields), func(i, j int) { fields[i], fields[j] = fields[j], fields[i] })
		return fields, maxd, deepDecoys
	}
	fields, d, dd := build(ls, 0)
	// structural decoys at the top level
	innerTagged := []world.FieldSpec{{Name: "X", Type: reflect.TypeOf(""), Tag: `value:"inner"`}, {Name: "Y", Type: world.TypeIA, Tag: `wire:"pab"`}}
	fields = append(fields,
		world.FieldSpec{Name: "Named" + id, Sub: innerTagged}, // named struct field: not entered
		world.FieldSpec{Name: "PtrEmb" + id, Anonymous: true, Type: reflect.PointerTo(world.BuildStruct(innerTagged))},
		world.FieldSpec{Name: "Sub" + id, Anonymous: true, Tag: `prefix:"c11.sub"`, Sub: []world.FieldSpec{{Name: "S", Type: reflect.TypeOf(""), Tag: `yaml:"s"`}, {Name: "N", Type: reflect.TypeOf(0), Tag: `yaml:"n"`}}},
	)
	return world.BuildStruct(fields), d, dd
}

// findField locates a (possibly deeply embedded / unexported) field by name.
func findField(v reflect.Value, name string) (reflect.Value, bool) {
	t := v.Type()
	for i := 0; i < t.NumField(); i++ {
		f := t.Field(i)
		if f.Name == name {
			return v.Field(i), true
		}
		if f.Anonymous && f.Type.Kind() == reflect.Struct && f.Tag == "" {
			if r, ok := findField(v.Field(i), name); ok {
				return r, true
			}
		}
	}
	return reflect.Value{}, false
}

func forceSet(f reflect.Value, val reflect.Value) {
	reflect.NewAt(f.Type(), unsafe.Pointer(f.UnsafeAddr())).Elem().Set(val)
}

func forceGet(f reflect.Value) any {
	return reflect.NewAt(f.Type(), unsafe.Pointer(f.UnsafeAddr())).Elem().Interface()
}

var sentinelNode = &world.T00{}

func sentinelFor(t reflect.Type) reflect.Value {
	switch t.Kind() {
	case reflect.String:
		return reflect.ValueOf("SENTINEL")
	case reflect.Int:
		return reflect.ValueOf(777)
	case reflect.Pointer:
		return reflect.ValueOf(sentinelNode)
	case reflect.Interface:
		return reflect.ValueOf(sentinelNode)
	}
	return reflect.Zero(t)
}

func (p c11) Run(c *core.Ctx) {
	if c.Index%8 == 7 {
		p.compiled(c)
		return
	}
	ls := genLeaves(c)
	shapes := tierN(c.Tier, 3, 5)
	type result struct {
		values map[string]string
		rec    []string
		depth  int
	}
	var results []result
	var custom []string
	for _, l := range ls {
		if l.kind == "custom" {
			// (what the processor must be handed is computed by the independent reference parser of C19)
			v, args := refParse(l.expect.(string))
			custom = append(custom, fmt.Sprintf("%s|%s|%s", l.name, v, renderArgs(args)))
		}
	}
	sort.Strings(custom)
	var plugs []string
	for _, l := range ls {
		if l.kind == "plug" {
			v, _ := refParse(l.expect.(string))
			pr := component_definition.NewProperty(dummyField, "x", "plug", l.expect.(string))
			plugs = append(plugs, fmt.Sprintf("%s|%s|%s", l.name, v, pr.Args().String()))
		}
	}
	sort.Strings(plugs)
	nontrivial := false
	sig := ""
	for s := 0; s <= shapes; s++ {
		maxDepth := 0
		if s > 0 {
			maxDepth = 1 + c.Rng.Intn(5)
		}
		id := fmt.Sprintf("s%d", s)
		typ, depth, deepDecoys := arrange(c, ls, maxDepth, id)
		h := world.NewHolder(typ)
		hv := reflect.ValueOf(h).Elem()
		for _, l := range ls {
			if l.decoy {
				f, ok := findField(hv, l.name)
				if !ok {
					c.Fail("", "HARNESS: leaf not found "+l.name, nil)
					return
				}
				forceSet(f, sentinelFor(l.typ))
			}
		}
		g := world.NewG(c.Rng)
		g.AddNode(0, "pa")
		g.AddNode(2, "")
		k := g.AddNode(3, "pab")
		g.Sc.Nodes[k].Qual = "g1"
		g.AddNode(4, "")
		g.Sc.Config = c11Config
		g.ShuffleOrders()
		rec := &recorder{seen: map[string][]string{}}
		if s%3 == 1 {
			rec.stampTag = "stamped" // the handler names its finds differently from the processor's own tag
		}
		// the user's tag processor declares a property type of its own, or shares the built-in configuration
		// type: either way it is handed its tag's value and arguments, nothing added
		nt := component_definition.PropertyType("custom")
		if s%2 == 0 {
			nt = component_definition.PropertyTypeConfiguration
		}
		scan := &mytagScanner{processors.DefaultTagScanDefinitionRegistryPostProcessor{NodeType: nt, Tag: "mytag",
			ExtractHandler: func(_ *component_definition.Meta, f *component_definition.Field) (string, string, bool) {
				if f.StructField.Type == stampType {
					if rec.stampTag != "" {
						return rec.stampTag, stampTagVal, true
					}
					return "mytag", stampTagVal, true
				}
				return "", "", false
			}}}
		extra := []any{h, rec, scan, &plugScanner{processors.DefaultTagScanDefinitionRegistryPostProcessor{NodeType: component_definition.PropertyTypeComponent, Tag: "plug"}}}
		if s%2 == 1 {
			// an early user post-processor that answers with the properties it handled (none)
			extra = append(extra, &world.SubsetPP{Ord: []int{1, 3, -7}[s%3], Tag: "no-such-tag"})
		}
		r := world.Start(g.Sc, world.Options{Extra: extra})
		c.Count("starts", 1)
		if r.Outcome() != "ok" {
			c.Fail("", fmt.Sprintf("arrangement %d (depth %d) did not start: %s", s, depth, core.Short(r.OutcomeDetail(), 400)),
				map[string]any{"leaves": describeLeaves(ls), "type": typ.String(), "stack": core.Short(r.Stack, 1500)})
			return
		}
		res := result{values: map[string]string{}, depth: depth}
		for _, l := range ls {
			f, _ := findField(hv, l.name)
			var got any
			if l.unexp {
				got = forceGet(f)
			} else {
				got = f.Interface()
			}
			if l.decoy {
				if !reflect.DeepEqual(got, sentinelFor(l.typ).Interface()) {
					c.Fail("", fmt.Sprintf("arrangement %d: %s field %s (tag `%s`) was modified by the container: %v", s, l.kind, l.name, l.tag, got),
						map[string]any{"leaves": describeLeaves(ls), "type": typ.String()})
					return
				}
				c.Count("sentinels_checked", 1)
				continue
			}
			res.values[l.name] = renderLeaf(r, l, got)
			if l.expect != nil && l.kind != "custom" && l.kind != "plug" {
				want := fmt.Sprint(l.expect)
				if res.values[l.name] != want {
					c.Fail("", fmt.Sprintf("arrangement %d (depth %d): leaf %s `%s` holds %s, expected %s", s, depth, l.name, l.tag, res.values[l.name], want),
						map[string]any{"leaves": describeLeaves(ls), "type": typ.String()})
					return
				}
			}
			if l.kind == "logger" && res.values[l.name] != "set" {
				c.Fail("", fmt.Sprintf("arrangement %d: logger leaf %s not set", s, l.name), map[string]any{"type": typ.String()})
				return
			}
			c.Count("leaves_checked", 1)
		}
		// structural decoys
		named := hv.FieldByName("Named" + id)
		if named.Field(0).String() != "" || !named.Field(1).IsNil() {
			c.Fail("", fmt.Sprintf("arrangement %d: leaves inside a named (non-embedded) struct field were processed", s), map[string]any{"type": typ.String()})
			return
		}
		if !hv.FieldByName("PtrEmb" + id).IsNil() {
			c.Fail("", fmt.Sprintf("arrangement %d: embedded nil pointer was written", s), map[string]any{"type": typ.String()})
			return
		}
		sub := hv.FieldByName("Sub" + id)
		if sub.Field(0).String() != "nested-value" || sub.Field(1).Int() != 5 {
			c.Fail("", fmt.Sprintf("arrangement %d: anonymous struct with a prefix tag was not bound as a whole: %v", s, sub.Interface()), map[string]any{"type": typ.String()})
			return
		}
		name := world.Describe([]any{h})[0].Name
		got := append([]string(nil), rec.seen[name]...)
		sort.Strings(got)
		res.rec = got
		if !reflect.DeepEqual(got, custom) && !(len(got) == 0 && len(custom) == 0) {
			c.Fail("", fmt.Sprintf("arrangement %d: the user tag processor received %v, expected exactly %v", s, got, custom), map[string]any{"type": typ.String()})
			return
		}
		gotPlug := append([]string(nil), rec.seen["plug:"+name]...)
		sort.Strings(gotPlug)
		if !reflect.DeepEqual(gotPlug, plugs) && !(len(gotPlug) == 0 && len(plugs) == 0) {
			c.Fail("", fmt.Sprintf("arrangement %d: the user tag processor for `plug` (component property type) received %v, expected exactly %v", s, gotPlug, plugs), map[string]any{"type": typ.String()})
			return
		}
		results = append(results, res)
		if depth >= 2 && deepDecoys >= 1 {
			nontrivial = true
			sig += fmt.Sprintf("%d/%d;", depth, deepDecoys)
		}
		c.Distinct("depths", fmt.Sprint(depth))
	}
	for i := 1; i < len(results); i++ {
		for k, v := range results[0].values {
			if results[i].values[k] != v {
				c.Fail("", fmt.Sprintf("leaf %s holds %s in the flat struct but %s in arrangement %d (depth %d)", k, v, results[i].values[k], i, results[i].depth),
					map[string]any{"leaves": describeLeaves(ls)})
				return
			}
		}
	}
	if nontrivial {
		c.Nontrivial(sig + strings.Join(describeLeaves(ls), ";"))
		if c.WantSample() {
			c.Sample(map[string]any{"leaves": describeLeaves(ls), "arrangement_depths/deep_decoys": sig, "custom_tag_properties": custom})
		}
	}
}

func renderLeaf(r *world.Run, l leaf, got any) string {
	switch l.kind {
	case "wire", "func":
		refs, _ := r.ValueRefs(reflect.ValueOf(got))
		if reflect.ValueOf(got).Kind() != reflect.Slice {
			refs = []world.Ref{r.RefOf(got)}
		}
		var names []string
		for _, ref := range refs {
			if ref.Nil {
				names = append(names, "nil")
			} else if n, ok := ref.Obj.(world.Node); ok && ref.Pop >= 0 {
				names = append(names, n.DisplayName())
			} else {
				names = append(names, "?")
			}
		}
		sort.Strings(names)
		return fmt.Sprint(names)
	case "logger":
		if got == nil {
			return "nil"
		}
		return "set"
	case "custom":
		return fmt.Sprint(got)
	}
	return fmt.Sprint(got)
}

func describeLeaves(ls []leaf) []string {
	var out []string
	for _, l := range ls {
		out = append(out, fmt.Sprintf("%s %s `%s` [%s]", l.name, l.typ, l.tag, l.kind))
	}
	return out
}

// compiled: compile-time holder types for the shapes reflect.StructOf cannot build - embedded
// structs whose own type name is unexported (their exported fields are promoted and settable).
func (p c11) compiled(c *core.Ctx) {
	holders := world.NewEmbedFixtures()
	c.Rng.Shuffle(len(holders), func(i, j int) { holders[i], holders[j] = holders[j], holders[i] })
	holders = holders[:1+c.Rng.Intn(len(holders))]
	g := world.NewG(c.Rng)
	g.AddNode(0, "pa")
	k := g.AddNode(3, "pab")
	g.Sc.Nodes[k].Qual = "g1"
	g.Sc.Config = c11Config
	g.ShuffleOrders()
	var extra []any
	for _, h := range holders {
		extra = append(extra, h)
	}
	l1, l2, localCheck := world.NewLocalTypeFixtures()
	if c.Rng.Intn(2) == 0 {
		extra = append([]any{l1, l2}, extra...)
	} else {
		extra = append(extra, l2, l1)
	}
	nameOf := func(v any) string {
		if n, ok := v.(world.Node); ok && v != nil {
			return n.DisplayName()
		}
		return ""
	}
	// the holder with the field-less "base" is also started alone first (same process: a cache keyed by
	// type name would be primed by it)
	if c.Rng.Intn(2) == 0 {
		l0, _, _ := world.NewLocalTypeFixtures()
		world.Start(&world.Scenario{}, world.Options{Extra: []any{l0}, NoTracer: true})
	}
	// the user tag processor of the generated family takes part: it must be handed the embedded field that
	// carries its tag (and nothing else of these holders)
	rec := &recorder{seen: map[string][]string{}}
	extra = append(extra, rec, &mytagScanner{processors.DefaultTagScanDefinitionRegistryPostProcessor{NodeType: "custom", Tag: "mytag"}})
	// a user tag processor that learns the name of its tag only when the factory is prepared (from the
	// configuration, say): the definition scan happens after that
	extra = append(extra, &lateTagScanner{})
	r := world.Start(g.Sc, world.Options{Extra: extra})
	c.Count("starts", 1)
	if r.Outcome() != "ok" {
		c.Fail("", "compile-time embedded fixtures did not start: "+core.Short(r.OutcomeDetail(), 300), nil)
		return
	}
	for _, problem := range localCheck(nameOf) {
		c.Fail("", problem, nil)
		return
	}
	for _, h := range holders {
		if _, ok := h.(*world.HolderTaggedEmbeds); ok {
			got := rec.seen["verifharness/world/HolderTaggedEmbeds"]
			if len(got) != 1 || !strings.HasPrefix(got[0], "Stamped|created|") {
				c.Fail("", fmt.Sprintf("HolderTaggedEmbeds: the user tag processor for mytag received %v, expected exactly the embedded field Stamped with value \"created\"", got), nil)
				return
			}
		}
		if _, ok := h.(*world.HolderZeroMarks); ok {
			got := append([]string(nil), rec.seen["verifharness/world/HolderZeroMarks"]...)
			sort.Strings(got)
			if len(got) != 2 || !strings.HasPrefix(got[0], "Del|DELETE /item|") || !strings.HasPrefix(got[1], "List|GET /list|") {
				c.Fail("", fmt.Sprintf("HolderZeroMarks: the user tag processor for mytag received %v, expected the two zero-size marker fields Del and List of the embedded (zero-size) struct", got), nil)
				return
			}
			if late := rec.seen["late:verifharness/world/HolderZeroMarks"]; len(late) != 1 || !strings.HasPrefix(late[0], "Topic|orders|") {
				c.Fail("", fmt.Sprintf("HolderZeroMarks: the user tag processor that sets its tag name while the factory is prepared received %v, expected exactly the field Topic with value \"orders\"", late), nil)
				return
			}
		}
		for _, problem := range h.Check(nameOf) {
			c.Fail("", fmt.Sprintf("%T: %s", h, problem), nil)
			return
		}
		c.Count("compiled_fixture_holders_checked", 1)
	}
	c.Nontrivial(fmt.Sprintf("compiled:%d:%T", len(holders), holders[0]))
}
