package props

import (
	"fmt"
	"reflect"
	"sort"
	"strings"

	"verifharness/core"
	"verifharness/mon"
	"verifharness/world"
)

// C02 Circular dependencies resolve and start-up always terminates.
type c02 struct{}

func init() { core.Register(c02{}) }

func (c02) ID() string    { return "C02" }
func (c02) Level() string { return "exploration" }
func (c02) Rule() string {
	return "enumerated: every digraph on 3 nodes (quick) and on 4 nodes (thorough) x every assignment of name ranks (so the name-sorted refresh enters each cycle at each rotation) x edge kind {named *T, named interface, named any, by-type *T, mixed}; random: cycle-rich graphs with 5..60 (quick) / 5..300 (thorough) nodes incl. cycles through by-type and qualified slices; self-only points in the five shapes (pointer, interface, named, slice of pointers, slice of interfaces) x required/optional inside random graphs. Oracle: termination decided by a step budget on SingletonComponentRegistry calls (logical steps), success, and per-point wiring against the reference model; a self-only point must give an error (required) or stay empty (optional). non-trivial = graph with a cycle or a self-only point; distinct = canonical graph signature; after every start each name is requested through GetComponentByName: whatever is handed out without an error must have every required point filled; stateless service locators that look themselves and their holders up in every Init; configuration tags on cycle members; sibling by-type points; post-processor lookups that repeat on every callback and cover both directions of a cycle; a post-processor component on a cycle; by-name edges named through placeholder defaults; lazyAfterStart family (unreferenced lazy cycles created by a lookup after the start); embeddedCycle family (one direction through a tagged embedded interface); sameNamedTypes family (a cycle through interfaces of two packages that print alike); in fault-free starts no lookup issued from a callback is answered with an error; selfEmbedded family (self-referring points in embedded structs behind other fields); lookups issued while an early reference is produced (LookupPP early mode)"
}
func (c02) Assumptions() []string {
	return []string{
		"termination is decided up to the step budget 40*(components+20)+60*edges*(components+20)+2000 registry calls per start; a wall-clock watchdog firing is reported as inconclusive",
		"no substituting post-processor is registered in these scenarios (C03 covers those)",
	}
}

func (c02) enumCount(tier string) int {
	if tier == "thorough" {
		return NumDigraphs(3)*Fact(3)*5 + NumDigraphs(4)*Fact(4)*2
	}
	return NumDigraphs(3)*Fact(3)*5 + 2500
}
func (c02) randomCount(tier string) int { return tierN(tier, 1200, 80000) }
func (c02) selfCount(tier string) int   { return tierN(tier, 600, 40000) }
func (p c02) NumCases(tier string) int {
	return p.enumCount(tier) + p.randomCount(tier) + p.selfCount(tier)
}
func (c02) MinNontrivial(tier string) int { return tierN(tier, 500, 5000) }
func (c02) ExhaustiveNote(tier string) (bool, string) {
	if tier == "thorough" {
		return false, "enumerated completely: 64 digraphs on 3 nodes x 6 rank assignments x 5 edge kinds; 4096 digraphs on 4 nodes x 24 rank assignments x 2 edge-kind rotations; the random and self-only parts are sampled"
	}
	return false, "enumerated completely: 64 digraphs on 3 nodes x 6 rank assignments x 5 edge kinds; digraphs on 4 nodes and the rest are sampled"
}

// ppCycle: a post-processor that is itself a component sits on a circular reference with ordinary
// components: every required point on the cycle is populated by its target, on both sides.
func (p c02) ppCycle(c *core.Ctx) {
	g := world.NewG(c.Rng)
	tgt := g.AddNode([]int{0, 1, 3}[c.Rng.Intn(3)], "np-target")
	req := g.AddNode([]int{0, 1, 3}[c.Rng.Intn(3)], "np-req")
	mid := g.AddRandomNode(plainAB, 0)
	// np-target -> mid -> the post-processor -> np-target ; np-req -> the post-processor -> np-req
	g.EdgeByName(tgt, mid, "")
	g.SetTag(mid, "Any1", "wire", "verif.namepp")
	g.SetTag(req, "Any1", "wire", "verif.namepp")
	g.ShuffleOrders()
	pp := &world.NamePP{}
	r := world.Start(g.Sc, world.Options{Extra: []any{pp}})
	c.Count("starts", 1)
	c.Count("post_processor_cycle_starts", 1)
	detail := failDetail(g.Sc, r, nil)
	if r.Outcome() != "ok" {
		c.Fail("", "circular reference through a post-processor component did not start: "+core.Short(r.OutcomeDetail(), 300), detail)
		return
	}
	if pp.One != any(r.Nodes[tgt]) || pp.Req != any(r.Nodes[req]) || r.Nodes[mid].Slot().Any1 != any(pp) || r.Nodes[req].Slot().Any1 != any(pp) {
		c.Fail("", fmt.Sprintf("circular reference through a post-processor component: post-processor.One=%p (np-target %p) .Req=%p (np-req %p); mid.Any1=%p np-req.Any1=%p (post-processor %p)",
			pp.One, r.Nodes[tgt], pp.Req, r.Nodes[req], r.Nodes[mid].Slot().Any1, r.Nodes[req].Slot().Any1, pp), detail)
		return
	}
	c.Nontrivial("ppcycle|" + g.Sc.GraphSig())
}

// longRing: one cycle (or chain) through 100..400 components: every member is in creation at the same time
// when the refresh enters it; it resolves like a short one.
func (p c02) longRing(c *core.Ctx) {
	n := []int{100, 127, 128, 129, 130, 200, 257, 400}[c.Rng.Intn(8)]
	g := world.NewG(c.Rng)
	for i := 0; i < n; i++ {
		g.AddRandomNode(plainAny, 0)
	}
	closed := c.Rng.Intn(3) > 0
	for i := 0; i < n; i++ {
		if i == n-1 && !closed {
			break // a chain
		}
		g.EdgeByName(i, (i+1)%n, "")
	}
	g.ShuffleOrders()
	r := world.Start(g.Sc, world.Options{})
	c.Count("starts", 1)
	c.Count("long_ring_starts", 1)
	problems, _ := evalAgainstModel(r, true)
	if r.Outcome() != "ok" && len(problems) == 0 {
		problems = append(problems, problem{Kind: "unexpected-error", Msg: "a ring of " + fmt.Sprint(n) + " components did not start: " + core.Short(r.OutcomeDetail(), 300)})
	}
	if len(problems) > 0 {
		c.Fail("", fmt.Sprintf("%d components on one %s: %s", n, map[bool]string{true: "cycle", false: "chain"}[closed], problems[0].Msg), map[string]any{"components": n, "closed": closed, "problems": msgs(problems)})
		return
	}
	c.Nontrivial(fmt.Sprintf("longring|%d|%v", n, closed))
}

// lazyAfterStart: a cycle made of lazy components only, which no eager component refers to: nothing of it is
// created during the start; the first by-name lookup of a member afterwards creates the whole cycle like a
// cycle met during the start - it terminates, and every member holds its neighbours.
func (p c02) lazyAfterStart(c *core.Ctx) {
	g := world.NewG(c.Rng)
	lazy := []int{7, 8, 11, 14}
	n := 2 + c.Rng.Intn(4)
	for i := 0; i < n; i++ {
		g.AddNode(lazy[c.Rng.Intn(len(lazy))], g.FreshName(i))
	}
	type edge struct {
		from, to int
		slot     string
	}
	var edges []edge
	for i := 0; i < n; i++ {
		if s := g.EdgeByName(i, (i+1)%n, "", "iface"); s != "" {
			edges = append(edges, edge{i, (i + 1) % n, s})
		} else {
			return
		}
	}
	for x, nx := 0, c.Rng.Intn(3); x < nx; x++ {
		a, b := c.Rng.Intn(n), c.Rng.Intn(n)
		if a == b {
			continue
		}
		if s := g.EdgeByName(a, b, "", "iface"); s != "" {
			edges = append(edges, edge{a, b, s})
		}
	}
	for x := 0; x < c.Rng.Intn(3); x++ {
		g.AddRandomNode(world.TypesEagerPlain, 0.2)
	}
	g.ShuffleOrders()
	r := world.Start(g.Sc, world.Options{})
	c.Count("starts", 1)
	c.Count("lazy_cycle_after_start_cases", 1)
	detail := failDetail(g.Sc, r, nil)
	if r.Outcome() != "ok" {
		c.Fail("", "start with an unreferenced lazy cycle did not succeed: "+core.Short(r.OutcomeDetail(), 300), detail)
		return
	}
	for i := 0; i < n; i++ {
		if k := countEvents(r, "init", g.Sc.Nodes[i].DisplayName()) + countEvents(r, "aps", g.Sc.Nodes[i].DisplayName()); k > 0 {
			c.Fail("", fmt.Sprintf("lazy component %q, which nothing eager refers to, was initialised during the start", g.Sc.Nodes[i].DisplayName()), detail)
			return
		}
	}
	entry := c.Rng.Intn(n)
	var got any
	var err error
	r.Guard(func() { got, err = r.App.GetComponentByName(g.Sc.Nodes[entry].DisplayName()) })
	if r.Panic != nil || r.Diverge != nil {
		c.Fail("", fmt.Sprintf("lookup of a member of a lazy cycle of %d components after the start does not terminate normally: %s", n, core.Short(r.OutcomeDetail(), 300)), detail)
		return
	}
	if err != nil || got != any(r.Nodes[entry]) {
		c.Fail("", fmt.Sprintf("lookup of a member of a lazy cycle of %d components after the start: %v (%v)", n, got, err), detail)
		return
	}
	for _, e := range edges {
		refs, _ := r.SlotRefs(r.Nodes[e.from], e.slot)
		if len(refs) != 1 || refs[0].Nil || refs[0].Obj != any(r.Nodes[e.to]) {
			c.Fail("", fmt.Sprintf("after the lookup created the lazy cycle, %s.%s does not hold %s", g.Sc.Nodes[e.from].DisplayName(), e.slot, g.Sc.Nodes[e.to].DisplayName()), detail)
			return
		}
	}
	for i := 0; i < n; i++ {
		ti := world.Palette[g.Sc.Nodes[i].Type]
		nm := g.Sc.Nodes[i].DisplayName()
		if ti.Init && countEvents(r, "init", nm) != 1 {
			c.Fail("", fmt.Sprintf("member %q of the lazy cycle was initialised %d times by the lookup", nm, countEvents(r, "init", nm)), detail)
			return
		}
	}
	c.Nontrivial(fmt.Sprintf("lazyafter|%d|%s", n, g.Sc.GraphSig()))
}

// sameNamedTypes: a cycle through two interface types that print alike (`model.Linker` declared in two
// packages with the same base name): each point is offered the implementers of ITS type.
func (p c02) sameNamedTypes(c *core.Ctx) {
	g := world.NewG(c.Rng)
	for x, nx := 0, c.Rng.Intn(3); x < nx; x++ {
		g.AddRandomNode(world.TypesEagerPlain, 0.2)
	}
	g.ShuffleOrders()
	names := [][2]string{{"a-link", "b-link"}, {"z-link", "b-link"}, {"link-1", "link-0"}}[c.Rng.Intn(3)]
	a, b := &world.LinkA{Nm: names[0]}, &world.LinkB{Nm: names[1]}
	extra := []any{a, b}
	if c.Rng.Intn(2) == 0 {
		extra = []any{b, a}
	}
	r := world.Start(g.Sc, world.Options{Extra: extra})
	c.Count("starts", 1)
	c.Count("same_named_type_cycle_starts", 1)
	detail := failDetail(g.Sc, r, map[string]any{"names": names})
	if r.Outcome() != "ok" {
		c.Fail("", "a cycle through two interface types that print alike (model.Linker of two packages) did not start: "+core.Short(r.OutcomeDetail(), 300), detail)
		return
	}
	if a.Next != any(b) || b.Next != any(a) {
		c.Fail("", fmt.Sprintf("cycle through two same-named interface types: a.Next=%v (expected b), b.Next=%v (expected a)", a.Next, b.Next), detail)
		return
	}
	c.Nontrivial(fmt.Sprintf("samenamed|%v|%s", names, g.Sc.GraphSig()))
}

// embeddedCycle: a cycle one direction of which is a tagged anonymous field (the decorator layout
// `struct{ Service `wire:"core"` }`): core -> decorator by name, decorator -> core through the embedded interface.
func (p c02) embeddedCycle(c *core.Ctx) {
	g := world.NewG(c.Rng)
	core_ := g.AddNode([]int{0, 1, 3}[c.Rng.Intn(3)], "mix-dep")
	g.SetTag(core_, []string{"Any0", "Any1"}[c.Rng.Intn(2)], "wire", "embed-iface-holder")
	for x, nx := 0, c.Rng.Intn(3); x < nx; x++ {
		k := g.AddRandomNode(world.TypesEagerPlain, 0.2)
		if c.Rng.Intn(2) == 0 {
			g.EdgeByName(k, core_, "", "iface")
		}
	}
	g.ShuffleOrders()
	h := &world.EmbedIfaceHolder{}
	r := world.Start(g.Sc, world.Options{Extra: []any{h}})
	c.Count("starts", 1)
	c.Count("embedded_cycle_starts", 1)
	detail := failDetail(g.Sc, r, nil)
	if r.Outcome() != "ok" {
		c.Fail("", "cycle through a tagged embedded interface did not start: "+core.Short(r.OutcomeDetail(), 300), detail)
		return
	}
	var back any
	for slot := range g.Sc.Nodes[core_].Tags {
		if refs, _ := r.SlotRefs(r.Nodes[core_], slot); len(refs) == 1 && !refs[0].Nil && strings.HasPrefix(slot, "Any") {
			back = refs[0].Obj
		}
	}
	if h.IA != any(r.Nodes[core_]) || back != any(h) {
		c.Fail("", fmt.Sprintf("cycle core <-> decorator: the decorator's embedded interface holds %v (expected the core), the core's by-name point holds %v (expected the decorator)", h.IA, back), detail)
		return
	}
	c.Nontrivial("embeddedcycle|" + g.Sc.GraphSig())
}

// selfEmbedded: a point that (also) matches its own component, declared in an embedded struct at a non-zero
// offset: it is never wired to its own holder - a self-only required point is an error, an optional one stays
// empty, a slice holds every other candidate but not the holder.
func (p c02) selfEmbedded(c *core.Ctx) {
	k := world.SelfHolderKinds[c.Rng.Intn(len(world.SelfHolderKinds))]
	h := k.New()
	withOther := c.Rng.Intn(2) == 0
	var other *world.SelfOther
	extra := []any{h}
	if withOther {
		other = &world.SelfOther{}
		extra = append(extra, other)
	}
	g := world.NewG(c.Rng)
	for x, nx := 0, c.Rng.Intn(3); x < nx; x++ {
		g.AddRandomNode(world.TypesEagerPlain, 0.2)
	}
	g.ShuffleOrders()
	c.Rng.Shuffle(len(extra), func(a, b int) { extra[a], extra[b] = extra[b], extra[a] })
	r := world.Start(g.Sc, world.Options{Extra: extra})
	c.Count("starts", 1)
	c.Count("self_embedded_starts", 1)
	detail := failDetail(g.Sc, r, map[string]any{"holder": k.Label, "other_candidate_registered": withOther})
	if abnormal(r.Outcome()) {
		c.Fail("", k.Label+": "+core.Short(r.OutcomeDetail(), 300), detail)
		return
	}
	hv := reflect.ValueOf(h).Elem()
	satisfiable := withOther && k.OtherFit
	if r.Outcome() != "ok" {
		if satisfiable || !k.Required {
			c.Fail("", k.Label+fmt.Sprintf(" (another candidate registered: %v): start failed: ", withOther)+core.Short(r.OutcomeDetail(), 300), detail)
			return
		}
		c.Nontrivial("selfembedded-refused|" + k.Label)
		return
	}
	if !satisfiable && k.Required {
		c.Fail("", k.Label+": only the holder itself can satisfy the required point, yet the start succeeded (field = "+fmt.Sprint(hv.FieldByName(map[bool]string{true: "All", false: "Me"}[k.Slice]).Interface())+")", detail)
		return
	}
	if k.Slice {
		all := hv.FieldByName("All")
		for i := 0; i < all.Len(); i++ {
			if all.Index(i).Interface() == h {
				c.Fail("", k.Label+": the slice contains its own holder", detail)
				return
			}
		}
		if want := map[bool]int{true: 1, false: 0}[satisfiable]; all.Len() != want {
			c.Fail("", fmt.Sprintf("%s: the slice holds %d elements, %d other candidate(s) registered", k.Label, all.Len(), want), detail)
			return
		}
	} else {
		me := hv.FieldByName("Me")
		switch {
		case !me.IsNil() && me.Interface() == h:
			c.Fail("", k.Label+": the point is wired to its own holder", detail)
			return
		case satisfiable && (me.IsNil() || me.Interface() != any(other)):
			c.Fail("", k.Label+": the point does not hold the other candidate", detail)
			return
		case !satisfiable && !me.IsNil():
			c.Fail("", k.Label+": the point holds something although nothing but the holder fits", detail)
			return
		}
	}
	c.Nontrivial(fmt.Sprint("selfembedded-ok|", k.Label, withOther))
}

func (p c02) Run(c *core.Ctx) {
	if c.Index >= p.enumCount(c.Tier) && c.Index%40 == 33 {
		p.selfEmbedded(c)
		return
	}
	if c.Index >= p.enumCount(c.Tier) && c.Index%40 == 9 {
		p.embeddedCycle(c)
		return
	}
	if c.Index >= p.enumCount(c.Tier) && c.Index%40 == 37 {
		p.sameNamedTypes(c)
		return
	}
	if c.Index >= p.enumCount(c.Tier) && c.Index%40 == 29 {
		p.lazyAfterStart(c)
		return
	}
	if c.Index >= p.enumCount(c.Tier) && c.Index%40 == 17 { // (the enumerated part stays complete)
		p.ppCycle(c)
		return
	}
	if c.Index >= p.enumCount(c.Tier) && c.Index%100 == 57 {
		p.longRing(c)
		return
	}
	transientFaults := false
	selfLookups := 0
	placeholderNames := 0
	var extra []any
	var sc *world.Scenario
	part := "random"
	ec := p.enumCount(c.Tier)
	switch {
	case c.Index < ec:
		part = "enum"
		e := c.Index
		n3 := NumDigraphs(3) * Fact(3) * 5
		if e < n3 {
			kind := e / (NumDigraphs(3) * Fact(3))
			e %= NumDigraphs(3) * Fact(3)
			sc = EnumDigraph(3, e/Fact(3), e%Fact(3), kind, c.Rng)
		} else if c.Tier == "thorough" {
			e -= n3
			rot := e / (NumDigraphs(4) * Fact(4))
			e %= NumDigraphs(4) * Fact(4)
			sc = EnumDigraph(4, e/Fact(4), e%Fact(4), (e+rot*2)%5, c.Rng)
		} else {
			sc = EnumDigraph(4, c.Rng.Intn(NumDigraphs(4)), c.Rng.Intn(Fact(4)), c.Rng.Intn(5), c.Rng)
		}
		g := world.G{Rng: c.Rng, Sc: sc}
		g.ShuffleOrders()
	case c.Index < ec+p.randomCount(c.Tier):
		maxN := 60
		if c.Tier == "thorough" && c.Index%10 == 0 {
			maxN = 300
		}
		minN := 5
		if c.Index%25 == 0 {
			minN = maxN / 2
		}
		sc = RandomGraph(c.Rng, GraphOpts{MinN: minN, MaxN: maxN, Types: world.TypesAll, PCycle: 0.9, Chords: 3,
			ByTypeSlice: 0.15, QualSlice: 0.2, ByTypeUniq: 0.15, PUnnamed: 0.2})
		if c.Index%3 == 0 {
			addSelfCandidatePoints(c, sc)
		}
		if c.Index%5 == 3 {
			// some by-name edges take the name from configuration: a placeholder whose key is not configured
			// and whose default is the target's name
			for i := range sc.Nodes {
				for slot, ts := range sc.Nodes[i].Tags {
					name := strings.SplitN(ts.Val, ",", 2)[0]
					if _, isNode := nodeNamed(sc, name); ts.Tag == "wire" && name != "" && isNode && c.Rng.Intn(3) == 0 {
						sc.Nodes[i].Tags[slot] = world.TagSpec{Tag: "wire", Val: "${nosuchkey.n" + fmt.Sprint(i) + ":" + name + "}" + strings.TrimPrefix(ts.Val, name)}
						placeholderNames++
					}
				}
			}
		}
		if c.Index%2 == 0 {
			// cycle members that also carry configuration tags (several scanners contribute to one definition)
			for i := range sc.Nodes {
				if c.Rng.Intn(2) == 0 {
					sc.Nodes[i].Cfg = map[string]world.TagSpec{"CfgS": {Tag: "value", Val: "${c02.s:dflt}"}, "CfgI": {Tag: "prop", Val: "c02.i:7"}}
				}
			}
		}
		if c.Index%4 == 1 && len(sc.Nodes) <= 40 {
			// a transient failure somewhere (a component's Init fails on its first invocation only), hit first
			// from inside a service-locator lookup that swallows the error: the refresh creates the cycle
			// members again afterwards and everything must be wired completely - or the start must fail
			for x := 0; x < 1+c.Rng.Intn(2); x++ {
				i := c.Rng.Intn(len(sc.Nodes))
				if ti := world.Palette[sc.Nodes[i].Type]; ti.Init {
					sc.Nodes[i].FailOnce = append(sc.Nodes[i].FailOnce, "init")
				} else if ti.Aps {
					sc.Nodes[i].FailOnce = append(sc.Nodes[i].FailOnce, "aps")
				}
			}
			AddInitLookups(c.Rng, sc, 0.5)
			transientFaults = true
		}
		if c.Index%4 == 2 {
			// stateless service locators: components (preferably without any injection point of their own)
			// that look themselves and the eager components holding them up in every initialization callback
			adj := sc.NamedAdj()
			for x := 0; x < 1+c.Rng.Intn(3); x++ {
				i := c.Rng.Intn(len(sc.Nodes))
				for tries := 0; tries < 8 && len(sc.Nodes[i].Tags) > 0; tries++ {
					i = c.Rng.Intn(len(sc.Nodes))
				}
				if ti := world.Palette[sc.Nodes[i].Type]; !(ti.Init || ti.Aps) || len(sc.Nodes[i].Lookups) > 0 {
					continue
				}
				sc.Nodes[i].LookupsAlways = true
				if c.Rng.Intn(3) > 0 {
					sc.Nodes[i].Lookups = append(sc.Nodes[i].Lookups, sc.Nodes[i].DisplayName())
				}
				for h := range adj {
					for _, t := range adj[h] {
						if t == i && h != i && !world.Palette[sc.Nodes[h].Type].Lazy && c.Rng.Intn(2) == 0 {
							sc.Nodes[i].Lookups = append(sc.Nodes[i].Lookups, sc.Nodes[h].DisplayName())
						}
					}
				}
				if len(sc.Nodes[i].Lookups) > 0 {
					selfLookups++
				}
			}
		}
		if c.Index%4 == 3 && len(sc.Nodes) <= 40 {
			// a user post-processor that resolves collaborators through the factory from inside its
			// property / instantiation callbacks (a customised injector): preferably the eager component
			// that wires the one being processed - a cycle through a looked-up edge
			lp := &world.LookupPP{Plan: map[string]string{}, When: []string{"after-inst", "properties", "before", "early"}[c.Rng.Intn(4)], Always: true}
			adj := sc.NamedAdj()
			for i := range sc.Nodes {
				if c.Rng.Intn(3) != 0 || world.Palette[sc.Nodes[i].Type].Lazy {
					continue
				}
				target := -1
				for h := range adj {
					for _, t := range adj[h] {
						if t == i && h != i && !world.Palette[sc.Nodes[h].Type].Lazy && (target < 0 || c.Rng.Intn(2) == 0) {
							target = h
						}
					}
				}
				if target >= 0 {
					lp.Plan[sc.Nodes[i].DisplayName()] = sc.Nodes[target].DisplayName()
					if _, has := lp.Plan[sc.Nodes[target].DisplayName()]; !has && c.Rng.Intn(2) == 0 {
						// and back: both directions of the cycle run through looked-up edges
						lp.Plan[sc.Nodes[target].DisplayName()] = sc.Nodes[i].DisplayName()
					}
				}
			}
			if lp.When == "early" {
				// (a lookup issued while an early reference is produced may itself ask for an early reference: one entry
				// only - two such callbacks waiting for each other's result would be a loop of the processor's own making)
				keys := make([]string, 0, len(lp.Plan))
				for k := range lp.Plan {
					keys = append(keys, k)
				}
				sort.Strings(keys)
				for i, k := range keys {
					if i > 0 {
						delete(lp.Plan, k)
					}
				}
			}
			extra = append(extra, lp)
			c.Count("post_processor_lookups", len(lp.Plan))
		}
	default:
		part = "self"
		sc = selfOnlyScenario(c)
	}
	r := world.Start(sc, world.Options{Extra: extra})
	c.Count("starts", 1)
	c.Count("registry_steps", r.Tracer.Steps())
	problems, exp := evalAgainstModel(r, !transientFaults)
	if !transientFaults && r.Outcome() == "ok" && len(problems) == 0 {
		// a cycle may be closed by a lookup a component issues from inside its callbacks (service-locator
		// style): in a start without faults such a lookup of a registered component is answered, like an
		// injection point on the cycle would be, with the component (its early reference while it is in creation)
		for _, name := range core.SortedKeys(r.LookErrs) {
			if _, registered := nodeNamed(sc, name); registered {
				problems = append(problems, problem{Kind: "lookup-refused", Msg: fmt.Sprintf("a lookup of the registered component %q from inside a callback was answered with an error in a start without faults: %s", name, core.Short(r.LookErrs[name][0], 200))})
				break
			}
		}
	}
	if transientFaults {
		c.Count("starts_with_swallowed_transient_failures", 1)
		if r.Outcome() == "ok" && len(problems) == 0 {
			// whatever the container hands out without an error must be completely wired
			for _, pr := range exp.Points {
				if pr.Node < 0 || pr.Res.Unsupported || !pr.Res.Required || len(pr.Res.S) == 0 {
					continue
				}
				name := sc.Nodes[pr.Node].DisplayName()
				var err error
				r.Guard(func() { _, err = r.App.GetComponentByName(name) })
				if r.Panic != nil || r.Diverge != nil {
					problems = append(problems, problem{Kind: "panic", Msg: "lookup after the start: " + r.OutcomeDetail()})
					break
				}
				if err != nil {
					continue
				}
				refs, _ := r.ValueRefs(pr.Val)
				empty := len(refs) == 0
				for _, ref := range refs {
					if ref.Nil {
						empty = true
					}
				}
				if empty {
					problems = append(problems, problem{Kind: "handed-out-incomplete", Msg: fmt.Sprintf("component %q is handed out by GetComponentByName without error, but its required point %s [%s:%q] is empty", name, pr.Slot, pr.Pt.Tag, pr.Pt.Raw)})
					break
				}
			}
		}
	}
	shape := shapeOf(sc)
	selfPts := 0
	for _, pr := range exp.Points {
		if len(pr.Res.S) == 0 && !pr.Res.Unsupported {
			selfPts++
		}
	}
	if shape != "dag" || selfPts > 0 {
		c.Nontrivial(sc.GraphSig())
	}
	c.Distinct("creation_traces", mon.ShapeHash(r.Tracer.Events()))
	c.Count("part_"+part, 1)
	c.Count("by_name_edges_named_through_a_placeholder", placeholderNames)
	c.Count("components_looking_themselves_or_their_holders_up_in_every_init", selfLookups)
	c.Count("outcome_"+r.Outcome(), 1)
	if len(problems) > 0 {
		c.Count("problem_"+problems[0].Kind, 1)
		c.Fail(classifyWiring(r, problems), problems[0].Msg, failDetail(sc, r, map[string]any{"problems": msgs(problems), "part": part}))
		return
	}
	if c.WantSample() && (shape != "dag" || selfPts > 0) {
		c.Sample(map[string]any{"scenario": describeScenario(sc), "shape": shape, "self_only_points": selfPts, "outcome": r.Outcome(), "registry_steps": r.Tracer.Steps(), "part": part})
	}
}

// selfOnlyScenario: a random graph plus one holder with a point that only the holder itself
// could satisfy.
func selfOnlyScenario(c *core.Ctx) *world.Scenario {
	// population without any IA implementer / T00 instance other than the holder
	types := []int{2, 5, 7, 13, 15, 27, 29, 10}
	sc := RandomGraph(c.Rng, GraphOpts{MinN: 0, MaxN: 6, Types: types, PCycle: 0.6, Chords: 2, QualSlice: 0.2, PUnnamed: 0.3})
	g := world.G{Rng: c.Rng, Sc: sc}
	name := ""
	if c.Rng.Intn(2) == 0 {
		name = g.FreshName(len(sc.Nodes))
	}
	h := g.AddNode(0, name) // T00: implements IA, has P00/SP00
	req := ""
	if c.Rng.Intn(2) == 0 {
		req = ",required=false"
	}
	switch c.Rng.Intn(6) {
	case 0:
		g.SetTag(h, "P00", "wire", req)
	case 1:
		g.SetTag(h, "IA0", "wire", req)
	case 2:
		g.SetTag(h, "IA1", "wire", sc.Nodes[h].DisplayName()+req)
	case 3:
		g.SetTag(h, "SP00", "wire", req)
	case 4:
		g.SetTag(h, "SA0", "wire", req)
	case 5:
		g.SetTag(h, "P00", "wire", sc.Nodes[h].DisplayName()+req)
	}
	// the holder may also sit on a cycle with the others
	if len(sc.Nodes) > 1 && c.Rng.Intn(2) == 0 {
		j := c.Rng.Intn(len(sc.Nodes) - 1)
		g.EdgeByName(h, j, "")
		g.EdgeByName(j, h, "", "any")
	}
	g.ShuffleOrders()
	return sc
}

type problem struct {
	Kind string
	Msg  string
	C    *world.Complaint
}

func msgs(ps []problem) []string {
	var out []string
	for i, p := range ps {
		if i >= 8 {
			break
		}
		out = append(out, p.Kind+": "+p.Msg)
	}
	return out
}

// evalAgainstModel compares a finished start with the reference model: termination, outcome,
// wiring. strict: the start outcome itself is checked (must fail iff a certainly-created
// component has an unsatisfiable required point).
func evalAgainstModel(r *world.Run, strict bool, holders ...any) ([]problem, world.Expect) {
	var ps []problem
	pop := world.Describe(r.Population())
	points := r.NodePoints(pop)
	skip := map[int]bool{}
	for _, h := range holders {
		points = append(points, r.LitPointRes(pop, h)...)
		if i, ok := r.PopIndex()[h]; ok {
			skip[i] = true
		}
	}
	exp := r.ExpectFor(pop, points, world.ExtraEdges(pop, skip))
	switch r.Outcome() {
	case "stalled":
		ps = append(ps, problem{Kind: "stalled", Msg: "start-up hangs: " + r.OutcomeDetail()})
		return ps, exp
	case "diverged":
		ps = append(ps, problem{Kind: "diverged", Msg: "start-up did not terminate within the step budget: " + r.Diverge.Error()})
		return ps, exp
	case "panic":
		ps = append(ps, problem{Kind: "panic", Msg: fmt.Sprintf("panic escaped App.Run: %v", r.Panic)})
		return ps, exp
	case "error":
		if strict && !exp.MayFail {
			ps = append(ps, problem{Kind: "unexpected-error", Msg: "start failed although every required point has a candidate: " + core.Short(r.Err.Error(), 400)})
		}
		return ps, exp
	}
	if strict && exp.MustFail {
		ps = append(ps, problem{Kind: "missing-error", Msg: "start succeeded although a certainly-created component has a required point without any candidate"})
	}
	for _, cmp := range r.CheckWiring(pop, points) {
		cc := cmp
		ps = append(ps, problem{Kind: cmp.Kind, Msg: cmp.Msg, C: &cc})
	}
	if msg, ok := r.UntaggedSlotsClean(); !ok {
		ps = append(ps, problem{Kind: "frame", Msg: msg})
	}
	return ps, exp
}

// classifyWiring maps the witness to a known-finding class by looking at the *input* only.
func classifyWiring(r *world.Run, ps []problem) string {
	return ""
}

// addSelfCandidatePoints: by-type single-valued interface points on holders that implement the
// interface themselves while at least one other implementer exists (the point is satisfiable by the
// others; the holder must never be the one picked - cycles through such points included).
func addSelfCandidatePoints(c *core.Ctx, sc *world.Scenario) {
	g := &world.G{Rng: c.Rng, Sc: sc}
	for i := range sc.Nodes {
		if c.Rng.Intn(4) != 0 {
			continue
		}
		ti := world.Palette[sc.Nodes[i].Type]
		for _, iface := range []string{"IA", "IB", "IC"} {
			if !ti.Implements(iface) {
				continue
			}
			others := 0
			for j := range sc.Nodes {
				if j != i && world.Palette[sc.Nodes[j].Type].Implements(iface) {
					others++
				}
			}
			if others == 0 {
				continue
			}
			slots := g.FreeSlots(i, func(si world.SlotInfo) bool { return si.Kind == "iface" && si.Iface == iface })
			if len(slots) > 0 {
				g.SetTag(i, slots[0], "wire", "")
			}
			break
		}
	}
}
