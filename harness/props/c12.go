package props

import (
	"fmt"
	"github.com/go-kid/ioc/app"
	"github.com/go-kid/ioc/configure/binder"
	"math"
	"strings"
	"verifharness/mon"

	"github.com/go-kid/ioc/configure"
	"github.com/go-kid/ioc/util/framework_helper"
	"verifharness/core"
	"verifharness/world"
)

// C12 Ordering contract for post-processors, runners and loaders.
type c12 struct{}

func init() { core.Register(c12{}) }

func (c12) ID() string    { return "C12" }
func (c12) Level() string { return "exploration" }
func (c12) Rule() string {
	return "(a) direct calls of framework_helper.SortOrderedComponents on seeded multisets of 0..40 participants over the classes {PriorityOrdered, Ordered, unordered, Priority-without-Order (= unordered)} with Order values from {ties, negatives, 0, +-1, MinInt, MaxInt, random}, in random input orders; (b) real starts with 0..8 logging user post-processors, 0..8 runners and 0..6 loaders of all classes: the invocation logs (post-processor before/after callbacks per component, Run calls, LoadConfig calls) are checked with the same predicate. Contract: output is a permutation of the input (every participant exactly once); class rank never decreases (priority-ordered < ordered < unordered); Order never decreases inside the first two classes. Stability is not required. non-trivial = >= 3 participants from >= 2 classes with at least one Order tie or extreme; distinct = multiset signature; half of the starts mix lazy (used as registered) and created logging post-processors; in a third one processor supplies a component before instantiation (callbacks: prefix of before-instantiation ending with the supplier, complete after-initialization sequence); the sorter applied twice to one caller-owned list; post-processors whose order is settled in PostProcessComponentFactory; a created post-processor component decorated by an earlier processor with a non-post-processor object; runners that wire the application itself; starts whose loaders are added one by one, the last field-wise equal to an earlier one; callback-kind completeness per created component; an importing loader (AddLoaders from inside LoadConfig); starts with lazy post-processors only (observer left out); unhashable participants in the sorter; a lazy post-processor that is an ordered runner; a loader that fails on its first call only; one post-processor instance handed over twice; reinitLoaders family (loaders added between two initialisations)"
}
func (c12) Assumptions() []string {
	return []string{"built-in post-processors interleave with the logging ones; only the relative order of the logging participants is judged"}
}
func (c12) directCount(tier string) int   { return tierN(tier, 20000, 5000000) }
func (c12) startCount(tier string) int    { return tierN(tier, 1000, 300000) }
func (p c12) NumCases(tier string) int    { return p.directCount(tier) + p.startCount(tier) }
func (c12) MinNontrivial(tier string) int { return tierN(tier, 500, 5000) }

type part struct {
	id    int
	class int // 0 priority-ordered, 1 ordered, 2 unordered
	ord   int
}

type sortU struct{ id int }
type sortO struct{ id, ord int }
type sortP struct{ id, ord int }
type sortPO struct{ id int }

// value-typed participants that are not hashable (a struct value carrying a slice, like a loader embedding
// loader.RawLoader): legal wherever the container sequences `any` participants
type sortVO struct {
	id, ord int
	doc     []byte
}
type sortVP struct {
	id, ord int
	doc     []byte
}

func (s sortVO) Order() int { return s.ord }
func (s sortVP) Order() int { return s.ord }
func (s sortVP) Priority()  {}

func sortID(o any) int {
	switch x := o.(type) {
	case *sortU:
		return x.id
	case *sortO:
		return x.id
	case *sortP:
		return x.id
	case *sortPO:
		return x.id
	case sortVO:
		return x.id
	case sortVP:
		return x.id
	}
	return -1
}

func (s *sortO) Order() int { return s.ord }
func (s *sortP) Order() int { return s.ord }
func (s *sortP) Priority()  {}
func (s *sortPO) Priority() {}

var ordPool = []int{0, 0, 1, -1, 2, -2, 5, 5, 5, math.MinInt, math.MaxInt, math.MaxInt - 1, math.MinInt + 1, 100, -100}

func contractViolation(seq []part) string {
	for i := 1; i < len(seq); i++ {
		a, b := seq[i-1], seq[i]
		if a.class > b.class {
			return fmt.Sprintf("participant #%d of class %d comes before participant #%d of class %d", a.id, a.class, b.id, b.class)
		}
		if a.class == b.class && a.class < 2 && a.ord > b.ord {
			return fmt.Sprintf("Order decreases inside class %d: #%d (Order %d) before #%d (Order %d)", a.class, a.id, a.ord, b.id, b.ord)
		}
	}
	return ""
}

// reinitLoaders: a Configure is initialised, further loaders are added (some sorting in front of the loaded ones), and
// it is initialised again: in the second pass every loader - old and new - is asked exactly once, in contract order.
func (p c12) reinitLoaders(c *core.Ctx) {
	cfg := configure.NewConfigure()
	cfg.SetBinder(binder.NewViperBinder("yaml"))
	log := mon.NewLifecycle()
	class := map[string]int{} // 0 priority-ordered, 1 ordered, 2 unordered
	ord := map[string]int{}
	mk := func(i int) configure.Loader {
		cl := c.Rng.Intn(4)
		nm := fmt.Sprintf("ld%d", i)
		o := c.Rng.Intn(7) - 3
		class[nm], ord[nm] = map[int]int{0: 2, 1: 1, 2: 0, 3: 2}[cl], o
		return world.NewLoader(cl, nm, o, []byte(fmt.Sprintf("k%d: %d\n", i, i)), log).(configure.Loader)
	}
	n1, n2 := 1+c.Rng.Intn(3), 1+c.Rng.Intn(3)
	var added []string
	for i := 0; i < n1; i++ {
		cfg.AddLoaders(mk(i))
		added = append(added, fmt.Sprintf("ld%d", i))
	}
	var err error
	guard := func(f func() error) {
		defer func() {
			if r := recover(); r != nil {
				err = fmt.Errorf("panic: %v", r)
			}
		}()
		err = f()
	}
	guard(cfg.Initialize)
	c.AddEvaluations(1)
	if err != nil {
		c.Fail("", fmt.Sprintf("Initialize failed: %v", err), nil)
		return
	}
	mark := log.Len()
	for i := n1; i < n1+n2; i++ {
		cfg.AddLoaders(mk(i))
		added = append(added, fmt.Sprintf("ld%d", i))
	}
	guard(cfg.Initialize)
	if err != nil {
		c.Fail("", fmt.Sprintf("second Initialize failed: %v", err), nil)
		return
	}
	var seq []string
	seen := map[string]int{}
	for _, e := range log.Events()[mark:] {
		if e.Kind == "load" {
			seq = append(seq, fmt.Sprintf("%s(class %d, order %d)", e.Who, class[e.Who], ord[e.Who]))
			seen[e.Who]++
		}
	}
	detail := map[string]any{"second_pass": seq, "loaders_before_the_first_initialize": n1, "added_afterwards": n2}
	for _, nm := range added {
		if seen[nm] != 1 {
			c.Fail("", fmt.Sprintf("second Initialize (after %d loader(s) were added to %d loaded ones): loader %s was asked %d time(s): %v", n2, n1, nm, seen[nm], seq), detail)
			return
		}
	}
	prev := ""
	for _, e := range log.Events()[mark:] {
		if e.Kind != "load" {
			continue
		}
		if prev != "" && (class[prev] > class[e.Who] || (class[prev] == class[e.Who] && class[prev] < 2 && ord[prev] > ord[e.Who])) {
			c.Fail("", fmt.Sprintf("second Initialize: loader %s was asked before %s: %v", prev, e.Who, seq), detail)
			return
		}
		prev = e.Who
	}
	c.Count("reinitialised_configures", 1)
	c.Nontrivial(fmt.Sprint("reinitloaders|", seq))
}

func (p c12) Run(c *core.Ctx) {
	if c.Index >= p.directCount(c.Tier) && c.Index%10 == 3 {
		p.reinitLoaders(c)
		return
	}
	if c.Index < p.directCount(c.Tier) {
		p.direct(c)
		return
	}
	p.start(c)
}

func (p c12) direct(c *core.Ctx) bool {
	n := c.Rng.Intn(41)
	if c.Rng.Intn(3) == 0 {
		n = c.Rng.Intn(6)
	}
	var in []any
	parts := map[int]part{}
	classes := map[int]bool{}
	tie := false
	seenOrd := map[[2]int]bool{}
	sig := ""
	for i := 0; i < n; i++ {
		ord := ordPool[c.Rng.Intn(len(ordPool))]
		if c.Rng.Intn(4) == 0 {
			ord = c.Rng.Intn(2001) - 1000
		}
		var o any
		var pt part
		switch c.Rng.Intn(5) {
		case 4:
			if c.Rng.Intn(2) == 0 {
				o, pt = sortVP{i, ord, []byte("doc")}, part{i, 0, ord}
			} else {
				o, pt = sortVO{i, ord, []byte("doc")}, part{i, 1, ord}
			}
		case 0:
			o, pt = &sortP{i, ord}, part{i, 0, ord}
		case 1:
			o, pt = &sortO{i, ord}, part{i, 1, ord}
		case 2:
			o, pt = &sortU{i}, part{i, 2, 0}
		default:
			o, pt = &sortPO{i}, part{i, 2, 0}
		}
		if pt.class < 2 {
			if seenOrd[[2]int{pt.class, ord}] || ord == math.MinInt || ord == math.MaxInt {
				tie = true
			}
			seenOrd[[2]int{pt.class, ord}] = true
		}
		classes[pt.class] = true
		in = append(in, o)
		parts[sortID(o)] = pt
		sig += fmt.Sprintf("%d:%d,", pt.class, pt.ord)
	}
	var out []any
	func() {
		defer func() {
			if r := recover(); r != nil {
				c.Fail("", fmt.Sprintf("SortOrderedComponents panicked: %v", r), map[string]any{"input": sig})
				out = nil
			}
		}()
		out = framework_helper.SortOrderedComponents(in)
	}()
	if c.Failed() {
		return false
	}
	c.Count("direct_sorts", 1)
	c.Count("direct_participants", n)
	if len(out) != len(in) {
		c.Fail("", fmt.Sprintf("sorter returned %d participants for %d", len(out), len(in)), map[string]any{"input": sig})
		return false
	}
	seen := map[int]bool{}
	var seq []part
	for _, ob := range out {
		o := sortID(ob)
		pt, ok := parts[o]
		if !ok || seen[o] {
			c.Fail("", "sorter output is not a permutation of its input (foreign or repeated participant)", map[string]any{"input": sig})
			return false
		}
		seen[o] = true
		seq = append(seq, pt)
	}
	if v := contractViolation(seq); v != "" {
		c.Fail("", "sorter output violates the contract: "+v, map[string]any{"input": sig, "output": fmt.Sprint(seq)})
		return false
	}
	// the caller's list is sequenced again later (one loader / participant list handed to two
	// configurations or applications): again every participant exactly once, in contract order
	var out2 []any
	func() {
		defer func() {
			if r := recover(); r != nil {
				c.Fail("", fmt.Sprintf("SortOrderedComponents panicked on the second sequencing of one list: %v", r), map[string]any{"input": sig})
			}
		}()
		out2 = framework_helper.SortOrderedComponents(in)
	}()
	if c.Failed() {
		return false
	}
	seen2 := map[int]bool{}
	var seq2 []part
	for _, ob := range out2 {
		o := sortID(ob)
		pt, ok := parts[o]
		if !ok || seen2[o] {
			c.Fail("", "second sequencing of the same participant list: a participant is repeated", map[string]any{"input": sig, "first": fmt.Sprint(seq)})
			return false
		}
		seen2[o] = true
		seq2 = append(seq2, pt)
	}
	if len(out2) != n {
		c.Fail("", fmt.Sprintf("second sequencing of the same participant list returned %d of %d participants", len(out2), n), map[string]any{"input": sig, "first": fmt.Sprint(seq), "second": fmt.Sprint(seq2)})
		return false
	}
	if v := contractViolation(seq2); v != "" {
		c.Fail("", "second sequencing of the same participant list violates the contract: "+v, map[string]any{"input": sig, "second": fmt.Sprint(seq2)})
		return false
	}
	if n >= 3 && len(classes) >= 2 && tie {
		c.Nontrivial(sig)
		if c.WantSample() {
			c.Sample(map[string]any{"kind": "direct", "input_class:order": sig, "output": fmt.Sprint(seq)})
		}
	}
	return true
}

func (p c12) start(c *core.Ctx) {
	// components (with cycles, so that early references are requested) + runners
	sc := RandomGraph(c.Rng, GraphOpts{MinN: 1, MaxN: 6, Types: plainAny, PCycle: 0.7, Chords: 1, PUnnamed: 0.3})
	g := &world.G{Rng: c.Rng, Sc: sc}
	// one or two further, separate 2-cycles (created during the refresh when nothing pulls them in earlier)
	for x := 0; x < 1+c.Rng.Intn(2); x++ {
		u := g.AddRandomNode(plainAB, 0)
		v := g.AddRandomNode(plainAB, 0)
		g.EdgeByName(u, v, "")
		g.EdgeByName(v, u, "")
	}
	nr := c.Rng.Intn(9)
	for i := 0; i < nr; i++ {
		k := g.AddRandomNode(world.TypesRunner, 0.2)
		g.Sc.Nodes[k].Ord = ordPool[c.Rng.Intn(len(ordPool))]
		// a runner that needs the application itself (to read configuration, say): depending on how its name
		// sorts it is created before the application - which then collects its runners while this one is still
		// being created - or after it; it is a participant either way
		if c.Rng.Intn(4) == 0 {
			g.SetTag(k, "Any1", "wire", "github.com/go-kid/ioc/app/App")
			c.Count("runners_depending_on_the_application", 1)
		}
	}
	g.ShuffleOrders()
	npp := c.Rng.Intn(9)
	var extra []any
	ppClass := map[string]part{}
	withDeps := c.Rng.Intn(3) == 0
	withLazy := c.Rng.Intn(2) == 0
	withLate := c.Rng.Intn(3) == 0
	// every fifth start with post-processors: all instantiation-aware processors of the application are lazy
	// ones (used as registered), like the built-in processors - the harness observer is left out
	allLazy := npp > 0 && c.Rng.Intn(5) == 0
	if allLazy {
		withDeps, withLate, withLazy = false, false, true
		c.Count("starts_with_lazy_post_processors_only", 1)
	}
	late := 0
	lazyPP := map[string]bool{}
	var plain []int // indices into extra of the plain logging post-processors
	for k := 0; k < npp; k++ {
		cl := c.Rng.Intn(4)
		ord := ordPool[c.Rng.Intn(len(ordPool))]
		name := fmt.Sprintf("pp%d", k)
		if withDeps && cl < 3 && c.Rng.Intn(2) == 0 {
			// a post-processor with an injection point of its own: what it needs is created while the
			// chain is still being built
			extra = append(extra, world.NewPPDep(cl, name, ord))
		} else if withLate && (cl == 1 || cl == 2) && c.Rng.Intn(2) == 0 {
			// the order is settled while the factory is prepared: the provisional value must not matter
			plain = append(plain, len(extra))
			extra = append(extra, world.NewLatePP(cl, name, ordPool[c.Rng.Intn(len(ordPool))], ord))
			late++
		} else if withLazy && (allLazy || c.Rng.Intn(2) == 0) {
			// used as registered, without being created first: still one participant of the one sequence
			plain = append(plain, len(extra))
			extra = append(extra, world.NewLazyPP(cl, name, ord))
			lazyPP[name] = true
		} else {
			plain = append(plain, len(extra))
			extra = append(extra, world.NewPP(cl, name, ord))
		}
		ppClass[name] = part{k, map[int]int{0: 2, 1: 1, 2: 0, 3: 2}[cl], ord}
	}
	// in a third of the starts one logging post-processor supplies one component from its
	// before-instantiation callback: the processors asked before it see that callback, nobody sees the
	// other creation callbacks, and every participant sees the after-initialization callback
	supplier, supplied := "", ""
	if len(plain) > 0 && c.Rng.Intn(3) == 0 {
		pp := extra[plain[c.Rng.Intn(len(plain))]]
		t := c.Rng.Intn(len(sc.Nodes))
		if !world.Palette[sc.Nodes[t].Type].Runner {
			supplier, supplied = world.PPCoreOf(pp).Nm, sc.Nodes[t].DisplayName()
			world.PPCoreOf(pp).Supply = supplied
		}
	}
	// a post-processor component that another, earlier post-processor decorates with an object that is not a
	// post-processor itself (a decorator for a business interface): it still takes part in the sequence
	if len(plain) > 0 && supplier == "" && c.Rng.Intn(4) == 0 {
		pp := extra[plain[c.Rng.Intn(len(plain))]]
		if nm := world.PPCoreOf(pp).Nm; !lazyPP[nm] {
			extra = append(extra, &world.EarlySubstituter{Substituter: world.NewSubstituter(map[string]world.SubPlan{nm: {After: true}})})
			c.Count("starts_with_a_decorated_post_processor_component", 1)
		}
	}
	// a lazy post-processor that is an ordered runner as well: a participant of the runner sequence too
	var runningPP *world.RunningPP
	if c.Rng.Intn(5) == 0 {
		runningPP = &world.RunningPP{Nm: "running-pp", Ord: ordPool[c.Rng.Intn(len(ordPool))]}
		extra = append(extra, runningPP)
		c.Count("starts_with_a_lazy_post_processor_that_is_a_runner", 1)
	}
	c.Rng.Shuffle(len(extra), func(i, j int) { extra[i], extra[j] = extra[j], extra[i] })
	nl := c.Rng.Intn(7)
	var loaders []configure.Loader
	ldClass := map[string]part{}
	ldCode := map[string]int{}
	for k := 0; k < nl; k++ {
		cl := c.Rng.Intn(4)
		ord := ordPool[c.Rng.Intn(len(ordPool))]
		name := fmt.Sprintf("ld%d", k)
		loaders = append(loaders, world.NewLoader(cl, name, ord, []byte(fmt.Sprintf("k%d: %d\n", k, k)), nil))
		ldCode[name] = cl
		ldClass[name] = part{k, map[int]int{0: 2, 1: 1, 2: 0, 3: 2}[cl], ord}
	}
	// two distinct loader objects that are equal field by field (same class, order, content): two participants
	wantLoads := map[string]int{}
	var twin configure.Loader
	for name := range ldClass {
		wantLoads[name] = 1
	}
	if nl > 0 && c.Rng.Intn(4) == 0 {
		k := c.Rng.Intn(nl)
		name := fmt.Sprintf("ld%d", k)
		twin = world.NewLoader(ldCode[name], name, ldClass[name].ord, []byte(fmt.Sprintf("k%d: %d\n", k, k)), nil)
		wantLoads[name] = 2
		c.Count("starts_with_field_wise_equal_loaders", 1)
	}
	if len(plain) > 0 && c.Rng.Intn(6) == 0 {
		// one and the same post-processor instance is handed over twice (a shared module list passed twice): still one
		// participant
		extra = append(extra, extra[plain[c.Rng.Intn(len(plain))]])
		c.Count("starts_with_a_post_processor_instance_registered_twice", 1)
	}
	opts := world.Options{Extra: extra, Loaders: loaders, NoObserver: allLazy}
	if twin != nil {
		// every loader is added through the adding option, one by one (the twin last)
		opts.Loaders = nil
		for _, l := range loaders {
			opts.AppOptions = append(opts.AppOptions, app.AddConfigLoader(l))
		}
		opts.AppOptions = append(opts.AppOptions, app.AddConfigLoader(twin))
		loaders = append(loaders, twin)
	}
	r := world.Build(sc, opts)
	for _, l := range loaders {
		l.(world.LoggedLoader).Core().Log = r.Log
	}
	// an importing loader: while it is loading it contributes further loaders to the configuration it belongs
	// to (AddLoaders from inside LoadConfig). Whether the contributed ones are sequenced in this pass or in the
	// next one is the container's choice - each pass as observed obeys the contract.
	imported := map[string]bool{}
	if nl > 0 && twin == nil && c.Rng.Intn(5) == 0 {
		boot := loaders[c.Rng.Intn(nl)].(world.LoggedLoader).Core()
		impP := world.NewLoader(2, "imported-priority", math.MinInt, []byte("imp: p\n"), r.Log)
		impO := world.NewLoader(1, "imported-ordered", -77, []byte("imp: o\n"), r.Log)
		ldClass["imported-priority"] = part{100, 0, math.MinInt}
		ldClass["imported-ordered"] = part{101, 1, -77}
		imported["imported-priority"], imported["imported-ordered"] = true, true
		done := false
		boot.Probe = func() {
			if !done {
				done = true
				r.App.AddLoaders(impP.(configure.Loader), impO.(configure.Loader))
			}
		}
		c.Count("starts_with_an_importing_loader", 1)
	}
	// one loader fails when it is asked (the first time only - its source is not reachable yet): the start
	// fails; every loader up to it was asked once, in contract order, nobody after it, nobody twice
	loaderFault := ""
	if nl > 0 && twin == nil && len(imported) == 0 && c.Rng.Intn(8) == 0 {
		lc := loaders[c.Rng.Intn(nl)].(world.LoggedLoader).Core()
		lc.ErrOnce, loaderFault = true, lc.Nm
		c.Count("starts_with_a_loader_failing_on_its_first_call", 1)
	}
	r.Go()
	c.Count("starts", 1)
	if loaderFault != "" {
		if r.Outcome() != "error" {
			c.Fail("", fmt.Sprintf("loader %s failed when it was asked, App.Run: %s", loaderFault, r.Outcome()), failDetail(sc, r, nil))
			return
		}
		var lseq []part
		calls := map[string]int{}
		for _, e := range r.Log.Events() {
			if e.Kind == "load" {
				lseq = append(lseq, ldClass[e.Who])
				calls[e.Who]++
			}
		}
		for name, k := range calls {
			if k > 1 {
				c.Fail("", fmt.Sprintf("loader %s was asked %d times in one start (loader %s failed on its first call)", name, k, loaderFault), failDetail(sc, r, map[string]any{"sequence": fmt.Sprint(lseq)}))
				return
			}
		}
		if v := contractViolation(lseq); v != "" {
			c.Fail("", "loader invocation order up to the failing loader violates the contract: "+v, failDetail(sc, r, map[string]any{"sequence": fmt.Sprint(lseq)}))
			return
		}
		c.Nontrivial(fmt.Sprintf("start-loaderfault:%v|%s", lseq, loaderFault))
		return
	}
	if r.Outcome() != "ok" {
		c.Fail("", "start did not succeed: "+core.Short(r.OutcomeDetail(), 300), failDetail(sc, r, nil))
		return
	}
	ev := r.Log.Events()
	// loaders
	var lseq []part
	seenL := map[string]int{}
	for _, e := range ev {
		if e.Kind == "load" {
			lseq = append(lseq, ldClass[e.Who])
			seenL[e.Who]++
		}
	}
	for name := range ldClass {
		if imported[name] {
			if seenL[name] > 1 {
				c.Fail("", fmt.Sprintf("contributed loader %s was invoked %d times in one pass", name, seenL[name]), failDetail(sc, r, nil))
				return
			}
			continue
		}
		if seenL[name] != wantLoads[name] {
			c.Fail("", fmt.Sprintf("loader %s was invoked %d times", name, seenL[name]), failDetail(sc, r, nil))
			return
		}
	}
	if v := contractViolation(lseq); v != "" {
		c.Fail("", "loader invocation order violates the contract: "+v, failDetail(sc, r, map[string]any{"sequence": fmt.Sprint(lseq)}))
		return
	}
	// runners
	var rseq []part
	seenR := map[string]int{}
	for _, e := range ev {
		if e.Kind == "run" {
			if i, ok := nodeNamed(sc, e.Who); ok {
				rseq = append(rseq, runnerPart(sc, i))
			} else if runningPP != nil && e.Who == runningPP.Nm {
				rseq = append(rseq, part{1000, 1, runningPP.Ord})
			}
			seenR[e.Who]++
		}
	}
	if runningPP != nil && seenR[runningPP.Nm] != 1 {
		c.Fail("", fmt.Sprintf("the lazy post-processor %s, which is an application runner as well, ran %d times", runningPP.Nm, seenR[runningPP.Nm]), failDetail(sc, r, nil))
		return
	}
	for i := range sc.Nodes {
		if world.Palette[sc.Nodes[i].Type].Runner && seenR[sc.Nodes[i].DisplayName()] != 1 {
			c.Fail("", fmt.Sprintf("runner %s ran %d times", sc.Nodes[i].DisplayName(), seenR[sc.Nodes[i].DisplayName()]), failDetail(sc, r, nil))
			return
		}
	}
	if v := contractViolation(rseq); v != "" {
		c.Fail("", "runner invocation order violates the contract: "+v, failDetail(sc, r, map[string]any{"sequence": fmt.Sprint(rseq)}))
		return
	}
	// post-processors: the chain is complete once the last logging post-processor has itself been
	// created; every component whose processing starts after that must see every participant exactly
	// once per callback kind, in contract order (early-reference callbacks: all or none)
	prepEnd := -1
	for _, e := range ev {
		if e.Kind == "after" && e.By == "" {
			if _, isPP := ppClass[e.Who]; isPP && !lazyPP[e.Who] && e.Seq > prepEnd {
				prepEnd = e.Seq
			}
		}
	}
	startSeq := map[string]int{}
	for _, e := range ev {
		if e.Kind == "pp-before-inst" || e.Kind == "pp-after-inst" || (e.Kind == "before" && e.By == "") {
			if _, seen := startSeq[e.Who]; !seen {
				startSeq[e.Who] = e.Seq
			}
		}
	}
	perComp := map[string][]part{}
	cnt := map[string]int{}
	for _, e := range ev {
		switch e.Kind {
		case "pp-before", "pp-after", "pp-properties", "pp-after-inst", "pp-before-inst", "pp-early":
		default:
			continue
		}
		if _, isNode := nodeNamed(sc, e.Who); !isNode {
			continue
		}
		if st, ok := startSeq[e.Who]; !ok || st <= prepEnd {
			continue // created while the chain was still being built
		}
		key := e.Kind + "|" + e.Who
		perComp[key] = append(perComp[key], ppClass[e.By])
		cnt[key+"|"+e.By]++
	}
	// every component whose creation started after the chain was complete gets every creation callback from
	// every participant - whether or not it has any tagged field
	if npp > 0 {
		for name, st := range startSeq {
			if _, isNode := nodeNamed(sc, name); !isNode || st <= prepEnd || name == supplied {
				continue
			}
			for _, kind := range []string{"pp-before-inst", "pp-after-inst", "pp-properties", "pp-before", "pp-after"} {
				if _, ok := perComp[kind+"|"+name]; !ok {
					c.Fail("", fmt.Sprintf("component %q was created after the chain was complete but received no %s callback at all", name, kind), failDetail(sc, r, map[string]any{"events": renderEvents(ev, 200)}))
					return
				}
			}
		}
	}
	for key, seq := range perComp {
		if supplied != "" && strings.HasSuffix(key, "|"+supplied) {
			kind := strings.SplitN(key, "|", 2)[0]
			switch kind {
			case "pp-after":
				// falls through to the complete-sequence check
			case "pp-before-inst":
				if v := contractViolation(seq); v != "" {
					c.Fail("", "post-processor callback order ("+key+") violates the contract: "+v, failDetail(sc, r, map[string]any{"sequence": fmt.Sprint(seq)}))
					return
				}
				sup := ppClass[supplier]
				if seq[len(seq)-1] != sup {
					c.Fail("", fmt.Sprintf("%s: the supplying post-processor %s is not the last one asked: %v", key, supplier, seq), failDetail(sc, r, nil))
					return
				}
				for name, pt := range ppClass {
					if pt.class < sup.class || (pt.class == sup.class && pt.class < 2 && pt.ord < sup.ord) {
						if cnt[key+"|"+name] != 1 {
							c.Fail("", fmt.Sprintf("%s: post-processor %s precedes the supplier %s but was asked %d times", key, name, supplier, cnt[key+"|"+name]), failDetail(sc, r, nil))
							return
						}
					}
				}
				c.Count("supplied_component_sequences_checked", 1)
				continue
			default:
				c.Fail("", fmt.Sprintf("%s: creation callback for a component that %s supplied before instantiation", key, supplier), failDetail(sc, r, nil))
				return
			}
		}
		if len(seq) != npp {
			c.Fail("", fmt.Sprintf("%s: %d callbacks for %d logging post-processors (a participant is missing or repeated)", key, len(seq), npp), failDetail(sc, r, map[string]any{"events": renderEvents(ev, 200)}))
			return
		}
		if v := contractViolation(seq); v != "" {
			c.Fail("", "post-processor callback order ("+key+") violates the contract: "+v, failDetail(sc, r, map[string]any{"sequence": fmt.Sprint(seq)}))
			return
		}
	}
	for k, v := range cnt {
		if v != 1 {
			c.Fail("", fmt.Sprintf("callback %s invoked %d times", k, v), failDetail(sc, r, nil))
			return
		}
	}
	c.Count("callback_sequences_checked", len(perComp)+2)
	if withDeps {
		c.Count("starts_with_dependent_post_processors", 1)
	}
	if len(lazyPP) > 0 && len(lazyPP) < npp {
		c.Count("starts_mixing_lazy_and_created_post_processors", 1)
	}
	c.Count("post_processors_with_late_settled_order", late)
	if supplied != "" {
		if _, ok := perComp["pp-after|"+supplied]; ok {
			c.Count("starts_with_a_supplied_component_observed", 1)
		}
	}
	if npp+nr+nl >= 6 {
		c.Nontrivial(fmt.Sprintf("start:%v|%v|%v|%s", lseq, rseq, ppClass, sc.GraphSig()))
		if c.WantSample() {
			c.Sample(map[string]any{"kind": "start", "loaders_class_order": fmt.Sprint(lseq), "runners": fmt.Sprint(rseq), "post_processors": npp, "scenario": describeScenario(sc)})
		}
	}
}

func nodeNamed(sc *world.Scenario, name string) (int, bool) {
	for i := range sc.Nodes {
		if sc.Nodes[i].DisplayName() == name {
			return i, true
		}
	}
	return -1, false
}
