package props

import (
	"fmt"
	"reflect"
	"strings"

	"github.com/expr-lang/expr"
	"github.com/go-playground/validator/v10"
	"gopkg.in/yaml.v3"
	"verifharness/core"
	"verifharness/world"
)

// C18 Expressions run after placeholder substitution, validation after binding.
type c18 struct{}

func init() { core.Register(c18{}) }

func (c18) ID() string    { return "C18" }
func (c18) Level() string { return "exploration" }
func (c18) Rule() string {
	return "(a) seeded #{...} expressions (integer arithmetic with + - * % and parentheses, comparisons, boolean connectives, ternaries, string concatenation, membership) whose operands - and sometimes operators - are ${...} placeholders (configured, defaulted, nested), bound to int / bool / string fields of reflect.StructOf holders; oracle: the model resolver substitutes the placeholders, the expression library itself evaluates the substituted text directly, the field must hold that result (if direct evaluation fails, Run must fail). (b) value x constraint pairs: literal, placeholder-fed and expression-produced values of int / string / []int / bool fields with validate arguments (min max gt lt gte lte eq ne len required oneof alpha numeric for scalars and slices; struct-level validate tags on run-time built struct types); oracle: a directly constructed validator (same options) is asked about the expected bound value with the same constraints - the start must fail iff the validator objects (both directions). (c) stage interaction: an expression fed by placeholders produces the value that is then validated. non-trivial = expression with >= 2 placeholders or an operator placeholder, or a validation case where the verdict is 'violates'; distinct = (tag, configuration); repeated family: one tag text evaluated on two components or by up to three creation attempts of a lazy component with Set changes in between - each evaluation substitutes, evaluates and validates afresh; struct targets with a required nested struct held by value; floating-point expressions compared exactly; order-sensitive constraint lists; validation behind optional points; preset family (slice / map / struct fields filled before the start receive exactly the bound value, which is what gets validated); constraints behind pointer members; expressions supplied by the configuration; string results in other numeric notations; bool fields fed by the text true / false; multiValidated family; built-in functions next to keys of the same name; negativeDefaults family; deepPointer family (validated struct properties behind several pointers); emptySubstitution family (expressions over absent keys on required properties)"
}
func (c18) Assumptions() []string {
	return []string{
		"the expression library (expr) and the validator library are trusted: the check decides the container's staging and plumbing, not the libraries",
		"expression results are generated to have the field's own type (int, bool, string); ill-formed constraint names are out of scope (the validator panics on them by design)",
	}
}
func (c18) NumCases(tier string) int      { return tierN(tier, 3000, 800000) }
func (c18) MinNontrivial(tier string) int { return tierN(tier, 600, 6000) }

var c18Validator = validator.New(validator.WithRequiredStructEnabled())

// multiValidated: one component with several validated members (a struct and scalars, in seeded order):
// start-up fails exactly when at least one of them violates its constraints - whichever and wherever.
func (p c18) multiValidated(c *core.Ctx) {
	inner := world.BuildStruct([]world.FieldSpec{
		{Name: "S", Type: reflect.TypeOf(""), Tag: `yaml:"s" validate:"eq=abc"`},
		{Name: "P", Type: reflect.TypeOf(0), Tag: `yaml:"p" validate:"min=10,max=60"`},
	})
	sval := []string{"abc", "abc", "abx"}[c.Rng.Intn(3)]
	port := []int{20, 30, 5, 70}[c.Rng.Intn(4)]
	structBad := sval != "abc" || port < 10 || port > 60
	n1, n2 := c.Rng.Intn(12), c.Rng.Intn(12)
	f := []world.FieldSpec{
		{Name: "St", Type: []reflect.Type{inner, reflect.PointerTo(inner)}[c.Rng.Intn(2)], Tag: fmt.Sprintf("value:%q", fmt.Sprintf("map[s:%s p:%d],validate", sval, port))},
		{Name: "N1", Type: reflect.TypeOf(0), Tag: fmt.Sprintf("value:%q", fmt.Sprintf("#{%d+1},validate=min=5", n1))},
		{Name: "N2", Type: reflect.TypeOf(0), Tag: fmt.Sprintf("value:%q", fmt.Sprintf("%d,validate=max=8", n2))},
	}
	c.Rng.Shuffle(len(f), func(i, j int) { f[i], f[j] = f[j], f[i] })
	wantFail := structBad || n1+1 < 5 || n2 > 8
	_, r := startHolder(c, f, "")
	c.Count("starts", 1)
	c.Count("components_with_several_validated_members", 1)
	detail := map[string]any{"fields": fmt.Sprint(f), "struct_violates": structBad, "n1": n1 + 1, "n2": n2, "outcome": core.Short(r.OutcomeDetail(), 300)}
	if abnormal(r.Outcome()) {
		c.Fail("", "component with several validated members: "+r.OutcomeDetail(), detail)
		return
	}
	if wantFail != (r.Outcome() == "error") {
		c.Fail("", fmt.Sprintf("component with several validated members (declared in the order %s %s %s): struct member violates=%v, N1=%d (min=5), N2=%d (max=8): a violation exists=%v, start outcome %s", f[0].Name, f[1].Name, f[2].Name, structBad, n1+1, n2, wantFail, r.Outcome()), detail)
		return
	}
	if wantFail {
		c.Nontrivial(fmt.Sprintf("multivalidated|%v|%d|%d|%s%s%s", structBad, n1, n2, f[0].Name, f[1].Name, f[2].Name))
	}
}

// preset: a field that the component's constructor filled before the start receives the bound value - the
// expression's result, the configured value - not a mixture of it and its previous content, and it is the
// bound value that is validated.
func (p c18) preset(c *core.Ctx) {
	a, b := 9000+c.Rng.Intn(100), 9000+c.Rng.Intn(100)
	doc := fmt.Sprintf("p:\n  a: %d\n  b: %d\n", a, b)
	lim := world.BuildStruct([]world.FieldSpec{
		{Name: "Soft", Type: reflect.TypeOf(0), Tag: `yaml:"soft"`},
		{Name: "Hard", Type: reflect.TypeOf(0), Tag: `yaml:"hard" validate:"required"`},
	})
	var ft reflect.Type
	var tag string
	var presetV, want any
	wantFail := false
	switch c.Rng.Intn(5) {
	case 0: // list result of an expression over placeholders into a longer preset slice
		ft, presetV = reflect.TypeOf([]int{}), []int{80, 443, 8080}
		tag, want = "#{[${p.a}+1,${p.b}]}", []int{a + 1, b}
	case 1: // ... validated: the bound value satisfies the constraint, the preset tail would not
		ft, presetV = reflect.TypeOf([]int{}), []int{80, 443, 8080}
		tag, want = "[${p.a},${p.b}],validate=len=2 dive gt=8999", []int{a, b}
	case 2: // mapping into a preset map
		ft, presetV = reflect.TypeOf(map[string]string{}), map[string]string{"old": "x", "keep": "y"}
		tag, want = "map[fresh:${p.a}]", map[string]string{"fresh": fmt.Sprint(a)}
	case 3: // struct: the bound value lacks a required member the preset had
		ft = lim
		pv := reflect.New(lim).Elem()
		pv.Field(0).SetInt(5)
		pv.Field(1).SetInt(100)
		presetV = pv.Interface()
		tag, wantFail = "map[soft:${p.a}],validate", true
	default: // struct: fully bound
		ft = lim
		pv := reflect.New(lim).Elem()
		pv.Field(0).SetInt(5)
		pv.Field(1).SetInt(100)
		presetV = pv.Interface()
		wv := reflect.New(lim).Elem()
		wv.Field(0).SetInt(int64(a))
		wv.Field(1).SetInt(int64(b))
		tag, want = "map[soft:${p.a} hard:${p.b}],validate", wv.Interface()
	}
	full := fmt.Sprintf("value:%q", tag)
	h := world.NewHolder(world.BuildStruct([]world.FieldSpec{{Name: "F", Type: ft, Tag: full}}))
	reflect.ValueOf(h).Elem().Field(0).Set(reflect.ValueOf(presetV))
	r := world.Start(&world.Scenario{Config: doc}, world.Options{Extra: []any{h}, NoTracer: true, BinderBudget: 20000})
	c.Count("starts", 1)
	c.Count("starts_with_preset_fields", 1)
	got := reflect.ValueOf(h).Elem().Field(0).Interface()
	detail := map[string]any{"tag": full, "config": doc, "preset": fmt.Sprintf("%+v", presetV), "outcome": core.Short(r.OutcomeDetail(), 300)}
	if abnormal(r.Outcome()) {
		c.Fail("", fmt.Sprintf("tag %s on a preset field: %s", full, r.OutcomeDetail()), detail)
		return
	}
	if wantFail {
		if r.Outcome() != "error" {
			c.Fail("", fmt.Sprintf("tag %s on a field preset to %+v: the bound value lacks a required member, but the start outcome is %s (field: %+v)", full, presetV, r.Outcome(), got), detail)
			return
		}
	} else if r.Outcome() != "ok" || !reflect.DeepEqual(got, want) {
		c.Fail("", fmt.Sprintf("tag %s on a field preset to %+v: outcome %s, the field holds %+v, the bound value is %+v", full, presetV, r.Outcome(), got, want), detail)
		return
	}
	c.Nontrivial("preset|" + full + "|" + doc)
}

// negativeDefaults: a default that starts with a minus sign (a negative number) is substituted as written - inside
// an expression and in front of a validation - when the key is not configured; a configured value wins.
func (p c18) negativeDefaults(c *core.Ctx) {
	d1, d2 := 1+c.Rng.Intn(20), 1+c.Rng.Intn(20)
	add := c.Rng.Intn(30)
	configured := c.Rng.Intn(3) == 0
	cv := c.Rng.Intn(40) - 20
	doc := "c18:\n  other: 1\n"
	v1 := -d1
	if configured {
		doc = fmt.Sprintf("c18:\n  shift: %d\n", cv)
		v1 = cv
	}
	type fld struct {
		tag      string
		want     int
		wantFail bool
	}
	cands := []fld{
		{fmt.Sprintf("#{${c18.shift:-%d}+%d}", d1, add), v1 + add, false},
		{fmt.Sprintf("#{${c18.shift:-%d}*${c18.absent:-%d}}", d1, d2), v1 * -d2, false},
		{fmt.Sprintf("${c18.shift:-%d}", d1), v1, false},
		{fmt.Sprintf("${c18.absent:-%d},validate=lt=0", d2), -d2, false},
		{fmt.Sprintf("${c18.absent:-%d},validate=gt=0", d2), -d2, true},
		{fmt.Sprintf("#{${c18.absent:-%d}+%d},validate=lte=%d", d2, add, add-d2), add - d2, false},
	}
	f := cands[c.Rng.Intn(len(cands))]
	full := fmt.Sprintf("value:%q", f.tag)
	h := world.NewHolder(world.BuildStruct([]world.FieldSpec{{Name: "F", Type: reflect.TypeOf(0), Tag: full}}))
	r := world.Start(&world.Scenario{Config: doc}, world.Options{Extra: []any{h}, NoTracer: true, BinderBudget: 20000})
	c.Count("starts", 1)
	c.Count("negative_defaults", 1)
	got := reflect.ValueOf(h).Elem().Field(0).Interface()
	detail := map[string]any{"tag": full, "config": doc, "outcome": core.Short(r.OutcomeDetail(), 300)}
	if abnormal(r.Outcome()) {
		c.Fail("", fmt.Sprintf("tag %s: %s", full, r.OutcomeDetail()), detail)
		return
	}
	if f.wantFail {
		if r.Outcome() != "error" {
			c.Fail("", fmt.Sprintf("tag %s: the bound value %d violates the constraint, but the start outcome is %s (field: %v)", full, f.want, r.Outcome(), got), detail)
			return
		}
	} else if r.Outcome() != "ok" || got != any(f.want) {
		c.Fail("", fmt.Sprintf("tag %s: outcome %s, the field holds %v, expected %d", full, r.Outcome(), got, f.want), detail)
		return
	}
	c.Nontrivial("negdefault|" + full + "|" + doc)
}

// deepPointer: a validated struct property declared as a pointer to a pointer: a bound value that satisfies every
// member constraint never makes the start fail.
func (p c18) deepPointer(c *core.Ctx) {
	a, b := 1+c.Rng.Intn(100), 1+c.Rng.Intn(100)
	doc := fmt.Sprintf("p:\n  limits:\n    soft: %d\n    hard: %d\n", a, b)
	lim := world.BuildStruct([]world.FieldSpec{
		{Name: "Soft", Type: reflect.TypeOf(0), Tag: `yaml:"soft" validate:"gte=1"`},
		{Name: "Hard", Type: reflect.TypeOf(0), Tag: `yaml:"hard" validate:"required,lte=100"`},
	})
	depth := 1 + c.Rng.Intn(3)
	ft := lim
	for i := 0; i < depth; i++ {
		ft = reflect.PointerTo(ft)
	}
	full := []string{`value:"${p.limits},validate"`, `prefix:"p.limits,validate"`, `prop:"p.limits,validate"`}[c.Rng.Intn(3)]
	h := world.NewHolder(world.BuildStruct([]world.FieldSpec{{Name: "F", Type: ft, Tag: full}}))
	r := world.Start(&world.Scenario{Config: doc}, world.Options{Extra: []any{h}, NoTracer: true, BinderBudget: 20000})
	c.Count("starts", 1)
	c.Count("validated_deep_pointer_struct_properties", 1)
	detail := map[string]any{"tag": full, "config": doc, "field_type": ft.String(), "outcome": core.Short(r.OutcomeDetail(), 300)}
	if abnormal(r.Outcome()) {
		c.Fail("", fmt.Sprintf("tag %s on a %s field: %s", full, ft, r.OutcomeDetail()), detail)
		return
	}
	v := reflect.ValueOf(h).Elem().Field(0)
	for v.Kind() == reflect.Pointer && !v.IsNil() {
		v = v.Elem()
	}
	if r.Outcome() != "ok" || v.Kind() != reflect.Struct || v.Field(0).Int() != int64(a) || v.Field(1).Int() != int64(b) {
		c.Fail("", fmt.Sprintf("tag %s on a %s field, every member constraint satisfied (soft %d, hard %d): outcome %s, field %v: %s", full, ft, a, b, r.Outcome(), v, core.Short(r.OutcomeDetail(), 200)), detail)
		return
	}
	c.Nontrivial(fmt.Sprint("deeppointer|", full, depth))
}

// emptySubstitution: a placeholder without a default whose key is absent is replaced by the empty text also on a
// required property; an expression written to cope with that is evaluated and its result bound.
func (p c18) emptySubstitution(c *core.Ctx) {
	name := plainWords[c.Rng.Intn(len(plainWords))]
	doc := fmt.Sprintf("c18:\n  name: %s\n  empty: {}\n", name)
	type fld struct {
		tag  string
		typ  reflect.Type
		want any
	}
	cands := []fld{
		{"#{'${c18.region}' == '' ? 'global' : '${c18.region}'}", reflect.TypeOf(""), "global"},
		{"#{'${c18.region}' == '' ? 'global' : '${c18.region}'},validate=min=2", reflect.TypeOf(""), "global"},
		{"#{'svc-' + '${c18.name}' + '${c18.suffix}'}", reflect.TypeOf(""), "svc-" + name},
		{"#{'${c18.zone}' != ''}", reflect.TypeOf(false), false},
		{"#{'${c18.empty}' == ''}", reflect.TypeOf(false), true},
		{"#{len('${c18.zone}') + 3}", reflect.TypeOf(0), 3},
	}
	f := cands[c.Rng.Intn(len(cands))]
	full := fmt.Sprintf("value:%q", f.tag)
	h := world.NewHolder(world.BuildStruct([]world.FieldSpec{{Name: "F", Type: f.typ, Tag: full}}))
	r := world.Start(&world.Scenario{Config: doc}, world.Options{Extra: []any{h}, NoTracer: true, BinderBudget: 20000})
	c.Count("starts", 1)
	c.Count("expressions_over_empty_substitutions", 1)
	got := reflect.ValueOf(h).Elem().Field(0).Interface()
	detail := map[string]any{"tag": full, "config": doc, "outcome": core.Short(r.OutcomeDetail(), 300)}
	if r.Outcome() != "ok" || got != f.want {
		c.Fail("", fmt.Sprintf("tag %s: outcome %s, the field holds %v, the expression over the substituted text gives %v: %s", full, r.Outcome(), got, f.want, core.Short(r.OutcomeDetail(), 200)), detail)
		return
	}
	c.Nontrivial("emptysubst|" + full)
}

func (p c18) Run(c *core.Ctx) {
	if c.Index%24 == 20 {
		p.emptySubstitution(c)
		return
	}
	if c.Index%24 == 2 {
		p.negativeDefaults(c)
		return
	}
	if c.Index%24 == 14 {
		p.deepPointer(c)
		return
	}
	if c.Index%24 == 5 {
		p.preset(c)
		return
	}
	if c.Index%24 == 17 {
		p.multiValidated(c)
		return
	}
	if c.Index%12 == 7 {
		p.repeated(c)
		return
	}
	if c.Index%24 == 11 {
		p.behindOptional(c)
		return
	}
	switch c.Index % 3 {
	case 0:
		p.expression(c)
	case 1:
		p.validation(c)
	default:
		p.staged(c)
	}
}

type c18Env struct {
	tree map[string]any
	doc  string
}

func genC18Env(c *core.Ctx) c18Env {
	t := map[string]any{
		"n": map[string]any{"a": c.Rng.Intn(20), "b": 1 + c.Rng.Intn(9), "c": c.Rng.Intn(100) - 50,
			"fa": []float64{0.1, 0.2, 1.5, 3.14159, 0.0025}[c.Rng.Intn(5)], "fb": []float64{0.2, 0.7, 2.25, 1e-3}[c.Rng.Intn(4)], "big": []int{33554434, 7, 1 << 40}[c.Rng.Intn(3)]},
		"s":   map[string]any{"x": c16Words[c.Rng.Intn(5)], "y": c16Words[c.Rng.Intn(5)]},
		"op":  map[string]any{"cmp": []string{">=", "<", "==", "!="}[c.Rng.Intn(4)], "arith": []string{"+", "-", "*"}[c.Rng.Intn(3)]},
		"ref": "n.a",
	}
	if c.Rng.Intn(2) == 0 {
		// configuration keys that happen to be spelled like functions of the expression language: unrelated
		// to any expression that calls those functions
		for _, k := range []string{"upper", "lower", "max", "min", "len", "abs", "trim"} {
			if c.Rng.Intn(2) == 0 {
				t[k] = c.Rng.Intn(50)
			}
		}
	}
	b, _ := yaml.Marshal(t)
	return c18Env{tree: t, doc: string(b)}
}

func intOperand(c *core.Ctx) string {
	if c.Rng.Intn(10) == 0 {
		// calls of the expression language's built-in functions
		return []string{"max(${n.a}, ${n.b})", "min(${n.a}, 7)", "len('${s.x}')", "abs(${n.c})"}[c.Rng.Intn(4)]
	}
	switch c.Rng.Intn(6) {
	case 0:
		return fmt.Sprint(c.Rng.Intn(30))
	case 1:
		return "${n.a}"
	case 2:
		return "${n.b}"
	case 3:
		return "${n.c}"
	case 4:
		return fmt.Sprintf("${n.none:%d}", c.Rng.Intn(9))
	default:
		return "${n.${n.pick:a}}"
	}
}

func intExpr(c *core.Ctx, depth int) string {
	if depth > 2 || c.Rng.Intn(3) == 0 {
		return intOperand(c)
	}
	op := []string{"+", "-", "*", "%"}[c.Rng.Intn(4)]
	if c.Rng.Intn(5) == 0 {
		op = "${op.arith}"
	}
	l, r := intExpr(c, depth+1), intExpr(c, depth+1)
	if op == "%" {
		r = "${n.b}" // never zero
	}
	return "(" + l + op + r + ")"
}

func boolExpr(c *core.Ctx) string {
	cmp := []string{">", "<", ">=", "<=", "==", "!="}[c.Rng.Intn(6)]
	if c.Rng.Intn(4) == 0 {
		cmp = "${op.cmp}"
	}
	e := intExpr(c, 1) + cmp + intExpr(c, 1)
	switch c.Rng.Intn(4) {
	case 0:
		e = "(" + e + ")||" + intExpr(c, 2) + "!=" + intExpr(c, 2)
	case 1:
		e = "!(" + e + ")"
	case 2:
		e = "'${s.x}' in ['va','vb','${s.y}']"
	}
	return e
}

func strExpr(c *core.Ctx) string {
	if c.Rng.Intn(8) == 0 { // results that look like numbers / booleans
		return []string{"'00'+'7'", "'1.'+'10'", "'TR'+'UE'", "'${n.b}'+'.50'"}[c.Rng.Intn(4)]
	}
	if c.Rng.Intn(8) == 0 { // results that are text although they resemble literals of other notations
		return []string{"'0x'+'ff00'", "'1_'+'000'", "'0b'+'101'", "'0o'+'17'", "'${n.b}'+'_'+'${n.b}'"}[c.Rng.Intn(5)]
	}
	if c.Rng.Intn(8) == 0 {
		return []string{"upper('${s.x}')", "lower('${s.y}')+'-'+upper('${s.x}')", "trim(' ${s.x} ')"}[c.Rng.Intn(3)]
	}
	switch c.Rng.Intn(3) {
	case 0:
		return "'${s.x}'+'-'+'${s.y}'"
	case 1:
		return boolExpr(c) + "?'${s.x}':'${s.none:other}'"
	default:
		return "'p'+'${s.x}'"
	}
}

func startHolder(c *core.Ctx, fields []world.FieldSpec, doc string) (reflect.Value, *world.Run) {
	h := world.NewHolder(world.BuildStruct(fields))
	r := world.Start(&world.Scenario{Config: doc}, world.Options{Extra: []any{h}, NoTracer: true, BinderBudget: 20000})
	return reflect.ValueOf(h).Elem(), r
}

func directEval(e string) (any, error) {
	prog, err := expr.Compile(e)
	if err != nil {
		return nil, err
	}
	return expr.Run(prog, nil)
}

func (p c18) expression(c *core.Ctx) {
	env := genC18Env(c)
	var e string
	var ft reflect.Type
	switch c.Rng.Intn(4) {
	case 0:
		e, ft = intExpr(c, 0), reflect.TypeOf(0)
	case 1:
		e, ft = boolExpr(c), reflect.TypeOf(false)
		if c.Rng.Intn(4) == 0 {
			// the expression's result is the TEXT true / false (a ternary choosing between two words): the field
			// receives the result, which the binder converts like a literal written in the tag
			e = e + "?'true':'false'"
			c.Count("bool_fields_fed_by_text_results", 1)
		}
	case 2:
		// floating-point results reach a float64 field with full precision
		e, ft = []string{"${n.fa}+${n.fb}", "${n.a}/3", "${n.fa}*${n.b}", "${n.c}/${n.b}", "${n.big}/2", "${n.fa}-${n.fb}", "(${n.a}+1)/7"}[c.Rng.Intn(7)], reflect.TypeOf(float64(0))
	default:
		e, ft = strExpr(c), reflect.TypeOf("")
	}
	// the expression may be embedded in literal text (string targets): "pre-#{...}-post"
	pre, post := "", ""
	if ft.Kind() == reflect.String && c.Rng.Intn(2) == 0 {
		pre, post = []string{"v", "pre-", "${s.x}:", ""}[c.Rng.Intn(4)], []string{"-post", "", "/${s.y}"}[c.Rng.Intn(3)]
	}
	tag := fmt.Sprintf("value:%q", pre+"#{"+e+"}"+post)
	if pre == "" && post == "" && c.Rng.Intn(5) == 0 {
		// the expression comes from the configuration (calc.e: "#{...}") and the tag merely quotes it: after
		// substitution the tag reads like the one above and is evaluated like it
		env.doc += fmt.Sprintf("calc:\n  e: %q\n", "#{"+e+"}")
		tag = `value:"${calc.e}"`
		c.Count("expressions_supplied_by_the_configuration", 1)
	}
	sub, _, _, status := modelResolve(e, env.tree)
	preR, _, _, _ := modelResolve(pre, env.tree)
	postR, _, _, _ := modelResolve(post, env.tree)
	if status != "ok" {
		return
	}
	want, derr := directEval(sub)
	if ws, ok := want.(string); ok && derr == nil {
		want = preR + ws + postR
		if ft.Kind() == reflect.Bool && (ws == "true" || ws == "false") {
			want = ws == "true"
		}
	}
	hv, r := startHolder(c, []world.FieldSpec{{Name: "F", Type: ft, Tag: tag}}, env.doc)
	c.Count("starts", 1)
	detail := map[string]any{"tag": tag, "config": env.doc, "substituted_expression": sub, "direct_result": fmt.Sprintf("%#v", want), "direct_error": fmt.Sprint(derr), "outcome": core.Short(r.OutcomeDetail(), 300)}
	if abnormal(r.Outcome()) {
		c.Fail("", fmt.Sprintf("tag %s: %s", tag, r.OutcomeDetail()), detail)
		return
	}
	nontrivial := strings.Count(e, "${") >= 2 || strings.Contains(e, "${op.")
	if derr != nil {
		if r.Outcome() != "error" {
			c.Fail("", fmt.Sprintf("tag %s: direct evaluation of %q fails (%v) but the start succeeded with %v", tag, sub, derr, hv.Field(0).Interface()), detail)
		}
		return
	}
	got := hv.Field(0).Interface()
	ok := r.Outcome() == "ok"
	switch w := want.(type) {
	case int:
		ok = ok && got == any(w)
	case bool:
		ok = ok && got == any(w)
	case string:
		ok = ok && got == any(w)
	case float64:
		if ft.Kind() == reflect.Float64 {
			ok = ok && got == any(w)
			c.Count("float_expressions_checked", 1)
		} else {
			ok = ok && got == any(int(w)) && float64(int(w)) == w
		}
	default:
		return
	}
	if !ok {
		class := ""
		if s, isStr := want.(string); isStr && sniffable(s) {
			class = "F-C18-string-result-sniffed"
		}
		c.Fail(class, fmt.Sprintf("tag %s: field holds %#v (%s) but evaluating the substituted expression %q directly gives %#v", tag, got, r.Outcome(), sub, want), detail)
		return
	}
	c.Count("expressions_checked", 1)
	if nontrivial {
		c.Nontrivial(tag + env.doc)
		if c.WantSample() {
			c.Sample(detail)
		}
	}
}

type constraint struct {
	text string // as written in the tag's validate argument (space separated items)
}

func genConstraintsFor(c *core.Ctx, kind string) string {
	var items []string
	n := 1 + c.Rng.Intn(2)
	for i := 0; i < n; i++ {
		switch kind {
		case "int":
			items = append(items, []string{"min=3", "max=10", "gt=0", "lt=7", "gte=5", "lte=5", "eq=4", "ne=4", "required", "oneof=1 2 3"}[c.Rng.Intn(10)])
		case "string":
			items = append(items, []string{"min=3", "max=4", "len=2", "eq=va", "ne=vb", "required", "alpha", "numeric", "alphanum", "lowercase"}[c.Rng.Intn(10)])
		case "ints":
			items = append(items, []string{"min=2", "max=3", "len=3", "required"}[c.Rng.Intn(4)])
		case "bool":
			items = append(items, []string{"required", "eq=true"}[c.Rng.Intn(2)])
		}
	}
	// order-sensitive lists: the constraints reach the validator in the order written
	if c.Rng.Intn(5) == 0 {
		switch kind {
		case "int":
			items = [][]string{{"omitempty", "min=3"}, {"omitempty", "gte=5"}, {"required", "min=3"}}[c.Rng.Intn(3)]
		case "string":
			items = [][]string{{"omitempty", "min=3"}, {"omitempty", "len=2"}, {"omitempty", "numeric"}}[c.Rng.Intn(3)]
		case "ints":
			items = [][]string{{"min=2", "dive", "min=1"}, {"omitempty", "min=2"}, {"required", "dive", "gt=0"}}[c.Rng.Intn(3)]
		}
	}
	// "oneof=1 2 3" contains spaces, which the tag grammar would split into items; keep it out of multi-item lists
	for i, it := range items {
		if strings.HasPrefix(it, "oneof") {
			items[i] = "oneof=4"
		}
	}
	return strings.Join(items, " ")
}

func verdict(value any, constraints string) (fails bool, panicked any) {
	defer func() {
		if r := recover(); r != nil {
			panicked = r
		}
	}()
	err := c18Validator.Var(value, strings.Join(strings.Split(constraints, " "), ","))
	return err != nil, nil
}

func (p c18) validation(c *core.Ctx) {
	env := genC18Env(c)
	kind := []string{"int", "string", "ints", "bool", "struct", "ptr"}[c.Rng.Intn(6)]
	if kind == "ptr" {
		p.pointerValidation(c, env)
		return
	}
	var ft reflect.Type
	var lit string
	var bound any
	switch kind {
	case "int":
		n := c.Rng.Intn(12)
		ft, bound = reflect.TypeOf(0), n
		switch c.Rng.Intn(3) {
		case 0:
			lit = fmt.Sprint(n)
		case 1:
			lit, bound = "${n.b}", env.tree["n"].(map[string]any)["b"]
		case 2:
			lit, bound = "${n.none},required=false", 0 // nothing is bound: the zero value is validated
		}
	case "string":
		s := []string{"va", "vb", "abcd", "x", "a1", "ABC", "hello"}[c.Rng.Intn(7)]
		ft, bound, lit = reflect.TypeOf(""), s, s
		if c.Rng.Intn(3) == 0 {
			lit, bound = "${s.x}", env.tree["s"].(map[string]any)["x"]
		}
	case "ints":
		n := 1 + c.Rng.Intn(4)
		var l []int
		var parts []string
		for i := 0; i < n; i++ {
			l = append(l, i+1)
			parts = append(parts, fmt.Sprint(i+1))
		}
		ft, bound, lit = reflect.TypeOf([]int{}), l, "["+strings.Join(parts, ",")+"]"
	case "bool":
		b := c.Rng.Intn(2) == 0
		ft, bound, lit = reflect.TypeOf(false), b, fmt.Sprint(b)
	case "struct":
		p.structValidation(c)
		return
	}
	cons := genConstraintsFor(c, kind)
	argName := []string{"validate", "Validate"}[c.Rng.Intn(2)]
	tag := fmt.Sprintf("value:%q", lit+","+argName+"="+cons)
	fails, pan := verdict(bound, cons)
	if pan != nil {
		return // constraint not applicable to this kind: the library panics by design, out of scope
	}
	_, r := startHolder(c, []world.FieldSpec{{Name: "F", Type: ft, Tag: tag}}, env.doc)
	c.Count("starts", 1)
	detail := map[string]any{"tag": tag, "config": env.doc, "expected_bound_value": fmt.Sprintf("%#v", bound), "direct_validator_objects": fails, "outcome": core.Short(r.OutcomeDetail(), 300)}
	if abnormal(r.Outcome()) {
		c.Fail("", fmt.Sprintf("tag %s: %s", tag, r.OutcomeDetail()), detail)
		return
	}
	if fails != (r.Outcome() == "error") {
		c.Fail("", fmt.Sprintf("tag %s: the validator %s the bound value %#v under %q, but the start outcome is %s", tag, map[bool]string{true: "rejects", false: "accepts"}[fails], bound, cons, r.Outcome()), detail)
		return
	}
	c.Count("validation_verdicts_checked", 1)
	if fails {
		c.Count("verdict_violates", 1)
		c.Nontrivial(tag + env.doc)
	} else if c.WantSample() {
		c.Sample(detail)
	}
}

func (p c18) structValidation(c *core.Ctx) {
	sval := []string{"abc", "abcd", "x"}[c.Rng.Intn(3)]
	eq := []string{"abc", "abcd"}[c.Rng.Intn(2)]
	port := c.Rng.Intn(100)
	inner := world.BuildStruct([]world.FieldSpec{
		{Name: "S", Type: reflect.TypeOf(""), Tag: fmt.Sprintf(`yaml:"s" validate:"eq=%s"`, eq)},
		{Name: "P", Type: reflect.TypeOf(0), Tag: `yaml:"p" validate:"min=10,max=60"`},
	})
	ft := inner
	if c.Rng.Intn(2) == 0 {
		ft = reflect.PointerTo(inner)
	}
	tag := fmt.Sprintf("value:%q", fmt.Sprintf("map[s:%s p:%d],validate", sval, port))
	want := reflect.New(inner).Elem()
	want.Field(0).SetString(sval)
	want.Field(1).SetInt(int64(port))
	doc := ""
	if c.Rng.Intn(3) == 0 {
		// a nested struct held by value that is itself required: absent sub-section => all-zero => objected to
		sub := world.BuildStruct([]world.FieldSpec{{Name: "M", Type: reflect.TypeOf(0), Tag: `yaml:"m"`}, {Name: "T", Type: reflect.TypeOf(""), Tag: `yaml:"t"`}})
		inner = world.BuildStruct([]world.FieldSpec{
			{Name: "S", Type: reflect.TypeOf(""), Tag: `yaml:"s" validate:"required"`},
			{Name: "P", Type: reflect.TypeOf(0), Tag: `yaml:"p"`},
			{Name: "L", Type: sub, Tag: `yaml:"l" validate:"required"`},
		})
		ft = inner
		if c.Rng.Intn(2) == 0 {
			ft = reflect.PointerTo(inner)
		}
		want = reflect.New(inner).Elem()
		want.Field(0).SetString(sval)
		want.Field(1).SetInt(int64(port))
		doc = fmt.Sprintf("sv:\n  s: %s\n  p: %d\n", sval, port)
		switch c.Rng.Intn(3) {
		case 0: // sub-section missing
		case 1: // present but all zero
			doc += "  l:\n    m: 0\n"
		default:
			m := 1 + c.Rng.Intn(9)
			doc += fmt.Sprintf("  l:\n    m: %d\n", m)
			want.Field(2).Field(0).SetInt(int64(m))
		}
		tag = []string{`prefix:"sv,validate"`, `value:"${sv},validate"`}[c.Rng.Intn(2)]
		c.Count("struct_cases_with_required_nested_struct", 1)
	}
	if doc == "" && c.Rng.Intn(3) == 0 {
		// the constraints sit on a struct reached through a pointer member (the outer struct states none of
		// its own): the validator descends into non-nil pointer members by itself
		lim := world.BuildStruct([]world.FieldSpec{
			{Name: "Max", Type: reflect.TypeOf(0), Tag: `yaml:"max" validate:"max=60"`},
			{Name: "Tag", Type: reflect.TypeOf(""), Tag: `yaml:"tag"`},
		})
		var mid reflect.Type = reflect.PointerTo(lim)
		twoLevels := c.Rng.Intn(3) == 0
		if twoLevels {
			mid = reflect.PointerTo(world.BuildStruct([]world.FieldSpec{{Name: "Lim", Type: reflect.PointerTo(lim), Tag: `yaml:"lim"`}}))
		}
		inner = world.BuildStruct([]world.FieldSpec{
			{Name: "S", Type: reflect.TypeOf(""), Tag: `yaml:"s"`},
			{Name: "L", Type: mid, Tag: `yaml:"l"`},
		})
		ft = inner
		if c.Rng.Intn(2) == 0 {
			ft = reflect.PointerTo(inner)
		}
		want = reflect.New(inner).Elem()
		want.Field(0).SetString(sval)
		doc = fmt.Sprintf("sv:\n  s: %s\n", sval)
		if c.Rng.Intn(4) != 0 { // (else: no sub-section, the pointer stays nil and nothing is objected to)
			lv := reflect.New(lim)
			lv.Elem().Field(0).SetInt(int64(port))
			if twoLevels {
				doc += fmt.Sprintf("  l:\n    lim:\n      max: %d\n", port)
				mv := reflect.New(mid.Elem())
				mv.Elem().Field(0).Set(lv)
				want.Field(1).Set(mv)
			} else {
				doc += fmt.Sprintf("  l:\n    max: %d\n", port)
				want.Field(1).Set(lv)
			}
		}
		tag = []string{`prefix:"sv,validate"`, `value:"${sv},validate"`}[c.Rng.Intn(2)]
		c.Count("struct_cases_with_constraints_behind_pointer_members", 1)
	}
	fails := c18Validator.Struct(want.Interface()) != nil
	_, r := startHolder(c, []world.FieldSpec{{Name: "F", Type: ft, Tag: tag}}, doc)
	c.Count("starts", 1)
	detail := map[string]any{"tag": tag, "struct": inner.String(), "config": doc, "direct_validator_objects": fails, "outcome": core.Short(r.OutcomeDetail(), 300)}
	if abnormal(r.Outcome()) {
		c.Fail("", fmt.Sprintf("tag %s: %s", tag, r.OutcomeDetail()), detail)
		return
	}
	if fails != (r.Outcome() == "error") {
		c.Fail("", fmt.Sprintf("struct validation, tag %s on %s: validator objects=%v but start outcome is %s", tag, inner, fails, r.Outcome()), detail)
		return
	}
	c.Count("struct_verdicts_checked", 1)
	if fails {
		c.Nontrivial(tag + inner.String())
	}
}

// staged: placeholders feed an expression whose result is bound and then validated.
func (p c18) staged(c *core.Ctx) {
	env := genC18Env(c)
	e := intExpr(c, 1)
	cons := genConstraintsFor(c, "int")
	tag := fmt.Sprintf("value:%q", "#{"+e+"},validate="+cons)
	sub, _, _, status := modelResolve(e, env.tree)
	if status != "ok" {
		return
	}
	want, derr := directEval(sub)
	if derr != nil {
		return
	}
	wi, isInt := want.(int)
	if !isInt {
		return
	}
	fails, pan := verdict(wi, cons)
	if pan != nil {
		return
	}
	hv, r := startHolder(c, []world.FieldSpec{{Name: "F", Type: reflect.TypeOf(0), Tag: tag}}, env.doc)
	c.Count("starts", 1)
	detail := map[string]any{"tag": tag, "config": env.doc, "substituted_expression": sub, "direct_result": wi, "direct_validator_objects": fails, "outcome": core.Short(r.OutcomeDetail(), 300)}
	if abnormal(r.Outcome()) {
		c.Fail("", fmt.Sprintf("tag %s: %s", tag, r.OutcomeDetail()), detail)
		return
	}
	if fails != (r.Outcome() == "error") {
		c.Fail("", fmt.Sprintf("tag %s: expression result %d, validator objects=%v under %q, start outcome %s", tag, wi, fails, cons, r.Outcome()), detail)
		return
	}
	if !fails && hv.Field(0).Interface() != any(wi) {
		c.Fail("", fmt.Sprintf("tag %s: field holds %v, expression result is %d", tag, hv.Field(0).Interface(), wi), detail)
		return
	}
	c.Count("staged_cases_checked", 1)
	c.Nontrivial(tag + env.doc)
	if c.WantSample() {
		c.Sample(detail)
	}
}

// pointerValidation: pointer-typed targets, including the case where nothing is bound and the pointer
// stays nil - the validator is asked about exactly that value.
func (p c18) pointerValidation(c *core.Ctx, env c18Env) {
	type tc struct {
		ft    reflect.Type
		lit   string
		bound any
	}
	sval := []string{"va", "abcd", "x"}[c.Rng.Intn(3)]
	n := c.Rng.Intn(12)
	cases := []tc{
		{reflect.TypeOf((*string)(nil)), "${s.none:},required=false", (*string)(nil)},
		{reflect.TypeOf((*int)(nil)), "${n.none:},required=false", (*int)(nil)},
		{reflect.TypeOf((*string)(nil)), sval, &sval},
		{reflect.TypeOf((*int)(nil)), fmt.Sprint(n), &n},
	}
	t := cases[c.Rng.Intn(len(cases))]
	kind := "string"
	if t.ft.Elem().Kind() == reflect.Int {
		kind = "int"
	}
	cons := genConstraintsFor(c, kind)
	tag := fmt.Sprintf("value:%q", t.lit+",validate="+cons)
	fails, pan := verdict(t.bound, cons)
	if pan != nil {
		return
	}
	_, r := startHolder(c, []world.FieldSpec{{Name: "F", Type: t.ft, Tag: tag}}, env.doc)
	c.Count("starts", 1)
	detail := map[string]any{"tag": tag, "target": t.ft.String(), "expected_bound_value": renderVal(t.bound), "direct_validator_objects": fails, "outcome": core.Short(r.OutcomeDetail(), 300)}
	if abnormal(r.Outcome()) {
		c.Fail("", fmt.Sprintf("tag %s: %s", tag, r.OutcomeDetail()), detail)
		return
	}
	if fails != (r.Outcome() == "error") {
		c.Fail("", fmt.Sprintf("tag %s on %s: the validator %s the bound value %s under %q, but the start outcome is %s", tag, t.ft, map[bool]string{true: "rejects", false: "accepts"}[fails], renderVal(t.bound), cons, r.Outcome()), detail)
		return
	}
	c.Count("pointer_validation_verdicts_checked", 1)
	if fails {
		c.Nontrivial(tag)
	}
}

// repeated: the same tag text is evaluated more than once - on a second component, or by a re-attempted
// creation of a component that is fetched on demand - and the configuration feeding its placeholder
// may change in between. Every evaluation substitutes first, evaluates second and validates the result
// of that evaluation.
func (p c18) repeated(c *core.Ctx) {
	n1, n2 := c.Rng.Intn(12), c.Rng.Intn(12)
	factor := 1 + c.Rng.Intn(3)
	cons := genConstraintsFor(c, "int")
	body := "${rv.n:1}"
	useExpr := c.Rng.Intn(3) > 0
	if useExpr {
		body = fmt.Sprintf("#{${rv.n:1}*%d}", factor)
	} else {
		factor = 1
	}
	withValidate := c.Rng.Intn(4) > 0
	val := body
	if withValidate {
		val += ",validate=" + cons
	}
	objects := func(v int) bool {
		if !withValidate {
			return false
		}
		f, pan := verdict(v, cons)
		return f || pan != nil
	}
	if withValidate {
		if _, pan := verdict(n1, cons); pan != nil {
			return
		}
	}
	doc := fmt.Sprintf("rv:\n  n: %d\nother: x\n", n1)
	detail := map[string]any{"tag_value": val, "config": doc, "second_value_of_rv.n": n2}
	if c.Rng.Intn(2) == 0 {
		// two components with the same tag text; the first one's Init changes the key
		g := world.NewG(c.Rng)
		first := g.AddNode(0, "a-first")
		second := g.AddNode(1, "z-second")
		for _, k := range []int{first, second} {
			g.Sc.Nodes[k].Cfg = map[string]world.TagSpec{"CfgI": {Tag: "value", Val: val}}
		}
		g.Sc.Config = doc
		var run *world.Run
		done := false
		run = world.Build(g.Sc, world.Options{NoTracer: true, Hook: func(kind string, who world.Node) {
			if kind == "init" && who.DisplayName() == "a-first" && !done {
				done = true
				run.App.Set("rv.n", n2)
			}
		}})
		run.Go()
		c.Count("starts", 1)
		detail["shape"] = "two components, key set in the Init of the first"
		detail["outcome"] = core.Short(run.OutcomeDetail(), 300)
		if abnormal(run.Outcome()) {
			c.Fail("", "start: "+run.OutcomeDetail(), detail)
			return
		}
		wantErr := objects(n1*factor) || objects(n2*factor)
		if wantErr != (run.Outcome() == "error") {
			c.Fail("", fmt.Sprintf("tag %q on two components, rv.n=%d for the first and %d for the second: validator objects=%v, start outcome %s", val, n1, n2, wantErr, run.Outcome()), detail)
			return
		}
		if !wantErr {
			g1, g2 := run.Nodes[first].Slot().CfgI, run.Nodes[second].Slot().CfgI
			if g1 != n1*factor || g2 != n2*factor {
				c.Fail("", fmt.Sprintf("tag %q: first component holds %d (expected %d), second component - created after rv.n was set to %d - holds %d (expected %d)", val, g1, n1*factor, n2, g2, n2*factor), detail)
				return
			}
		}
		c.Count("repeated_evaluations_checked", 2)
		c.Nontrivial(fmt.Sprint("repeated2|", val, n1, n2))
		return
	}
	// one component fetched on demand, attempted up to three times
	g := world.NewG(c.Rng)
	h := g.AddNode(8, "on-demand")
	g.Sc.Nodes[h].Cfg = map[string]world.TagSpec{"CfgI": {Tag: "value", Val: val}}
	firstObjects := objects(n1 * factor)
	if !firstObjects {
		g.Sc.Nodes[h].FailOnce = []string{"init"} // the first attempt fails anyway, after its tags were processed
	}
	g.Sc.Config = doc
	run := world.Build(g.Sc, world.Options{NoTracer: true})
	run.Go()
	c.Count("starts", 1)
	detail["shape"] = "one component fetched on demand"
	if run.Outcome() != "ok" {
		c.Fail("", "start with a lazy, unreferenced component did not succeed: "+core.Short(run.OutcomeDetail(), 300), detail)
		return
	}
	var err error
	run.Guard(func() { _, err = run.App.GetComponentByName("on-demand") })
	if err == nil || run.Panic != nil {
		c.Fail("", fmt.Sprintf("first attempt with rv.n=%d, tag %q: expected an error (validator objects=%v), got err=%v panic=%v", n1, val, firstObjects, err, run.Panic), detail)
		return
	}
	cur := n1
	attempts := []string{fmt.Sprintf("1: rv.n=%d -> error", n1)}
	for a := 2; a <= 3; a++ {
		if c.Rng.Intn(3) > 0 {
			cur = n2
			run.App.Set("rv.n", cur)
			if a == 2 {
				n2 = c.Rng.Intn(12) // a third value for the last attempt
			}
		}
		want := objects(cur * factor)
		run.Guard(func() { _, err = run.App.GetComponentByName("on-demand") })
		attempts = append(attempts, fmt.Sprintf("%d: rv.n=%d -> err=%v", a, cur, err != nil))
		detail["attempts"] = attempts
		if run.Panic != nil {
			c.Fail("", fmt.Sprintf("attempt %d panicked: %v", a, run.Panic), detail)
			return
		}
		if want != (err != nil) {
			c.Fail("", fmt.Sprintf("attempt %d with rv.n=%d, tag %q: validator objects=%v but the creation returned err=%v", a, cur, val, want, err), detail)
			return
		}
		c.Count("repeated_evaluations_checked", 1)
		if err == nil {
			if got := run.Nodes[h].Slot().CfgI; got != cur*factor {
				c.Fail("", fmt.Sprintf("attempt %d with rv.n=%d, tag %q: field holds %d, expected %d", a, cur, val, got, cur*factor), detail)
				return
			}
			break
		}
	}
	c.Nontrivial(fmt.Sprint("repeated1|", val, attempts))
}

// behindOptional: validation guards the start also for a component that is only reachable through an
// optional injection point of an eager one (a lazy candidate): an objection to its bound value fails the
// start instead of quietly leaving the optional point empty.
func (p c18) behindOptional(c *core.Ctx) {
	n := c.Rng.Intn(12)
	cons := genConstraintsFor(c, "int")
	objects, pan := verdict(n, cons)
	if pan != nil {
		return
	}
	g := world.NewG(c.Rng)
	lz := g.AddNode([]int{8, 11}[c.Rng.Intn(2)], "lazy-validated") // lazy IA types
	g.Sc.Nodes[lz].Cfg = map[string]world.TagSpec{"CfgI": {Tag: "value", Val: "${bv.n},validate=" + cons}}
	h := g.AddRandomNode(world.TypesEagerPlain, 0.2)
	if c.Rng.Intn(2) == 0 {
		g.SetTag(h, "IA0", "wire", "lazy-validated,required=false")
	} else {
		g.SetTag(h, "SA0", "wire", ",required=false") // by type: the lazy component is a candidate
	}
	g.Sc.Config = fmt.Sprintf("bv:\n  n: %d\n", n)
	g.ShuffleOrders()
	r := world.Start(g.Sc, world.Options{NoTracer: true})
	c.Count("starts", 1)
	detail := failDetail(g.Sc, r, map[string]any{"constraints": cons, "bound_value": n, "validator_objects": objects})
	if abnormal(r.Outcome()) {
		c.Fail("", "start: "+core.Short(r.OutcomeDetail(), 300), detail)
		return
	}
	if objects != (r.Outcome() == "error") {
		c.Fail("", fmt.Sprintf("a lazy component reachable through an optional point binds %d under %q: validator objects=%v, start outcome %s", n, cons, objects, r.Outcome()), detail)
		return
	}
	if !objects && r.Nodes[lz].Slot().CfgI != n {
		c.Fail("", fmt.Sprintf("the lazy component holds %d, configured %d", r.Nodes[lz].Slot().CfgI, n), detail)
		return
	}
	c.Count("validated_behind_optional_points", 1)
	c.Nontrivial(fmt.Sprintf("behindopt|%d|%s", n, cons))
}
