package props

import (
	"errors"
	"fmt"
	"math/rand"
	"strings"
	"sync"

	"github.com/go-kid/ioc/component_definition"
	"github.com/go-kid/ioc/container"
	"github.com/go-kid/ioc/container/support"
	"verifharness/core"
	"verifharness/mon"
	"verifharness/world"
)

// C04 Singleton cache protocol: one early reference, final publication, clean failure.
type c04 struct{}

func init() { core.Register(c04{}) }

func (c04) ID() string    { return "C04" }
func (c04) Level() string { return "exploration" }
func (c04) Rule() string {
	return "two history sources, both recorded at the container.SingletonComponentRegistry interface by a call tracer and checked offline against a sequential per-name state machine (absent -> creating[early reference?] -> published | failed). (1) direct driving of the real support.DefaultSingletonComponentRegistry() by a generated protocol-respecting client: random trees of nested get-or-create (depth <= 6, <= 8 names), creating closures that optionally add an early-reference factory (which may itself fail), look themselves / ancestors / other names up with and without allowEarlyReference, query IsSingletonCurrentlyInCreation, swallow or propagate nested failures, fail or succeed; histories continue after failures with re-lookups and re-creations. (2) traced real starts of cyclic / faulty scenarios (Init / AfterPropertiesSet failures in eager and lazy components) continued after App.Run with three rounds of GetComponentByName for every name; half of the injected faults are transient (fail once), and after a successful re-attempt the re-created components' wiring is compared per point with the reference model and for identity. Clauses: (a) all lookups during one creation see one early reference, early factory yields at most one reference per creation; (b) after publication every lookup returns the published instance and the name is not in creation; (c) after a failed creation the name is not in creation and no lookup returns an instance with a nil error unless a new creation completed. non-trivial = history with a nested create and an early lookup (and, counted separately, a failure followed by a lookup); distinct = trace shape hash; a harness post-processor requests other components from inside its after-instantiation / properties / before-initialization callbacks; transient early-factory faults, wrapper published after an early reference; a lookup with a registered factory ends with a reference or an error; a permanently failing callback never yields an instance for later lookups; a published singleton is never removed; early-reference callbacks failing with (nil, err); drivenSideBySide family: 2..8 clients (goroutines) each drive their own seeded programs over names of their own on ONE registry, every client's trace is judged by the same protocol checker; listings (GetComponents) of published names return the published object; the traced family also substitutes after initialisation and looks components up from Init under substitution; clause: the original is never published when an early version was handed out during the creation; the driven client re-registers its early-reference factory; holders and lookups agree after every failure-free start under a substituting post-processor; reprepared family (a started factory prepared and refreshed a second time: same published instances, nothing initialised again)"
}
func (c04) Assumptions() []string {
	return []string{
		"every client's history is sequential (the factory drives the registry from one goroutine per request), so conformance is exact trace checking, not a search; in the side-by-side family several such clients share one registry but never a name - the registry is built on concurrent maps and sets (C20) and serves them independently",
		"the driven client never re-enters get-or-create for a name that is on the creation stack without an early factory (the real factory always registers one first)",
	}
}
func (c04) drivenCount(tier string) int   { return tierN(tier, 5000, 1500000) }
func (c04) tracedCount(tier string) int   { return tierN(tier, 1500, 300000) }
func (p c04) NumCases(tier string) int    { return p.drivenCount(tier) + p.tracedCount(tier) }
func (c04) MinNontrivial(tier string) int { return tierN(tier, 500, 5000) }

// reprepared: the started factory is prepared and refreshed a second time (the way a component registered at run time
// is picked up): creation of every singleton had completed - what is returned for its name afterwards is still the
// published instance, and nothing is initialised again.
func (p c04) reprepared(c *core.Ctx) {
	sc := RandomGraph(c.Rng, GraphOpts{MinN: 2, MaxN: 7, Types: plainAB, PCycle: 0.6, Chords: 1, ByTypeSlice: 0.2, OnlyIface: true, PUnnamed: 0.3})
	var extra []any
	plan := map[string]world.SubPlan{}
	if c.Rng.Intn(2) == 0 {
		plan[sc.Nodes[c.Rng.Intn(len(sc.Nodes))].DisplayName()] = []world.SubPlan{{After: true}, {Early: true}, {Before: true}}[c.Rng.Intn(3)]
		extra = append(extra, world.NewSubstituter(plan))
	}
	r := world.Start(sc, world.Options{Extra: extra})
	c.Count("starts", 1)
	if r.Outcome() != "ok" {
		return // (refused substitutions are C03's subject)
	}
	c.Count("reprepared_starts", 1)
	first := map[string]any{}
	inits := map[string]int{}
	for i := range sc.Nodes {
		name := sc.Nodes[i].DisplayName()
		var o any
		var err error
		r.Guard(func() { o, err = r.App.GetComponentByName(name) })
		if err == nil && r.Panic == nil {
			first[name] = o
		}
		inits[name] = countEvents(r, "init", name) + countEvents(r, "aps", name)
	}
	var e1, e2 error
	r.Guard(func() {
		if e1 = r.App.PrepareComponents(); e1 == nil {
			e2 = r.App.Refresh()
		}
	})
	detail := failDetail(sc, r, map[string]any{"plan": plan, "second_prepare": fmt.Sprint(e1), "second_refresh": fmt.Sprint(e2)})
	if r.Panic != nil || r.Diverge != nil {
		c.Fail("", "second PrepareComponents / Refresh on a started factory: "+r.OutcomeDetail(), detail)
		return
	}
	for i := range sc.Nodes {
		name := sc.Nodes[i].DisplayName()
		var o any
		var err error
		r.Guard(func() { o, err = r.App.GetComponentByName(name) })
		if f, had := first[name]; had && (err != nil || o != f) {
			c.Fail("", fmt.Sprintf("the creation of %q had completed and published %p; after the factory was prepared and refreshed again a lookup returns %p (error: %v)", name, f, o, err), detail)
			return
		}
		if _, had := first[name]; !had {
			continue // (its creation had not completed before: a later attempt legitimately runs its callbacks again)
		}
		if n := countEvents(r, "init", name) + countEvents(r, "aps", name); n != inits[name] {
			c.Fail("", fmt.Sprintf("the finished singleton %q was initialised again after the factory was prepared and refreshed a second time (%d -> %d callbacks)", name, inits[name], n), detail)
			return
		}
	}
	c.Nontrivial("reprepared|" + sc.GraphSig() + fmt.Sprint(len(plan)))
}

func (p c04) Run(c *core.Ctx) {
	if c.Index >= p.drivenCount(c.Tier) && c.Index%25 == 7 {
		p.reprepared(c)
		return
	}
	if c.Index < p.drivenCount(c.Tier) {
		p.driven(c)
	} else {
		p.traced(c)
	}
}

// ---------------------------------------------------------------------------------------------
// offline protocol checker

type nameState struct {
	state     string // "" absent | creating | published | failed
	depth     int    // number of nested creations of this name on the stack (must be <= 1 here)
	early     int    // early reference meta id seen during this creation (0 none)
	earlyRuns int
	published int
	// hasFactory: an early-reference factory was registered during the current creation
	hasFactory bool
}

type protoStats struct {
	nestedCreate, earlyLookup, failureThenLookup, creations, failures, earlyRefs int
}

// isOriginal, when set, tells whether a meta id denotes a component's own definition (not a version a
// post-processor produced); used by the traced histories only.
func checkProtocol(ev []mon.TraceEv, drivenClient ...bool) (violations []string, st protoStats) {
	return checkProtocolWith(ev, nil, drivenClient...)
}

func checkProtocolWith(ev []mon.TraceEv, isOriginal func(id int) bool, drivenClient ...bool) (violations []string, st protoStats) {
	driven := len(drivenClient) > 0 && drivenClient[0]
	names := map[string]*nameState{}
	get := func(n string) *nameState {
		s := names[n]
		if s == nil {
			s = &nameState{}
			names[n] = s
		}
		return s
	}
	creatingDepth := 0
	bad := func(e mon.TraceEv, format string, a ...any) {
		if len(violations) < 10 {
			violations = append(violations, fmt.Sprintf("event %d (%s %s %s): ", e.Seq, e.Phase, e.Op, e.Name)+fmt.Sprintf(format, a...))
		}
	}
	allowOf := map[int]bool{} // call id -> allowEarlyReference of the lookup (recorded on the call event)
	for _, e := range ev {
		if e.Op == "get" && e.Phase == "call" {
			allowOf[e.Call] = e.Allow
		}
	}
	for _, e := range ev {
		s := get(e.Name)
		if e.Op == "get" && e.Phase == "ret" {
			e.Allow = allowOf[e.Call]
		}
		switch e.Op {
		case "create-fn":
			if e.Phase == "call" {
				if creatingDepth > 0 {
					st.nestedCreate++
				}
				creatingDepth++
				if s.state == "published" {
					bad(e, "creation started for a name that is already published")
				}
				if s.depth > 0 {
					bad(e, "a second, nested creation of a name that is already being created (its early reference was not available to the lookup)")
				}
				s.state, s.early, s.earlyRuns, s.hasFactory = "creating", 0, 0, false
				s.depth++
				st.creations++
			} else {
				creatingDepth--
				s.depth--
			}
		case "create":
			if e.Phase != "ret" {
				continue
			}
			if e.Err != "" {
				if s.state == "creating" {
					s.state = "failed"
					st.failures++
				}
				continue
			}
			if s.state == "published" && s.published != e.Meta {
				bad(e, "get-or-create returned instance m%d although m%d was published earlier", e.Meta, s.published)
			}
			if e.Meta == 0 {
				bad(e, "get-or-create returned nil without error")
			}
			if isOriginal != nil && s.state == "creating" && s.early != 0 && e.Meta != s.early && isOriginal(e.Meta) && !isOriginal(s.early) {
				// the lookups during this creation were answered with a version produced by a post-processor; what
				// is published afterwards is that version (or a later one that replaces it) - never the original again
				bad(e, "the creation publishes the component's original (m%d) although its lookups during the creation were answered with the early version m%d: lookups during and after the creation disagree", e.Meta, s.early)
			}
			s.state, s.published = "published", e.Meta
		case "early-fn":
			if e.Phase == "ret" && e.Err == "" {
				s.earlyRuns++
				st.earlyRefs++
				if s.earlyRuns > 1 {
					bad(e, "early-reference factory produced a second reference during one creation")
				}
			}
		case "get":
			if e.Phase != "ret" || e.Err != "" {
				continue
			}
			switch s.state {
			case "published":
				if e.Meta != s.published {
					bad(e, "lookup returned m%d, published instance is m%d", e.Meta, s.published)
				}
			case "creating":
				if e.Meta != 0 {
					st.earlyLookup++
					if s.early == 0 {
						s.early = e.Meta
					} else if s.early != e.Meta {
						bad(e, "two lookups during one creation returned different early references (m%d, then m%d)", s.early, e.Meta)
					}
				} else if s.early != 0 {
					// an early reference was already handed out: every later lookup during this creation must observe it
					bad(e, "lookup (allowEarlyReference=%v) returned nothing although early reference m%d was already handed out during this creation", e.Allow, s.early)
				} else if s.hasFactory && e.Allow && s.depth > 0 {
					// a factory is registered (it may have failed before - then it is simply asked again): a lookup
					// that allows early references ends with a reference or with the factory's error
					bad(e, "lookup with allowEarlyReference returned neither a reference nor an error although an early-reference factory was registered for this creation")
				}
			case "failed":
				st.failureThenLookup++
				if e.Meta != 0 {
					bad(e, "lookup after a failed creation returned instance m%d with a nil error (the half-built attempt is still visible)", e.Meta)
				}
			default:
				if e.Meta != 0 {
					bad(e, "lookup of a name that was never created returned m%d", e.Meta)
				}
			}
		case "increation":
			if e.Phase != "ret" {
				continue
			}
			if e.Bool && (s.state == "published" || s.state == "failed" || s.state == "") && s.depth == 0 {
				bad(e, "name is reported as in creation although its state is %q", s.state)
			}
		case "addfactory":
			if e.Phase == "ret" && s.state == "creating" && s.depth > 0 {
				s.hasFactory = true
			}
		case "add":
			if e.Phase == "ret" {
				// direct publication (not used by the factory itself)
				if s.state != "creating" {
					s.state, s.published = "published", e.Meta
				}
			}
		case "remove":
			if e.Phase == "call" && s.state == "published" && s.depth == 0 && !driven {
				// the container removes singletons on the failure path of their own creation only: a name whose
				// creation completed stays what it is - destroying it makes the next lookup create a second one
				bad(e, "a published singleton (m%d) is removed from the registry: the next lookup would create the component a second time", s.published)
			}
			if e.Phase == "ret" && s.depth == 0 {
				*s = nameState{}
			}
		}
	}
	return
}

// ---------------------------------------------------------------------------------------------
// (1) direct driving of the real registry

type driver struct {
	rng     *rand.Rand
	reg     *mon.RegistryTracer
	names   []string
	stack   []string
	hasFac  map[string]bool
	metas   map[string]*component_definition.Meta
	ops     int
	maxOps  int
	program []string
}

func (d *driver) log(f string, a ...any) {
	if len(d.program) < 60 {
		d.program = append(d.program, fmt.Sprintf(f, a...))
	}
}

func (d *driver) onStack(n string) bool {
	for _, s := range d.stack {
		if s == n {
			return true
		}
	}
	return false
}

func (d *driver) metaFor(name string) *component_definition.Meta {
	n := world.Palette[d.rng.Intn(8)].New()
	n.Core().Name = name
	return component_definition.NewMeta(n)
}

// doGet mimics the factory's doGetComponent.
func (d *driver) doGet(name string) (*component_definition.Meta, error) {
	m, err := d.reg.GetSingleton(name, true)
	if err != nil || m != nil {
		return m, err
	}
	if d.onStack(name) {
		return nil, nil // a protocol-respecting client does not re-enter (no early factory registered)
	}
	return d.create(name)
}

func (d *driver) create(name string) (*component_definition.Meta, error) {
	d.log("create(%s){", name)
	defer d.log("}")
	return d.reg.GetSingletonOrCreateByFactory(name, container.FuncSingletonFactory(func() (*component_definition.Meta, error) {
		d.stack = append(d.stack, name)
		defer func() { d.stack = d.stack[:len(d.stack)-1] }()
		meta := d.metaFor(name)
		early := meta
		var fac container.SingletonFactory
		if d.rng.Intn(4) > 0 {
			failEarly := d.rng.Intn(8) == 0
			failOnce := d.rng.Intn(6) == 0 // a transient fault: the first request fails, the factory is asked again later
			wrapEarly := d.rng.Intn(5) == 0
			d.log("addfactory(%s fail=%v failOnce=%v wrap=%v)", name, failEarly, failOnce, wrapEarly)
			fac = container.FuncSingletonFactory(func() (*component_definition.Meta, error) {
				if failEarly {
					return nil, errors.New("early factory failed")
				}
				if failOnce {
					failOnce = false
					return nil, errors.New("early factory failed (transient)")
				}
				if wrapEarly {
					early = d.metaFor(name)
				}
				return early, nil
			})
			d.reg.AddSingletonFactory(name, fac)
			d.hasFac[name] = true
		}
		k := d.rng.Intn(5)
		if len(d.stack) >= 6 {
			k = d.rng.Intn(2)
		}
		for i := 0; i < k && d.ops < d.maxOps; i++ {
			d.ops++
			switch d.rng.Intn(7) {
			case 6:
				// the factory registers its early-reference factory once more (a second code path that "makes sure" it
				// is registered): whatever was handed out before stays what every lookup observes
				if fac != nil {
					d.log("addfactory-again(%s)", name)
					d.reg.AddSingletonFactory(name, fac)
				}
			case 0, 1: // nested get-or-create
				other := d.names[d.rng.Intn(len(d.names))]
				d.log("doGet(%s)", other)
				_, err := d.doGet(other)
				if err != nil && d.rng.Intn(3) > 0 {
					return nil, err // propagate like the real factory
				}
			case 2: // lookup of self / an ancestor
				t := d.stack[d.rng.Intn(len(d.stack))]
				allow := d.rng.Intn(2) == 0
				d.log("get(%s,%v)", t, allow)
				d.reg.GetSingleton(t, allow)
			case 3:
				t := d.names[d.rng.Intn(len(d.names))]
				allow := d.rng.Intn(2) == 0
				d.log("get(%s,%v)", t, allow)
				d.reg.GetSingleton(t, allow)
			case 4:
				d.reg.IsSingletonCurrentlyInCreation(d.names[d.rng.Intn(len(d.names))])
			case 5:
				d.log("get(%s,true)", name)
				d.reg.GetSingleton(name, true)
			}
		}
		if d.rng.Intn(4) == 0 {
			d.log("fail(%s)", name)
			return nil, errors.New("creation failed: " + name)
		}
		// like the real factory: when an early reference was handed out, publish that one - unless
		// initialization wrapped the component and nobody depends on the early reference (the real factory
		// then publishes the wrapper): every later lookup must see what was published
		if e, _ := d.reg.GetSingleton(name, false); e != nil {
			if d.rng.Intn(5) == 0 {
				d.log("publish-wrapper(%s)", name)
				return d.metaFor(name), nil
			}
			return e, nil
		}
		return meta, nil
	}))
}

// runProgram drives one seeded sequence of top-level operations over the driver's names.
func (d *driver) runProgram(tr *mon.RegistryTracer) (diverged *mon.Divergence) {
	rng := d.rng
	defer func() {
		if r := recover(); r != nil {
			if dv, ok := r.(mon.Divergence); ok {
				diverged = &dv
				return
			}
			panic(r)
		}
	}()
	top := 3 + rng.Intn(8)
	for i := 0; i < top; i++ {
		name := d.names[rng.Intn(len(d.names))]
		switch rng.Intn(6) {
		case 0:
			allow := rng.Intn(2) == 0
			d.log("get(%s,%v)", name, allow)
			tr.GetSingleton(name, allow)
		case 1:
			tr.IsSingletonCurrentlyInCreation(name)
		case 5:
			// get-or-create without a preceding lookup (a second caller that missed in its own lookup
			// before the first one published): allowed by the interface whenever the name is not on the stack
			d.log("create-direct(%s)", name)
			d.create(name)
			tr.IsSingletonCurrentlyInCreation(name)
		default:
			d.log("doGet(%s)", name)
			d.doGet(name)
		}
	}
	// final sweep: every name looked up twice, in-creation queried
	for _, name := range d.names {
		tr.GetSingleton(name, true)
		tr.IsSingletonCurrentlyInCreation(name)
		tr.GetSingleton(name, false)
	}
	return nil
}

func (p c04) driven(c *core.Ctx) {
	if c.Index%10 == 7 {
		p.drivenSideBySide(c)
		return
	}
	inner := support.DefaultSingletonComponentRegistry()
	tr := mon.NewRegistryTracer(inner, 20000)
	d := &driver{rng: c.Rng, reg: tr, hasFac: map[string]bool{}, metas: map[string]*component_definition.Meta{}, maxOps: 60}
	nn := 2 + c.Rng.Intn(7)
	for i := 0; i < nn; i++ {
		d.names = append(d.names, fmt.Sprintf("n%d", i))
	}
	diverged := d.runProgram(tr)
	ev := tr.Events()
	if diverged != nil {
		c.Fail("", "driven history exceeded the step budget: "+diverged.Error(), map[string]any{"program": d.program})
		return
	}
	p.judge(c, ev, "driven", map[string]any{"program": d.program})
}

// drivenSideBySide: several clients (goroutines) drive ONE registry at the same time, each over names of its
// own (lazy components first looked up from several request handlers after the start): every client's
// history obeys the protocol exactly as if it were alone.
func (p c04) drivenSideBySide(c *core.Ctx) {
	inner := support.DefaultSingletonComponentRegistry()
	nG := 2 + c.Rng.Intn(7)
	type client struct {
		d        *driver
		tr       *mon.RegistryTracer
		diverged *mon.Divergence
	}
	clients := make([]*client, nG)
	for g := range clients {
		tr := mon.NewRegistryTracer(inner, 20000)
		d := &driver{rng: rand.New(rand.NewSource(c.Rng.Int63())), reg: tr, hasFac: map[string]bool{}, metas: map[string]*component_definition.Meta{}, maxOps: 60}
		for i := 0; i < 2+c.Rng.Intn(7); i++ {
			d.names = append(d.names, fmt.Sprintf("g%dn%d", g, i))
		}
		clients[g] = &client{d: d, tr: tr}
	}
	var wg sync.WaitGroup
	start := make(chan struct{})
	for _, cl := range clients {
		wg.Add(1)
		go func(cl *client) {
			defer wg.Done()
			<-start
			for round := 0; round < 4 && cl.diverged == nil; round++ {
				cl.diverged = cl.d.runProgram(cl.tr)
			}
		}(cl)
	}
	close(start)
	wg.Wait()
	c.Count("side_by_side_clients", nG)
	for g, cl := range clients {
		if cl.diverged != nil {
			c.Fail("", fmt.Sprintf("client %d of %d driving one registry side by side exceeded the step budget: %s", g, nG, cl.diverged.Error()), map[string]any{"program": cl.d.program})
			return
		}
		p.judge(c, cl.tr.Events(), "driven", map[string]any{"program": cl.d.program, "clients_side_by_side": nG, "client": g})
		if c.Failed() {
			return
		}
	}
}

func (p c04) judge(c *core.Ctx, ev []mon.TraceEv, source string, detail map[string]any, isOriginal ...func(int) bool) {
	var orig func(int) bool
	if len(isOriginal) > 0 {
		orig = isOriginal[0]
	}
	vs, st := checkProtocolWith(ev, orig, source == "driven")
	c.Count("histories_"+source, 1)
	c.Count("registry_events", len(ev))
	c.Count("creations", st.creations)
	c.Count("failed_creations", st.failures)
	c.Count("early_references_produced", st.earlyRefs)
	c.Count("lookups_after_failure", st.failureThenLookup)
	shape := mon.ShapeHash(ev)
	c.Distinct("trace_shapes", shape)
	if st.nestedCreate > 0 && st.earlyLookup > 0 {
		c.Nontrivial(shape)
		if st.failureThenLookup > 0 {
			c.Distinct("nontrivial_with_failure_then_lookup", shape)
		}
	}
	if len(vs) > 0 {
		detail["violations"] = vs
		detail["trace_tail"] = renderTrace(ev, 80)
		class := ""
		for _, v := range vs {
			_ = v
		}
		if allFailedLookup(vs) {
			class = "F-C04-failed-creation-visible"
		}
		c.Fail(class, source+" history: "+vs[0], detail)
		return
	}
	if c.WantSample() && st.nestedCreate > 0 && st.earlyLookup > 0 && st.failureThenLookup > 0 {
		detail["events"] = len(ev)
		detail["trace_head"] = renderTrace(ev, 40)
		c.Sample(detail)
	}
}

func allFailedLookup(vs []string) bool {
	for _, v := range vs {
		if !(containsStr(v, "after a failed creation") || containsStr(v, "reported as in creation although its state is \"failed\"")) {
			return false
		}
	}
	return true
}

func containsStr(s, sub string) bool {
	return len(sub) <= len(s) && (func() bool {
		for i := 0; i+len(sub) <= len(s); i++ {
			if s[i:i+len(sub)] == sub {
				return true
			}
		}
		return false
	})()
}

func renderTrace(ev []mon.TraceEv, n int) []string {
	var out []string
	start := 0
	if len(ev) > n {
		start = len(ev) - n
	}
	for _, e := range ev[start:] {
		if e.Phase == "call" {
			out = append(out, fmt.Sprintf("%d %*s%s(%s allow=%v)", e.Seq, e.Depth*2, "", e.Op, e.Name, e.Allow))
		} else {
			out = append(out, fmt.Sprintf("%d %*s=> %s(%s) m%d err=%q bool=%v", e.Seq, e.Depth*2, "", e.Op, e.Name, e.Meta, e.Err, e.Bool))
		}
	}
	return out
}

// ---------------------------------------------------------------------------------------------
// (2) traced real starts, continued after the start

func (p c04) traced(c *core.Ctx) {
	sc := RandomGraph(c.Rng, GraphOpts{MinN: 2, MaxN: 10, Types: world.TypesAll, PCycle: 0.8, Chords: 2, ByTypeSlice: 0.3, QualSlice: 0.2, PUnnamed: 0.3})
	var extra []any
	var plan map[string]world.SubPlan
	if c.Index%3 != 2 {
		// service-locator style lookups from inside initialization callbacks (the first request for a
		// component's early reference may then arrive while it is being initialised)
		c.Count("init_lookups", AddInitLookups(c.Rng, sc, 0.3))
	}
	if c.Index%3 == 1 {
		// a post-processor that resolves a collaborator through the factory while a component is being
		// instantiated / populated (before or between the container's own steps)
		lp := &world.LookupPP{Plan: map[string]string{}, When: []string{"after-inst", "properties", "before"}[c.Rng.Intn(3)]}
		adj := sc.NamedAdj()
		for i := range sc.Nodes {
			if c.Rng.Intn(3) != 0 {
				continue
			}
			target := c.Rng.Intn(len(sc.Nodes))
			for h := range adj { // preferably a component that wires this one back
				for _, t := range adj[h] {
					if t == i && h != i && c.Rng.Intn(2) == 0 {
						target = h
					}
				}
			}
			lp.Plan[sc.Nodes[i].DisplayName()] = sc.Nodes[target].DisplayName()
		}
		extra = append(extra, lp)
		c.Count("post_processor_lookups", len(lp.Plan))
	}
	if c.Index%3 == 2 {
		// substituting post-processor (early references are wrappers) on an interface-only graph
		sc = RandomGraph(c.Rng, GraphOpts{MinN: 2, MaxN: 7, Types: plainAB, PCycle: 1, Chords: 2, ByTypeSlice: 0.2, OnlyIface: true, PUnnamed: 0.3})
		plan = map[string]world.SubPlan{}
		for x := 0; x < 1+c.Rng.Intn(2); x++ {
			plan[sc.Nodes[c.Rng.Intn(len(sc.Nodes))].DisplayName()] = []world.SubPlan{{Early: true}, {Early: true}, {After: true}, {Early: true, After: true, Same: true}}[c.Rng.Intn(4)]
		}
		extra = append(extra, world.NewSubstituter(plan))
		if c.Rng.Intn(2) == 0 {
			// ... with lookups from inside initialization callbacks: the early version may be asked for first while
			// the component is being initialised
			c.Count("init_lookups", AddInitLookups(c.Rng, sc, 0.3))
		}
	}
	// inject faults: init / aps failures in some components (lazy ones are only hit by the later lookups);
	// half of them transient (fail on the first invocation only), so that a later lookup re-attempts
	// the creation successfully
	transient := false
	for i := range sc.Nodes {
		ti := world.Palette[sc.Nodes[i].Type]
		if c.Rng.Intn(4) == 0 {
			kind := ""
			if ti.Init && c.Rng.Intn(2) == 0 {
				kind = "init"
			} else if ti.Aps {
				kind = "aps"
			}
			if kind == "" {
				continue
			}
			if c.Rng.Intn(2) == 0 {
				sc.Nodes[i].FailOnce = append(sc.Nodes[i].FailOnce, kind)
				transient = true
			} else {
				sc.Nodes[i].Fails = append(sc.Nodes[i].Fails, kind)
			}
		}
	}
	// a smart post-processor whose early-reference callback fails for one component, answering (nil, err):
	// the creation that asked for the early reference fails - the raw component is not handed out instead
	earlyFault := ""
	if plan == nil && c.Rng.Intn(5) == 0 {
		earlyFault = sc.Nodes[c.Rng.Intn(len(sc.Nodes))].DisplayName()
		fp := world.NewPP(c.Rng.Intn(4), "early-guard", c.Rng.Intn(5)-2)
		world.PPCoreOf(fp).FailOn["early:"+earlyFault] = true
		world.PPCoreOf(fp).NilOnFail = c.Rng.Intn(2) == 0
		extra = append(extra, fp)
	}
	r := world.Start(sc, world.Options{Extra: extra})
	if abnormal(r.Outcome()) {
		c.Count("abnormal_starts_skipped", 1)
		return
	}
	if earlyFault != "" {
		hits, depth := 0, 0
		for _, e := range r.Log.Events() {
			switch {
			case e.Kind == "lookup":
				depth++
			case e.Kind == "lookup-end" && depth > 0:
				depth--
			case e.Kind == "pp-early" && e.Who == earlyFault && e.By == "early-guard" && depth == 0:
				hits++ // (inside a lookup issued by user code the error goes to that code, which may swallow it)
			}
		}
		if hits > 0 {
			c.Count("failing_early_reference_callbacks_reached", 1)
			if r.Outcome() == "ok" && !world.Palette[sc.Nodes[mustIndex(sc, earlyFault)].Type].Lazy {
				c.Fail("", fmt.Sprintf("the early-reference callback of a post-processor reported an error for %q, yet the start succeeded (the early reference handed out instead is that of a creation that should have failed)", earlyFault), failDetail(sc, r, nil))
				return
			}
		}
	}
	r.Tracer.ResetBudget(200000)
	lookupErr := map[string]bool{}
	for round := 0; round < 3; round++ {
		for i := range sc.Nodes {
			name := sc.Nodes[i].DisplayName()
			var err error
			r.Guard(func() { _, err = r.UserLookup(name) })
			if r.Panic != nil || r.Diverge != nil {
				c.Fail("", "lookup after the start: "+r.OutcomeDetail(), failDetail(sc, r, nil))
				return
			}
			lookupErr[name] = err != nil
			if err == nil {
				// a component whose initialization callback reported an error (a permanent fault: it does so every
				// time) was not created: a lookup that returns it without an error hands out the half-built instance
				for _, k := range sc.Nodes[i].Fails {
					if (k == "init" || k == "aps") && countEvents(r, k, name) > 0 {
						c.Fail("", fmt.Sprintf("lookup of %q returned an instance with a nil error although its %s callback reported an error in every creation attempt", name, map[string]string{"init": "Init", "aps": "AfterPropertiesSet"}[k]),
							failDetail(sc, r, map[string]any{"events": renderEvents(r.Log.Events(), 80)}))
						return
					}
				}
			}
		}
	}
	c.Count("start_outcome_"+r.Outcome(), 1)
	metas := r.Tracer.Metas
	p.judge(c, r.Tracer.Events(), "traced", failDetail(sc, r, map[string]any{"plan": plan}), func(id int) bool {
		return id >= 1 && id <= len(metas) && metas[id-1] != nil && metas[id-1].ProxyMeta == nil
	})
	if c.Failed() {
		return
	}
	// nothing of a failed attempt stays visible: once every component could be looked up successfully
	// (permanent faults excluded), the wiring must be exactly what a clean creation gives - per point
	// against the model (in particular every slice element exactly once).
	for _, bad := range lookupErr {
		if bad {
			return
		}
	}
	if !transient && (plan == nil || r.Outcome() != "ok") {
		return
	}
	if !transient {
		// (no creation failed anywhere in this history: what a dependent keeps from a failed attempt is the subject of
		// the recorded findings on failed attempts, not of this clause)
		for _, e := range r.Tracer.Events() {
			if e.Op == "create-fn" && e.Phase == "ret" && e.Err != "" {
				return
			}
		}
	}
	// (with a substituting post-processor also without faults: what a creation handed out as its early reference -
	// to single points and to every element position of a slice - and what it publishes is one thing)
	pop := world.Describe(r.Population())
	points := r.NodePoints(pop)
	var ps []string
	if plan == nil { // with wrappers only identity is judged (a wrapper of the holder is not "the holder itself")
		for _, cmp := range r.CheckWiring(pop, points) {
			ps = append(ps, cmp.Kind+": "+cmp.Msg)
		}
	}
	for _, q := range r.CheckIdentity(pop) {
		if strings.HasPrefix(q, world.LookupMismatch) {
			// what user code retained from a lookup it issued during an attempt that failed afterwards is C01's
			// subject (and its known finding); here the holders and the registry's answers are judged
			continue
		}
		ps = append(ps, q)
	}
	if transient {
		c.Count("recreated_after_transient_failure_checked", 1)
	} else {
		c.Count("substituted_starts_identity_checked", 1)
		if len(ps) > 0 {
			c.Fail("", "early reference and published version of one creation differ among the holders: "+ps[0], failDetail(sc, r, map[string]any{"problems": ps, "substitution_plan": plan}))
			return
		}
	}
	if len(ps) > 0 {
		class := ""
		if plan != nil && earlyRefOfFailedAttemptEscaped(r.Tracer.Events(), r.Outcome() == "error") {
			class = "F-C04-early-wrapper-of-failed-attempt"
		}
		c.Fail(class, "after a creation that failed once and was re-attempted successfully: "+ps[0], failDetail(sc, r, map[string]any{"problems": ps, "substitution_plan": plan}))
	}
}

// earlyRefOfFailedAttemptEscaped: input/history classifier for the known finding: some creation
// handed out an early reference (early-fn returned one) and then failed, while another creation that
// started inside it completed successfully (a dependent that may have captured the early reference) -
// and the failure was delivered to user code: it happened inside a lookup issued by user code (marked
// in the trace), or runFailed says that App.Run itself returned the error. A failure that the
// container swallowed on its own is not in the class.
func earlyRefOfFailedAttemptEscaped(ev []mon.TraceEv, runFailed ...bool) bool {
	type frame struct {
		name      string
		early     bool
		completed bool // some nested creation completed successfully
		inUser    bool
	}
	delivered := len(runFailed) > 0 && runFailed[0]
	var stack []*frame
	userDepth := 0
	for _, e := range ev {
		switch {
		case e.Op == "user-lookup":
			if e.Phase == "call" {
				userDepth++
			} else if userDepth > 0 {
				userDepth--
			}
		case e.Op == "create-fn" && e.Phase == "call":
			stack = append(stack, &frame{name: e.Name, inUser: userDepth > 0})
		case e.Op == "early-fn" && e.Phase == "ret" && e.Err == "":
			for _, f := range stack {
				if f.name == e.Name {
					f.early = true
				}
			}
		case e.Op == "create-fn" && e.Phase == "ret":
			if len(stack) == 0 {
				continue
			}
			top := stack[len(stack)-1]
			stack = stack[:len(stack)-1]
			if e.Err != "" {
				if top.early && top.completed && (top.inUser || delivered) {
					return true
				}
			} else {
				for _, f := range stack {
					f.completed = true
				}
			}
		}
	}
	return false
}

func mustIndex(sc *world.Scenario, name string) int {
	i, _ := nodeNamed(sc, name)
	if i < 0 {
		return 0
	}
	return i
}
