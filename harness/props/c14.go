package props

import (
	"fmt"
	"github.com/go-kid/ioc/configure"
	"github.com/go-kid/ioc/configure/loader"
	"github.com/go-kid/ioc/container/processors"

	"github.com/go-kid/ioc"
	"github.com/go-kid/ioc/app"
	"github.com/go-kid/ioc/container/support"
	"runtime"
	"sync"
	"time"
	"verifharness/mon"

	"verifharness/core"
	"verifharness/world"
)

// C14 Close reaches every closer exactly once and waits for all of them.
type c14 struct{}

func init() { core.Register(c14{}) }

func (c14) ID() string    { return "C14" }
func (c14) Level() string { return "exploration" }
func (c14) Rule() string {
	return "seeded starts with 0..40 (in a twelfth of the cases 50..89) closer components (plain, lazy, runner+closer, with dependencies) among other components; a seeded subset returns errors (all subsets for <= 4 closers across the case list), a seeded subset returns instantly, the rest block on a gate inside their own Close method: a controller releases them in a seeded order only once every gated closer has begun; if the number of closers that have begun does not move during 2 million scheduler yields and 3 s, the closers are declared stalled (slow closers prevented the others from being invoked) and everything is released. Oracle, sampled immediately after App.Close returns from the shared event log: every closer has exactly one close-begin and exactly one close-end event; afterwards (all gates released) still exactly one each. The same workload is repeated on a -race build; any race report with a go-kid/ioc frame is a violation. non-trivial = >= 2 gated closers with at least one failing or instant one; distinct = closer multiset + observed finishing order; closers that wire the application itself (names on both sides of it) and closers that are lazy post-processors take part; all workers run with the repository's own logger; typed-nil closer errors; every third case calls App.Close a second time; App.Close after a failed runner; race build: every second case without gates; closers exposed through decorators (a post-processor wraps each after its initialisation or as early reference); a Close before the start in every seventh case; a destruction-aware post-processor uninterested in the closers; topLevel family (application started through the package-level ioc.Run with its own registry, closers announced through ioc.Register and passed directly); a decorator-style closer embedding the closer interface; applications with 50..89 closers; the exported by-type resolver registered next to the default one; ownConfigure family (an application-supplied configure with a Close of its own that is a component as well)"
}
func (c14) Assumptions() []string {
	return []string{"gates live inside harness-supplied Close methods (caller code), so no failpoint in the repository is needed to overlap the concurrent Close calls"}
}
func (c14) NumCases(tier string) int      { return tierN(tier, 400, 60000) }
func (c14) NumRaceCases(tier string) int  { return tierN(tier, 60, 3000) }
func (c14) MinNontrivial(tier string) int { return tierN(tier, 100, 1000) }

type closeGate struct {
	mu       sync.Mutex
	expected int
	arrived  int
	all      chan struct{}
	rel      map[string]chan struct{}
	instant  map[string]bool
}

func (g *closeGate) fn(who world.Node) {
	name := who.DisplayName()
	if g.instant[name] {
		return
	}
	g.mu.Lock()
	g.arrived++
	if g.arrived == g.expected {
		close(g.all)
	}
	ch := g.rel[name]
	g.mu.Unlock()
	<-ch
}

func (p c14) Run(c *core.Ctx)     { p.run(c) }
func (p c14) RunRace(c *core.Ctx) { p.run(c) }

// topLevel: the application is started through the package-level ioc.Run with a registry of its own, some
// closers were announced through ioc.Register (the idiom for packages that register from init()), others are
// passed to Run: all of them are registered closers, Close reaches each exactly once.
// (ioc.Register accumulates process-wide: every announced closer stays announced for later starts of the same
// process and logs to its own case's log; names are unique per case.)
func (p c14) topLevel(c *core.Ctx) {
	log := mon.NewLifecycle()
	var names []string
	var announced, direct []any
	for i := 0; i < 1+c.Rng.Intn(3); i++ {
		t := &world.TopCloser{Nm: fmt.Sprintf("announced-closer-%d-%d-%v", c.Index, i, c.Race), Log: log, Fail: c.Rng.Intn(3) == 0}
		announced = append(announced, t)
		names = append(names, t.Nm)
	}
	for i := 0; i < c.Rng.Intn(3); i++ {
		t := &world.TopCloser{Nm: fmt.Sprintf("direct-closer-%d-%d-%v", c.Index, i, c.Race), Log: log, Fail: c.Rng.Intn(3) == 0}
		direct = append(direct, t)
		names = append(names, t.Nm)
	}
	ioc.Register(announced...)
	ops := []app.SettingOption{app.SetLogger(world.Logger), app.SetComponents(direct...)}
	own := app.SetRegistry(support.NewRegistry())
	if c.Rng.Intn(3) > 0 {
		// (the registry option precedes the components passed to Run: options apply in the order given)
		ops = append([]app.SettingOption{own}, ops...)
	}
	var a *app.App
	var err error
	var pan any
	func() {
		defer func() { pan = recover() }()
		a, err = ioc.Run(ops...)
		if err == nil {
			a.Close()
		}
	}()
	c.Count("starts", 1)
	c.Count("starts_through_the_package_level_run", 1)
	if pan != nil || err != nil {
		c.Fail("", fmt.Sprintf("application started through ioc.Run with announced closers: panic=%v err=%v", pan, err), map[string]any{"closers": names})
		return
	}
	ev := log.Events()
	for _, name := range names {
		b, e := 0, 0
		for _, x := range ev {
			if x.Who == name && x.Kind == "close-begin" {
				b++
			}
			if x.Who == name && x.Kind == "close-end" {
				e++
			}
		}
		if b != 1 || e != 1 {
			c.Fail("", fmt.Sprintf("application started through ioc.Run (%d closers announced through ioc.Register, %d passed to Run): after App.Close closer %s has begun %d time(s) and finished %d time(s)", len(announced), len(direct), name, b, e), map[string]any{"closers": names, "events": fmt.Sprint(ev)})
			return
		}
	}
	c.Count("closers_checked", len(names))
}

// ownConfigure: the application is given a configure of its own that releases a resource in Close and - in most
// cases - is registered as a component as well (other closers wire it): a registered one is closed exactly once like
// every other closer, an unregistered one is no closer component (at most once).
func (p c14) ownConfigure(c *core.Ctx) {
	log := mon.NewLifecycle()
	cfg := &world.ClosingConfigure{Configure: configure.Default(), Nm: "own-configure", Log: log}
	registered := c.Rng.Intn(4) != 0
	var comps []any
	var names []string
	if registered {
		comps = append(comps, cfg)
		names = append(names, cfg.Nm)
	}
	for i, n := 0, c.Rng.Intn(4); i < n; i++ {
		t := &world.TopCloser{Nm: fmt.Sprintf("own-closer-%d", i), Log: log, Fail: c.Rng.Intn(3) == 0}
		comps = append(comps, t)
		names = append(names, t.Nm)
	}
	var subs []*world.ConfigSubscriber
	for i, n := 0, c.Rng.Intn(3); i < n; i++ {
		t := &world.ConfigSubscriber{TopCloser: world.TopCloser{Nm: fmt.Sprintf("own-subscriber-%d", i), Log: log}}
		comps = append(comps, t)
		subs = append(subs, t)
		names = append(names, t.Nm)
	}
	c.Rng.Shuffle(len(comps), func(a, b int) { comps[a], comps[b] = comps[b], comps[a] })
	ops := []app.SettingOption{app.SetLogger(world.Logger), app.SetConfigure(cfg), app.SetConfigLoader(loader.NewRawLoader([]byte("own:\n  v: configured\n"))), app.SetComponents(comps...)}
	var err error
	var pan any
	a := app.NewApp()
	func() {
		defer func() { pan = recover() }()
		if err = a.Run(ops...); err == nil {
			a.Close()
		}
	}()
	c.Count("starts", 1)
	c.Count("starts_with_a_closing_configure_of_their_own", 1)
	detail := map[string]any{"closers": names, "configure_registered_as_component": registered, "events": fmt.Sprint(log.Events())}
	if pan != nil || err != nil {
		c.Fail("", fmt.Sprintf("application with a configure of its own: panic=%v err=%v", pan, err), detail)
		return
	}
	for _, s := range subs {
		if s.V != "configured" || (registered && s.Source != cfg) {
			c.Fail("", fmt.Sprintf("application with a configure of its own: subscriber %s has V=%q Source=%p", s.Nm, s.V, s.Source), detail)
			return
		}
	}
	count := func(name, kind string) (n int) {
		for _, x := range log.Events() {
			if x.Who == name && x.Kind == kind {
				n++
			}
		}
		return
	}
	for _, name := range names {
		if b, e := count(name, "close-begin"), count(name, "close-end"); b != 1 || e != 1 {
			c.Fail("", fmt.Sprintf("application with a configure of its own (registered as a component: %v): after App.Close closer %s has begun %d time(s) and finished %d time(s)", registered, name, b, e), detail)
			return
		}
	}
	if b := count(cfg.Nm, "close-begin"); !registered && b > 1 {
		c.Fail("", fmt.Sprintf("the application's configure was closed %d times by one App.Close", b), detail)
		return
	}
	c.Count("closers_checked", len(names))
	c.Nontrivial(fmt.Sprint("ownconfigure|", registered, len(names)))
}

func (p c14) run(c *core.Ctx) {
	if c.Index%40 == 31 {
		p.ownConfigure(c)
		return
	}
	if c.Index%40 == 23 {
		p.topLevel(c)
		return
	}
	sc := RandomGraph(c.Rng, GraphOpts{MinN: 0, MaxN: 6, Types: world.TypesPlain, PCycle: 0.3, Chords: 1, PUnnamed: 0.3})
	g := &world.G{Rng: c.Rng, Sc: sc}
	nOther := len(sc.Nodes)
	nc := c.Rng.Intn(41)
	switch c.Rng.Intn(4) {
	case 0:
		nc = c.Rng.Intn(5)
	case 1:
		nc = c.Index % 5
	case 2:
		if c.Index%3 == 0 {
			nc = 50 + c.Rng.Intn(40) // a large application: well over 64 registered components
		}
	}
	var closers []int
	appDependent := 0
	for i := 0; i < nc; i++ {
		k := g.AddRandomNode(world.TypesCloser, 0.1)
		closers = append(closers, k)
		if nOther > 0 && c.Rng.Intn(3) == 0 {
			g.EdgeByName(k, c.Rng.Intn(nOther), "")
		}
		// a closer that needs the application itself (as its configuration source, say): depending on
		// how its name sorts it is created before the application - which then collects its closers
		// while this one is still being created - or after it
		if c.Rng.Intn(4) == 0 {
			g.SetTag(k, "Any1", "wire", "github.com/go-kid/ioc/app/App")
			appDependent++
		}
	}
	gate := &closeGate{all: make(chan struct{}), rel: map[string]chan struct{}{}, instant: map[string]bool{}}
	failing, instant := 0, 0
	var typedNil []int // closers whose failing Close returns a typed nil pointer as error
	for x, k := range closers {
		name := sc.Nodes[k].DisplayName()
		fails := c.Rng.Intn(3) == 0
		if nc <= 4 { // all error subsets across the case list
			fails = (c.Index/5)&(1<<x) != 0
		}
		if fails {
			sc.Nodes[k].Fails = append(sc.Nodes[k].Fails, "close")
			failing++
			if c.Rng.Intn(5) == 0 {
				typedNil = append(typedNil, k)
			}
		}
		// (on the race build every second case runs all closers without gates: the gates' channels and mutex
		// order every closing goroutine after the whole launching loop and would hide a race between the two)
		if c.Rng.Intn(4) == 0 || (c.Race && c.Index%2 == 1) {
			gate.instant[name] = true
			instant++
		} else {
			gate.rel[name] = make(chan struct{})
			gate.expected++
		}
	}
	if gate.expected == 0 {
		close(gate.all)
	}
	// in a fifth of the cases a runner fails: Run returns an error after every closer has been created
	failedRunner := c.Rng.Intn(5) == 0
	if failedRunner {
		k := g.AddNode([]int{17, 19, 30}[c.Rng.Intn(3)], g.FreshName(len(sc.Nodes))) // runner types without Init/Close
		sc.Nodes[k].Fails = []string{"run"}
	}
	g.ShuffleOrders()
	// stateless (zero-size) closer components: distinct components although their addresses may coincide
	var zero []any
	var zeroNames []string
	if c.Rng.Intn(3) == 0 {
		all := []any{&world.ZeroCloserA{}, &world.ZeroCloserB{}, &world.ZeroCloserC{}}
		names := []string{"zero-closer-a", "zero-closer-b", "zero-closer-c"}
		k := 2 + c.Rng.Intn(2)
		zero, zeroNames = all[:k], names[:k]
	}
	// closers that are (lazy) post-processors at the same time
	if c.Rng.Intn(3) == 0 {
		zero = append(zero, &world.ClosingPP{Nm: "closing-pp"})
		zeroNames = append(zeroNames, "closing-pp")
		if c.Rng.Intn(2) == 0 {
			zero = append(zero, world.NewClosingTagPP("closing-tag-pp"))
			zeroNames = append(zeroNames, "closing-tag-pp")
		}
		c.Count("closers_that_are_post_processors", 1)
	}
	// a few cases hold the gates for seconds: Close must keep waiting however long a closer takes
	hold := time.Duration(0)
	if c.Index%200 == 199 && c.Index < 2000 && gate.expected > 0 {
		hold = 4 * time.Second
	}
	// a decorator-style closer that embeds the closer interface it decorates (wired by name) and has a Close of
	// its own, named before or after the application: both it and the decorated closer are closed once
	if c.Rng.Intn(5) == 0 {
		dn := []string{"aa-caching-closer", "zz-caching-closer"}[c.Rng.Intn(2)]
		zero = append(zero, &world.TopCloser{Nm: "inner-closer"}, &world.CachingCloser{Nm: dn})
		zeroNames = append(zeroNames, "inner-closer", dn)
		c.Count("decorator_style_closers_embedding_the_closer_interface", 1)
	}
	// a destruction-aware post-processor that is interested in none of the closers: they are closed all the same
	if c.Rng.Intn(4) == 0 {
		zero = append(zero, &world.DestructionPP{})
		c.Count("starts_with_a_destruction_aware_post_processor", 1)
	}
	// in a fifth of the cases a post-processor exposes (some of) the closers through decorators - a wrapper
	// around each that forwards Close: a decorated closer is still a closer
	if c.Rng.Intn(5) == 0 && nc > 0 {
		var names []string
		for _, k := range closers {
			if c.Rng.Intn(3) != 0 {
				names = append(names, sc.Nodes[k].DisplayName())
			}
		}
		zero = append(zero, world.NewDecorator(names...))
		c.Count("closers_exposed_through_decorators", len(names))
	}
	if c.Rng.Intn(6) == 0 {
		// the library's exported by-type resolver registered next to the default one: every closer is still closed once
		zero = append(zero, processors.NewDependencyTypeAwarePostProcessors())
		c.Count("starts_with_the_exported_by_type_resolver_registered_too", 1)
	}
	r := world.Build(sc, world.Options{Extra: zero})
	world.SetZeroLog(r.Log)
	for _, k := range closers {
		r.Nodes[k].Core().CloseFn = gate.fn
	}
	for _, k := range typedNil {
		r.Nodes[k].Core().TypedNilErr = true
	}
	c.Count("closers_failing_with_a_typed_nil_error", len(typedNil))
	if c.Index%7 == 3 {
		// a Close issued before the application was started (a supervisor's "stop, then start"; a shutdown hook
		// firing early): there is nothing to close yet - and it settles nothing about the Close after the start
		r.Guard(func() { r.App.Close() })
		if r.Panic != nil {
			c.Fail("", fmt.Sprintf("App.Close on a not yet started application panicked: %v", r.Panic), failDetail(sc, r, nil))
			return
		}
		if n := r.Log.Len(); n != 0 {
			c.Fail("", fmt.Sprintf("App.Close on a not yet started application produced %d lifecycle events", n), failDetail(sc, r, nil))
			return
		}
		c.Count("cases_with_a_close_before_the_start", 1)
	}
	r.Go()
	c.Count("starts", 1)
	if failedRunner {
		// start-up was aborted by a failing runner: the caller releases what was created with App.Close
		if r.Outcome() != "error" {
			c.Fail("", "a runner failed but the start outcome is "+r.Outcome(), failDetail(sc, r, nil))
			return
		}
		c.Count("closes_after_a_failed_runner", 1)
	} else if r.Outcome() != "ok" {
		c.Fail("", "start did not succeed: "+core.Short(r.OutcomeDetail(), 300), failDetail(sc, r, nil))
		return
	}
	// controller
	relOrder := c.Rng.Perm(len(closers))
	yield := make([]int, len(closers))
	for i := range yield {
		yield[i] = c.Rng.Intn(3)
	}
	ctlDone := make(chan struct{})
	fellBack := false
	stalledAt := -1
	go func() {
		defer close(ctlDone)
		// Wait until every gated closer has begun. Progress is watched in scheduler yields (logical
		// steps): only when the arrival count has not moved for 2 million yields AND at least 3 s have
		// passed are the closers that did not begin declared "not invoked while others are slow".
		last, idle := -1, 0
		t0 := time.Now()
	wait:
		for {
			select {
			case <-gate.all:
				break wait
			default:
			}
			gate.mu.Lock()
			a := gate.arrived
			gate.mu.Unlock()
			if a != last {
				last, idle, t0 = a, 0, time.Now()
			}
			idle++
			if idle > 2000000 && time.Since(t0) > 3*time.Second {
				fellBack, stalledAt = true, a
				break wait
			}
			if idle%1000 == 0 {
				time.Sleep(50 * time.Microsecond)
			} else {
				runtime.Gosched()
			}
		}
		if hold > 0 && !fellBack {
			time.Sleep(hold) // every gated closer is inside its Close method and stays there for a while
		}
		for x, i := range relOrder {
			name := sc.Nodes[closers[i]].DisplayName()
			if ch, ok := gate.rel[name]; ok {
				close(ch)
				switch yield[x] {
				case 1:
					runtime.Gosched()
				case 2:
					time.Sleep(20 * time.Microsecond)
				}
			}
		}
	}()
	before := r.Log.Len()
	r.Guard(func() { r.App.Close() })
	sample := r.Log.Events()[before:] // sampled immediately after Close returned
	<-ctlDone
	if r.Panic != nil {
		c.Fail("", fmt.Sprintf("App.Close panicked: %v", r.Panic), failDetail(sc, r, nil))
		return
	}
	if fellBack {
		c.Count("stalled_closes", 1)
		c.Fail("", fmt.Sprintf("only %d of %d blocking closers were invoked: while they were merely slow (waiting), App.Close made no progress invoking the remaining closers (no arrival during 2 million scheduler yields and 3 s)", stalledAt, gate.expected),
			failDetail(sc, r, map[string]any{"closers": nc, "gated": gate.expected}))
		return
	}
	count := func(evs []eventLite, kind, who string) int {
		n := 0
		for _, e := range evs {
			if e.kind == kind && e.who == who {
				n++
			}
		}
		return n
	}
	toLite := func() []eventLite {
		var out []eventLite
		for _, e := range sample {
			out = append(out, eventLite{e.Kind, e.Who})
		}
		return out
	}
	evs := toLite()
	var finish []string
	for _, e := range evs {
		if e.kind == "close-end" {
			finish = append(finish, e.who)
		}
	}
	var allNames []string
	for _, k := range closers {
		allNames = append(allNames, sc.Nodes[k].DisplayName())
	}
	allNames = append(allNames, zeroNames...)
	if hold > 0 {
		c.Count("cases_with_closers_held_for_seconds", 1)
	}
	c.Count("stateless_or_post_processor_closers", len(zeroNames))
	for _, name := range allNames {
		b, e := count(evs, "close-begin", name), count(evs, "close-end", name)
		if b != 1 || e != 1 {
			c.Fail("", fmt.Sprintf("immediately after App.Close returned, closer %s has begun %d time(s) and finished %d time(s) (closers=%d, failing=%d, instant=%d)", name, b, e, nc, failing, instant),
				failDetail(sc, r, map[string]any{"events_at_return": fmt.Sprint(evs), "fallback_release_used": fellBack}))
			return
		}
	}
	// late events (after everything was released) must not add anything
	time.Sleep(200 * time.Microsecond)
	if extra := r.Log.Len() - before - len(sample); extra != 0 {
		c.Fail("", fmt.Sprintf("%d close event(s) were logged after App.Close had returned", extra), failDetail(sc, r, nil))
		return
	}
	// App.Close called again (a deferred Close after a signal handler already closed, say): the statement
	// is about every call - each closer is invoked once more and the call waits for all of them
	if c.Index%3 == 0 {
		before2 := r.Log.Len()
		r.Guard(func() { r.App.Close() })
		if r.Panic != nil {
			c.Fail("", fmt.Sprintf("second App.Close panicked: %v", r.Panic), failDetail(sc, r, nil))
			return
		}
		var evs2 []eventLite
		for _, e := range r.Log.Events()[before2:] {
			evs2 = append(evs2, eventLite{e.Kind, e.Who})
		}
		for _, name := range allNames {
			b, e := count(evs2, "close-begin", name), count(evs2, "close-end", name)
			if b != 1 || e != 1 {
				c.Fail("", fmt.Sprintf("second call of App.Close: immediately after it returned, closer %s has begun %d time(s) and finished %d time(s) during that call", name, b, e),
					failDetail(sc, r, map[string]any{"events_of_second_call": fmt.Sprint(evs2)}))
				return
			}
		}
		c.Count("second_close_calls_checked", 1)
	}
	c.Count("closers_checked", nc)
	c.Count("closers_depending_on_the_application", appDependent)
	c.Count("failing_closers", failing)
	c.Distinct("finishing_orders", fmt.Sprint(finish))
	if gate.expected >= 2 && (failing > 0 || instant > 0) {
		c.Nontrivial(fmt.Sprintf("%d/%d/%d/%v", nc, failing, instant, finish))
		if c.WantSample() {
			c.Sample(map[string]any{"closers": nc, "failing": failing, "instant": instant, "gated": gate.expected, "finishing_order": finish, "race_build": c.Race})
		}
	}
}

type eventLite struct{ kind, who string }
