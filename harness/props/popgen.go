package props

import (
	"fmt"
	"math/rand"
	"reflect"
	"sort"
	"strings"

	"verifharness/world"
)

// Population / consumer generators shared by C06, C07, C08, C10.

type PopOpts struct {
	MinP, MaxP int
	Types      []int
	PUnnamed   float64
}

var kindPool = []string{"ka", "kb", "kc"}

func RandomPopulation(rng *rand.Rand, o PopOpts) *world.G {
	g := world.NewG(rng)
	n := o.MinP + rng.Intn(o.MaxP-o.MinP+1)
	for i := 0; i < n; i++ {
		k := g.AddRandomNode(o.Types, o.PUnnamed)
		ti := world.Palette[g.Sc.Nodes[k].Type]
		if ti.Qualifier && rng.Intn(4) > 0 {
			g.Sc.Nodes[k].Qual = qualPool[rng.Intn(len(qualPool))]
		}
		if ti.Kind {
			g.Sc.Nodes[k].Kind = kindPool[rng.Intn(len(kindPool))]
		}
		g.Sc.Nodes[k].Ord = rng.Intn(9) - 4
	}
	return g
}

type TagMix struct {
	ByType, Func       float64 // relative weights of wire-by-type and func tags
	ByName             float64 // weight of wire-by-name (present names)
	ByNameAbsent       float64 // weight of wire-by-name with an absent name
	ByNameIncompatible float64 // weight of wire-by-name with a present but unassignable component
	PQualifier         float64 // probability of a qualifier argument
	POptional          float64
}

func randQualifierArg(rng *rand.Rand) string {
	switch rng.Intn(8) {
	case 6:
		return ",qualifier=" // explicit empty assignment: the requested set is {""} as well
	case 7:
		return ",qualifier= " + qualPool[rng.Intn(len(qualPool))] // the empty group plus one more
	case 0:
		return ",qualifier" // bare: the requested set is {""}
	case 1:
		return ",qualifier=" + qualPool[rng.Intn(len(qualPool))] + " " + qualPool[rng.Intn(len(qualPool))]
	case 2:
		return ",Qualifier=" + qualPool[rng.Intn(len(qualPool))]
	case 3:
		return ",qualifier=nosuch"
	default:
		return ",qualifier=" + qualPool[rng.Intn(len(qualPool))]
	}
}

// randTagFor picks a tag for a field of the given type. names: display names of the palette
// nodes with their types (for by-name tags).
func randTagFor(rng *rand.Rand, ft reflect.Type, sc *world.Scenario, mix TagMix) (tag, val string) {
	isSlice := ft.Kind() == reflect.Slice
	elem := ft
	if isSlice {
		elem = ft.Elem()
	}
	w := []float64{mix.ByType, mix.Func, mix.ByName, mix.ByNameAbsent, mix.ByNameIncompatible}
	if isSlice {
		w[2], w[3], w[4] = 0, 0, 0
	}
	tot := 0.0
	for _, x := range w {
		tot += x
	}
	x := rng.Float64() * tot
	choice := 0
	for i, wi := range w {
		if x < wi {
			choice = i
			break
		}
		x -= wi
	}
	args := ""
	if rng.Float64() < mix.PQualifier {
		args += randQualifierArg(rng)
	}
	if rng.Float64() < mix.POptional {
		if rng.Intn(2) == 0 {
			args += ",required=false"
		} else {
			args += ",Required=false"
		}
	} else if rng.Intn(10) == 0 {
		args += ",required=true"
	}
	nameOf := func(pred func(t reflect.Type) bool) (string, bool) {
		var opts []string
		for i := range sc.Nodes {
			t := reflect.TypeOf(world.Palette[sc.Nodes[i].Type].New())
			if pred(t) {
				opts = append(opts, sc.Nodes[i].DisplayName())
			}
		}
		if len(opts) == 0 {
			return "", false
		}
		return opts[rng.Intn(len(opts))], true
	}
	switch choice {
	case 1:
		switch rng.Intn(5) {
		case 0:
			return "func", "Mark" + args
		case 1:
			return "func", "Kind,returns=*" + args
		case 2:
			return "func", "Kind,returns=" + kindPool[rng.Intn(len(kindPool))] + " " + kindPool[rng.Intn(len(kindPool))] + args
		case 3:
			return "func", "Nosuch" + args
		default:
			return "func", "Kind,returns=" + kindPool[rng.Intn(len(kindPool))] + args
		}
	case 2:
		if n, ok := nameOf(func(t reflect.Type) bool { return t.AssignableTo(elem) }); ok {
			return "wire", n + args
		}
		return "wire", args
	case 3:
		if rng.Intn(3) == 0 {
			// an absent name that looks familiar: the default (package/type) name of a type whose instances
			// all carry custom names - nothing is registered under it
			named, unnamed := map[int]bool{}, map[int]bool{}
			for i := range sc.Nodes {
				if sc.Nodes[i].Name == "" {
					unnamed[sc.Nodes[i].Type] = true
				} else {
					named[sc.Nodes[i].Type] = true
				}
			}
			var opts []string
			for t := range named {
				if !unnamed[t] {
					opts = append(opts, world.Palette[t].DefaultName)
				}
			}
			sort.Strings(opts)
			if len(opts) > 0 {
				return "wire", opts[rng.Intn(len(opts))] + args
			}
		}
		return "wire", "absent-name-" + fmt.Sprint(rng.Intn(5)) + args
	case 4:
		if n, ok := nameOf(func(t reflect.Type) bool { return !t.AssignableTo(elem) }); ok {
			return "wire", n + args
		}
		return "wire", "absent-name" + args
	}
	if rng.Intn(7) == 0 {
		// the name comes from a placeholder whose key is not configured and whose default is empty: the
		// point is then processed as if written with an empty name, i.e. it is a by-type point
		return "wire", "${nosuchkey.name:}" + args
	}
	return "wire", args
}

var slotsType = reflect.TypeOf(world.Slots{})

// AddRandomPoints gives node i between lo and hi tagged slots.
func AddRandomPoints(g *world.G, i, lo, hi int, mix TagMix, slotPred func(world.SlotInfo) bool) {
	k := lo + g.Rng.Intn(hi-lo+1)
	for x := 0; x < k; x++ {
		free := g.FreeSlots(i, func(si world.SlotInfo) bool { return slotPred == nil || slotPred(si) })
		if len(free) == 0 {
			return
		}
		s := free[g.Rng.Intn(len(free))]
		sf, _ := slotsType.FieldByName(s)
		tag, val := randTagFor(g.Rng, sf.Type, g.Sc, mix)
		g.SetTag(i, s, tag, val)
	}
}

// LiteralHolder builds a StructOf holder with k component points carrying literal tags.
func LiteralHolder(rng *rand.Rand, id, k int, sc *world.Scenario, mix TagMix) any {
	fts := world.PaletteFieldTypes()
	var fields []world.FieldSpec
	if rng.Intn(6) == 0 {
		// an optional point of a kind that cannot take a component (a map, a pointer to a pointer), declared in
		// front of the others: it stays as it is and has no bearing on the points after it
		odd := []reflect.Type{reflect.TypeOf(map[string]string{}), reflect.TypeOf((**world.T00)(nil)), reflect.TypeOf(0)}[rng.Intn(3)]
		fields = append(fields, world.FieldSpec{Name: fmt.Sprintf("H%dOdd", id), Type: odd, Tag: world.WireTag("wire", ",required=false")})
	}
	for i := 0; i < k; i++ {
		ft := fts[rng.Intn(len(fts))]
		if rng.Intn(2) == 0 { // favour interface-typed fields (more candidates)
			ft = fts[rng.Intn(12)]
		}
		tag, val := randTagFor(rng, ft, sc, mix)
		fields = append(fields, world.FieldSpec{Name: fmt.Sprintf("H%dF%d", id, i), Type: ft, Tag: world.WireTag(tag, val)})
	}
	return world.NewHolder(world.BuildStruct(fields))
}

func describeHolder(h any) string {
	t := reflect.TypeOf(h).Elem()
	var parts []string
	for i := 0; i < t.NumField(); i++ {
		f := t.Field(i)
		parts = append(parts, fmt.Sprintf("%s %s `%s`", f.Name, f.Type, f.Tag))
	}
	return "struct{" + strings.Join(parts, "; ") + "}"
}

func resetHolder(h any) {
	v := reflect.ValueOf(h).Elem()
	v.Set(reflect.Zero(v.Type()))
}

// LeanProviders returns 0..3 providers outside the palette (world.LeanH / world.RichH, named).
func LeanProviders(rng *rand.Rand) []any {
	out := world.ZeroProviders(rng.Intn)
	out = append(out, world.NonStructProviders(rng.Intn)...)
	n := rng.Intn(4)
	for i := 0; i < n; i++ {
		name := fmt.Sprintf("lean%d", i)
		if rng.Intn(3) == 0 {
			out = append(out, &world.RichH{Nm: name})
		} else {
			out = append(out, &world.LeanH{Nm: name})
		}
	}
	return out
}
