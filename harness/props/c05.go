package props

import (
	"fmt"
	"reflect"
	"strings"

	"verifharness/core"
	"verifharness/mon"
	"verifharness/world"
)

// C05 Lifecycle: populate, then initialise exactly once, dependencies first.
type c05 struct{}

func init() { core.Register(c05{}) }

func (c05) ID() string    { return "C05" }
func (c05) Level() string { return "exploration" }
func (c05) Rule() string {
	return "seeded graphs (DAGs, diamonds, cycles with acyclic tails; by-name, by-type, qualified-slice edges) over palette types with {Init only, AfterPropertiesSet only, both, neither} x {lazy, eager} x {runner, closer, plain}, configuration-bound fields (value / prefix tags supplied per instance), 0..3 additional logging user post-processors of all ordering classes, under permuted orders. One append-only event log per start (logical clock) is written by the components' own AfterPropertiesSet/Init methods, by an observing post-processor (before/after + snapshot of all slots and config fields) and by the logging post-processors; an offline checker decides: per created component exactly one each of before < aps < init < after (for the callbacks it has), all before-callbacks before aps/init and all after-callbacks after; the snapshot taken in before-initialization equals the state at the end of Run (nothing is set later); when Init/AfterPropertiesSet of X runs, every observed dependency Y from which X is not reachable has completed all its callbacks; a LazyInit component has events only if a created component holds it (App holds runners/closers), and never twice. non-trivial = graph with a diamond, or a cycle with a tail, or a needed lazy component; distinct = canonical scenario signature; retry family: a component whose Init / AfterPropertiesSet fails once is requested by a swallowed lookup and again later - every attempt runs the complete callback sequence; a quarter of the starts pre-wire by-name points by hand; mix-in family (points of a package-private embedded struct); unsettable family (a point only the holder itself could satisfy, followed by satisfiable ones) and supplied family (component supplied before instantiation); a post-processor component with points and Init; several lazy candidates of one pointer point; lazy post-processor components held by created components pass the other processors' callbacks; a holder taking its dependency through a tagged embedded interface; lazyPrimary (a lazy Primary among lazy candidates); a factory-aware eager component in the main family; panickingInit family (an Init that panics half way is no completed initialisation); lazyMisfit (an optional point naming a lazy component of an unfit type leaves it untouched); firstProcessor family (priority-ordered post-processor components created before any processor is active are initialised once); lookups under the type name of custom-named components re-run no lifecycle"
}
func (c05) Assumptions() []string {
	return []string{
		"components that are themselves post-processors are created during PrepareComponents before later-sorted processors exist; the lifecycle claim is checked for ordinary components",
		"reachability is computed on the observed wiring, so ties in candidate selection do not matter",
	}
}
func (c05) NumCases(tier string) int      { return tierN(tier, 2500, 500000) }
func (c05) MinNontrivial(tier string) int { return tierN(tier, 400, 5000) }

// firstProcessor: post-processor components that are created before every other processor is active (priority-ordered,
// sorting in front of the built-in processors, in an application without any earlier processor): they, and
// every ordinary component, are initialised exactly once - AfterPropertiesSet, then Init.
func (p c05) firstProcessor(c *core.Ctx) {
	sc := RandomGraph(c.Rng, GraphOpts{MinN: 1, MaxN: 5, Types: world.TypesEagerPlain, PCycle: 0.3, Chords: 1, PUnnamed: 0.3})
	var extra []any
	var names []string
	for k, n := 0, 1+c.Rng.Intn(3); k < n; k++ {
		name := fmt.Sprintf("priolife%d", k)
		extra = append(extra, &world.PrioLifePP{LifePP: world.LifePP{Nm: name}, Ord: []int{-3, 0, 1, 2, 7, 1000}[c.Rng.Intn(6)]})
		names = append(names, name)
	}
	r := world.Start(sc, world.Options{Extra: extra, NoObserver: true})
	c.Count("starts", 1)
	c.Count("first_processor_starts", 1)
	detail := failDetail(sc, r, map[string]any{"events": renderEvents(r.Log.Events(), 60)})
	if r.Outcome() != "ok" {
		c.Fail("", "start of a satisfiable scenario did not succeed: "+core.Short(r.OutcomeDetail(), 400), detail)
		return
	}
	for i := range sc.Nodes {
		ti := world.Palette[sc.Nodes[i].Type]
		if ti.Init {
			names = append(names, sc.Nodes[i].DisplayName())
		}
	}
	for _, nm := range names {
		nI, nA := countEvents(r, "init", nm), countEvents(r, "aps", nm)
		isPP := strings.HasPrefix(nm, "priolife")
		if nI != 1 || (isPP && nA != 1) {
			c.Fail("", fmt.Sprintf("component %q: %d Init and %d AfterPropertiesSet call(s) in a start that succeeded, expected exactly one Init%s", nm, nI, nA, map[bool]string{true: " and one AfterPropertiesSet", false: ""}[isPP]), detail)
			return
		}
		if a, i := firstEvent(r, "aps", nm), firstEvent(r, "init", nm); a >= 0 && a > i {
			c.Fail("", fmt.Sprintf("component %q: Init ran before AfterPropertiesSet", nm), detail)
			return
		}
	}
	c.Nontrivial("firstprocessor|" + sc.GraphSig() + fmt.Sprint(len(extra)))
}

func (p c05) Run(c *core.Ctx) {
	if c.Index%25 == 9 {
		p.firstProcessor(c)
		return
	}
	if c.Index%25 == 24 {
		p.mixin(c)
		return
	}
	if c.Index%25 == 12 {
		p.unsettable(c)
		return
	}
	if c.Index%25 == 6 {
		p.supplied(c)
		return
	}
	if c.Index%25 == 18 {
		p.lazyCandidates(c)
		return
	}
	if c.Index%25 == 3 {
		p.panickingInit(c)
		return
	}
	if c.Index%5 == 4 {
		p.retry(c)
		return
	}
	sc := RandomGraph(c.Rng, GraphOpts{MinN: 3, MaxN: 14, Types: world.TypesAll, PCycle: 0.4, Chords: 2,
		ByTypeSlice: 0.2, QualSlice: 0.15, ByTypeUniq: 0.2, PUnnamed: 0.3})
	cfg := "lc:\n  s: hello\n  i: 42\n  l: [x, y, z]\n  sub:\n    s: nested\n"
	for i := range sc.Nodes {
		if c.Rng.Intn(3) == 0 {
			sc.Nodes[i].Cfg = map[string]world.TagSpec{}
			if c.Rng.Intn(2) == 0 {
				sc.Nodes[i].Cfg["CfgS"] = world.TagSpec{Tag: "value", Val: []string{"${lc.s}", "lit", "${lc.sub.s}", "${lc.none:dflt}"}[c.Rng.Intn(4)]}
			}
			if c.Rng.Intn(2) == 0 {
				sc.Nodes[i].Cfg["CfgI"] = world.TagSpec{Tag: []string{"value", "prefix"}[c.Rng.Intn(2)], Val: ""}
				t := sc.Nodes[i].Cfg["CfgI"]
				if t.Tag == "value" {
					t.Val = []string{"${lc.i}", "7", "#{${lc.i}+1}"}[c.Rng.Intn(3)]
				} else {
					t.Val = "lc.i"
				}
				sc.Nodes[i].Cfg["CfgI"] = t
			}
			if c.Rng.Intn(3) == 0 {
				sc.Nodes[i].Cfg["CfgL"] = world.TagSpec{Tag: "prefix", Val: "lc.l"}
			}
		}
	}
	sc.Config = cfg
	var extra []any
	npp := c.Rng.Intn(4)
	for k := 0; k < npp; k++ {
		extra = append(extra, world.NewPP(c.Rng.Intn(4), fmt.Sprintf("pp%d", k), c.Rng.Intn(5)-2))
	}
	// post-processors that are themselves dependencies of ordinary components (eager and lazy ones)
	var lifePPs []string
	if c.Rng.Intn(3) == 0 {
		for k := 0; k < 1+c.Rng.Intn(2); k++ {
			name := fmt.Sprintf("lifepp%d", k)
			if c.Rng.Intn(2) == 0 {
				extra = append(extra, &world.LazyLifePP{LifePP: world.LifePP{Nm: name}})
			} else {
				extra = append(extra, &world.LifePP{Nm: name})
			}
			lifePPs = append(lifePPs, name)
			g := &world.G{Rng: c.Rng, Sc: sc}
			for x := 0; x < 1+c.Rng.Intn(2); x++ {
				i := c.Rng.Intn(len(sc.Nodes))
				if free := g.FreeSlots(i, func(si world.SlotInfo) bool { return si.Kind == "iface" && (si.Iface == "any" || si.Iface == "IA") }); len(free) > 0 {
					g.SetTag(i, free[0], "wire", name)
				}
			}
		}
	}
	// eager priority-ordered post-processor components, some sorting in front of every built-in processor: they are
	// created while the chain is still (nearly) empty - and are initialised like any component
	var prioLife []string
	if c.Rng.Intn(4) == 0 {
		for k := 0; k < 1+c.Rng.Intn(2); k++ {
			name := fmt.Sprintf("priolife%d", k)
			extra = append(extra, &world.PrioLifePP{LifePP: world.LifePP{Nm: name}, Ord: []int{-3, 0, 1, 2, 7}[c.Rng.Intn(5)]})
			prioLife = append(prioLife, name)
		}
	}
	// an ordinary eager component that also implements the factory / definition-registry post-processor
	// interfaces ("factory aware"): it passes through the lifecycle like any component
	var fa *world.FactoryAwareBare
	if c.Rng.Intn(4) == 0 {
		fa = &world.FactoryAwareBare{Nm: []string{"a-factory-aware", "z-factory-aware"}[c.Rng.Intn(2)]}
		extra = append(extra, fa)
	}
	r := world.Build(sc, world.Options{Extra: extra})
	if c.Rng.Intn(4) == 0 {
		// components wired by hand before registration (a := &A{Z: z}; SetComponents(a, z)): some by-name
		// points already refer to the very instance the container will choose - which it still has to
		// create and initialise before the holder's own callbacks
		pre := 0
		for i := range sc.Nodes {
			for slot, ts := range sc.Nodes[i].Tags {
				si := world.SlotByName(slot)
				if ts.Tag != "wire" || (si.Kind != "ptr" && si.Kind != "iface") || c.Rng.Intn(2) == 0 {
					continue
				}
				name := strings.SplitN(ts.Val, ",", 2)[0]
				if t, ok := nodeNamed(sc, name); ok && name != "" {
					f := reflect.ValueOf(r.Nodes[i].Slot()).Elem().FieldByName(slot)
					tv := reflect.ValueOf(r.Nodes[t])
					if f.IsValid() && tv.Type().AssignableTo(f.Type()) {
						f.Set(tv)
						pre++
					}
				}
			}
		}
		c.Count("points_wired_by_hand_before_registration", pre)
	}
	r.Go()
	c.Count("starts", 1)
	c.Count("outcome_"+r.Outcome(), 1)
	if r.Outcome() != "ok" {
		c.Fail("", "start of a satisfiable scenario did not succeed: "+core.Short(r.OutcomeDetail(), 400), failDetail(sc, r, nil))
		return
	}
	if c.Rng.Intn(3) == 0 {
		// lookups under the type name of components that carry a custom name (nothing is registered under it): whatever
		// they answer, nobody's lifecycle runs again
		unnamedType := map[int]bool{}
		for i := range sc.Nodes {
			if sc.Nodes[i].Name == "" {
				unnamedType[sc.Nodes[i].Type] = true
			}
		}
		for i := range sc.Nodes {
			if ti := world.Palette[sc.Nodes[i].Type]; sc.Nodes[i].Name != "" && !unnamedType[sc.Nodes[i].Type] && !ti.Lazy {
				r.Guard(func() { r.App.GetComponentByName(ti.DefaultName) })
				c.Count("lookups_under_unregistered_type_names", 1)
			}
		}
		if r.Panic != nil || r.Diverge != nil {
			c.Fail("", "lookup under a type name after the start: "+r.OutcomeDetail(), failDetail(sc, r, nil))
			return
		}
	}
	problems, stats := checkLifecycle(r, npp)
	problems = append(problems, checkLifePPs(r, lifePPs, npp)...)
	for _, nm := range prioLife {
		nI, nA := countEvents(r, "init", nm), countEvents(r, "aps", nm)
		c.Count("priority_post_processor_components_checked", 1)
		if nI != 1 || nA != 1 {
			problems = append(problems, fmt.Sprintf("eager priority-ordered post-processor component %q: %d Init and %d AfterPropertiesSet call(s) in a start that succeeded, expected one each", nm, nI, nA))
		} else if a, i := firstEvent(r, "aps", nm), firstEvent(r, "init", nm); a > i {
			problems = append(problems, fmt.Sprintf("post-processor component %q: Init ran before AfterPropertiesSet", nm))
		}
	}
	if fa != nil {
		for _, k := range []string{"before", "init", "after"} {
			if n := countEvents(r, k, fa.Nm); n != 1 {
				problems = append(problems, fmt.Sprintf("factory-aware eager component %q: %d %q event(s), expected 1", fa.Nm, n, k))
			}
		}
		c.Count("factory_aware_components_checked", 1)
	}
	c.Count("post_processor_dependencies", len(lifePPs))
	c.Count("lifecycle_events", stats.events)
	c.Count("components_checked", stats.components)
	c.Count("dependency_pairs_checked", stats.pairs)
	c.Count("lazy_created", stats.lazyCreated)
	c.Count("lazy_untouched", stats.lazyUntouched)
	c.Count("config_fields_checked", stats.cfgFields)
	adj := sc.NamedAdj()
	shape := shapeOf(sc)
	cycTail := false
	if world.HasCycle(adj) {
		for i := range adj {
			if !onCycle(adj, i) && len(adj[i]) > 0 {
				cycTail = true
			}
		}
	}
	if strings.Contains(shape, "diamond") || cycTail || stats.lazyCreated > 0 {
		c.Nontrivial(sc.GraphSig())
	}
	c.Distinct("creation_traces", mon.ShapeHash(r.Tracer.Events()))
	if len(problems) > 0 {
		c.Fail("", problems[0], failDetail(sc, r, map[string]any{"problems": problems, "events": renderEvents(r.Log.Events(), 120)}))
		return
	}
	if c.WantSample() && (cycTail || stats.lazyCreated > 0) {
		c.Sample(map[string]any{"scenario": describeScenario(sc), "shape": shape, "post_processors": npp, "events": renderEvents(r.Log.Events(), 60)})
	}
}

func renderEvents(ev []mon.Event, n int) []string {
	var out []string
	for i, e := range ev {
		if i >= n {
			out = append(out, "…")
			break
		}
		out = append(out, e.String())
	}
	return out
}

type lcStats struct{ events, components, pairs, lazyCreated, lazyUntouched, cfgFields int }

func checkLifecycle(r *world.Run, npp int) (problems []string, st lcStats) {
	ev := r.Log.Events()
	st.events = len(ev)
	byName := map[string][]mon.Event{}
	for _, e := range ev {
		switch e.Kind {
		case "before", "after", "aps", "init", "pp-before", "pp-after":
			byName[e.Who] = append(byName[e.Who], e)
		}
	}
	nodeByName := map[string]int{}
	for i, n := range r.Nodes {
		nodeByName[n.DisplayName()] = i
	}
	// observed wiring among palette nodes
	n := len(r.Nodes)
	adj := make([][]int, n)
	heldBy := make([][]int, n)
	for i, nd := range r.Nodes {
		for _, s := range world.SortedSlots(&r.Sc.Nodes[i]) {
			refs, _ := r.SlotRefs(nd, s)
			for _, ref := range refs {
				if ref.Nil || ref.Pop < 0 {
					continue
				}
				if t, ok := ref.Obj.(world.Node); ok {
					j := nodeByName[t.DisplayName()]
					adj[i] = append(adj[i], j)
					heldBy[j] = append(heldBy[j], i)
				}
			}
		}
	}
	reach := func(from, to int) bool {
		seen := make([]bool, n)
		stack := []int{from}
		for len(stack) > 0 {
			x := stack[len(stack)-1]
			stack = stack[:len(stack)-1]
			if x == to {
				return true
			}
			if seen[x] {
				continue
			}
			seen[x] = true
			stack = append(stack, adj[x]...)
		}
		return false
	}
	first := func(es []mon.Event, kind string) int {
		for _, e := range es {
			if e.Kind == kind {
				return e.Seq
			}
		}
		return -1
	}
	count := func(es []mon.Event, kind string) int {
		k := 0
		for _, e := range es {
			if e.Kind == kind {
				k++
			}
		}
		return k
	}
	done := map[int]int{} // node -> seq of its last lifecycle event
	created := map[int]bool{}
	for i, nd := range r.Nodes {
		es := byName[nd.DisplayName()]
		if len(es) == 0 {
			continue
		}
		created[i] = true
		done[i] = es[len(es)-1].Seq
	}
	for i, nd := range r.Nodes {
		name := nd.DisplayName()
		ti := world.Palette[nd.TypeIdx()]
		es := byName[name]
		if !created[i] {
			if !ti.Lazy {
				problems = append(problems, fmt.Sprintf("eager component %q has no lifecycle events after a successful start", name))
			} else {
				st.lazyUntouched++
				for _, h := range heldBy[i] {
					if created[h] {
						problems = append(problems, fmt.Sprintf("lazy component %q is held by created component %q but was never initialised", name, r.Nodes[h].DisplayName()))
					}
				}
			}
			continue
		}
		st.components++
		want := map[string]int{"before": 1, "after": 1, "pp-before": npp, "pp-after": npp}
		if ti.Aps {
			want["aps"] = 1
		}
		if ti.Init {
			want["init"] = 1
		}
		for _, k := range []string{"before", "aps", "init", "after", "pp-before", "pp-after"} {
			if got := count(es, k); got != want[k] {
				problems = append(problems, fmt.Sprintf("component %q: %d %q event(s), expected %d", name, got, k, want[k]))
			}
		}
		// order: all before-callbacks < aps < init < all after-callbacks
		lastBefore, firstAfter := -1, 1<<30
		for _, e := range es {
			if e.Kind == "before" || e.Kind == "pp-before" {
				if e.Seq > lastBefore {
					lastBefore = e.Seq
				}
			}
			if e.Kind == "after" || e.Kind == "pp-after" {
				if e.Seq < firstAfter {
					firstAfter = e.Seq
				}
			}
		}
		aps, ini := first(es, "aps"), first(es, "init")
		seq := []int{lastBefore}
		if aps >= 0 {
			seq = append(seq, aps)
		}
		if ini >= 0 {
			seq = append(seq, ini)
		}
		seq = append(seq, firstAfter)
		for x := 1; x < len(seq); x++ {
			if seq[x-1] >= seq[x] {
				problems = append(problems, fmt.Sprintf("component %q: lifecycle callbacks out of order (before-callbacks end at %d, aps %d, init %d, after-callbacks start at %d)", name, lastBefore, aps, ini, firstAfter))
				break
			}
		}
		// everything was set before before-initialization
		for _, e := range es {
			if e.Kind == "before" && e.Snap != nil {
				final := world.SnapshotOf(nd)
				for k, v := range final {
					if e.Snap[k] != v {
						problems = append(problems, fmt.Sprintf("component %q: field %s changed after before-initialization (%s then, %s at the end of Run)", name, k, e.Snap[k], v))
					}
				}
				st.cfgFields += len(r.Sc.Nodes[i].Cfg)
				for cf, ts := range r.Sc.Nodes[i].Cfg {
					if isZeroSnap(final[cf]) {
						problems = append(problems, fmt.Sprintf("component %q: config field %s (%s:%q) is still zero after a successful start", name, cf, ts.Tag, ts.Val))
					}
				}
				break
			}
		}
		// dependencies first
		start := aps
		if start < 0 {
			start = ini
		}
		if start >= 0 {
			for _, j := range adj[i] {
				if j == i || reach(j, i) {
					continue
				}
				st.pairs++
				if d, ok := done[j]; !ok || d > start {
					problems = append(problems, fmt.Sprintf("component %q started initialising at %d before its dependency %q (which does not depend back on it) completed (%d)", name, start, r.Nodes[j].DisplayName(), d))
				}
			}
		}
		// lazy only when needed
		if ti.Lazy {
			st.lazyCreated++
			needed := ti.Runner || ti.Closer
			for _, h := range heldBy[i] {
				if created[h] && h != i {
					needed = true
				}
			}
			if !needed {
				problems = append(problems, fmt.Sprintf("lazy component %q was initialised although no created component holds it", name))
			}
		}
	}
	return
}

func isZeroSnap(s string) bool {
	return s == `""` || s == "0" || s == "[]string(nil)"
}

// checkLifePPs: a post-processor that is a dependency of a created component went through its own
// lifecycle exactly once, before the component that holds it was initialised.
func checkLifePPs(r *world.Run, names []string, nppOpt ...int) []string {
	npp := 0
	if len(nppOpt) > 0 {
		npp = nppOpt[0]
	}
	var out []string
	if len(names) == 0 {
		return nil
	}
	ev := r.Log.Events()
	count := func(kind, who string) (n, first int) {
		first = -1
		for _, e := range ev {
			if e.Kind == kind && e.Who == who {
				if first < 0 {
					first = e.Seq
				}
				n++
			}
		}
		return
	}
	created := r.Created()
	for i, nd := range r.Nodes {
		if !created[nd.DisplayName()] {
			continue
		}
		for _, s := range world.SortedSlots(&r.Sc.Nodes[i]) {
			refs, _ := r.SlotRefs(nd, s)
			for _, ref := range refs {
				var nm string
				switch p := ref.Obj.(type) {
				case *world.LifePP:
					nm = p.Nm
				case *world.LazyLifePP:
					nm = p.Nm
				default:
					continue
				}
				if _, lazy := ref.Obj.(*world.LazyLifePP); lazy {
					// a lazy post-processor component is created when its first holder is populated - during the
					// refresh, under the complete chain: it passes the other processors' callbacks like any component
					for _, k := range []string{"before", "after", "pp-before", "pp-after"} {
						want := 1
						if strings.HasPrefix(k, "pp-") {
							want = npp
						}
						if got, _ := count(k, nm); got != want {
							out = append(out, fmt.Sprintf("lazy post-processor component %q (held by %q): %d %q callback event(s) of the other post-processors, expected %d", nm, nd.DisplayName(), got, k, want))
						}
					}
				}
				nInit, fInit := count("init", nm)
				nAps, _ := count("aps", nm)
				if nInit != 1 || nAps != 1 {
					out = append(out, fmt.Sprintf("post-processor component %q is held by created component %q but has %d Init and %d AfterPropertiesSet event(s)", nm, nd.DisplayName(), nInit, nAps))
					continue
				}
				_, holderInit := count("init", nd.DisplayName())
				if _, a := count("aps", nd.DisplayName()); a >= 0 && (holderInit < 0 || a < holderInit) {
					holderInit = a
				}
				if holderInit >= 0 && fInit > holderInit {
					out = append(out, fmt.Sprintf("component %q started initialising (%d) before its dependency, post-processor %q, was initialised (%d)", nd.DisplayName(), holderInit, nm, fInit))
				}
			}
		}
	}
	return out
}

// retry: service-locator lookups from inside Init (errors swallowed) and transient failures. A creation
// that failed and is attempted again legitimately runs its callbacks again; what must hold is that
// every attempt is a prefix of before < aps < init < after in that order, that only the last attempt
// of a component is complete, that a complete attempt happens at most once, and that nothing nests a
// second attempt of a component inside a running one.
func (p c05) retry(c *core.Ctx) {
	sc := RandomGraph(c.Rng, GraphOpts{MinN: 2, MaxN: 9, Types: world.TypesAll, PCycle: 0.5, Chords: 2, ByTypeSlice: 0.15, PUnnamed: 0.3})
	nl := AddInitLookups(c.Rng, sc, 0.5)
	faults := 0
	for i := range sc.Nodes {
		ti := world.Palette[sc.Nodes[i].Type]
		if c.Rng.Intn(4) == 0 && (ti.Init || ti.Aps) {
			kind := "init"
			if !ti.Init || (ti.Aps && c.Rng.Intn(2) == 0) {
				kind = "aps"
			}
			sc.Nodes[i].FailOnce = append(sc.Nodes[i].FailOnce, kind)
			faults++
		}
	}
	r := world.Start(sc, world.Options{})
	c.Count("starts", 1)
	c.Count("retry_family_starts", 1)
	c.Count("init_lookups", nl)
	c.Count("transient_faults", faults)
	if abnormal(r.Outcome()) {
		c.Fail("", "start with swallowed lookups / transient faults: "+core.Short(r.OutcomeDetail(), 300), failDetail(sc, r, nil))
		return
	}
	// after the start, look every component up repeatedly: every transient fault is consumed by one failing
	// attempt, so after at most faults+1 rounds everything can be created
	lastErr := map[string]error{}
	if r.Tracer != nil {
		r.Tracer.ResetBudget(400000)
	}
	for round := 0; round < faults+2; round++ {
		for i := range sc.Nodes {
			name := sc.Nodes[i].DisplayName()
			var err error
			r.Guard(func() { _, err = r.App.GetComponentByName(name) })
			if r.Panic != nil || r.Diverge != nil {
				c.Fail("", "lookup after the start: "+r.OutcomeDetail(), failDetail(sc, r, nil))
				return
			}
			lastErr[name] = err
		}
	}
	ev := r.Log.Events()
	type attempt struct{ kinds []string }
	attempts := map[string][]*attempt{}
	open := map[string]bool{}
	var problems []string
	for _, e := range ev {
		if _, isNode := nodeNamed(sc, e.Who); !isNode {
			continue
		}
		switch e.Kind {
		case "before":
			if e.By != "" {
				continue
			}
			attempts[e.Who] = append(attempts[e.Who], &attempt{kinds: []string{"before"}})
			open[e.Who] = true
		case "aps", "init":
			if as := attempts[e.Who]; len(as) > 0 {
				as[len(as)-1].kinds = append(as[len(as)-1].kinds, e.Kind)
			} else {
				problems = append(problems, fmt.Sprintf("component %q: %s without a preceding before-initialization callback", e.Who, e.Kind))
			}
		case "after":
			if e.By != "" {
				continue
			}
			if as := attempts[e.Who]; len(as) > 0 {
				as[len(as)-1].kinds = append(as[len(as)-1].kinds, "after")
			}
			open[e.Who] = false
		}
	}
	for i := range sc.Nodes {
		name := sc.Nodes[i].DisplayName()
		ti := world.Palette[sc.Nodes[i].Type]
		full := []string{"before"}
		if ti.Aps {
			full = append(full, "aps")
		}
		if ti.Init {
			full = append(full, "init")
		}
		full = append(full, "after")
		as := attempts[name]
		complete := 0
		for k, a := range as {
			// every attempt is a prefix of the full sequence
			for x, kind := range a.kinds {
				if x >= len(full) || full[x] != kind {
					problems = append(problems, fmt.Sprintf("component %q attempt %d: callbacks %v are not a prefix of %v", name, k+1, a.kinds, full))
					break
				}
			}
			if len(a.kinds) == len(full) {
				complete++
				if k != len(as)-1 {
					problems = append(problems, fmt.Sprintf("component %q: attempt %d of %d is complete but another attempt follows (initialised more than once)", name, k+1, len(as)))
				}
			}
		}
		if complete > 1 {
			problems = append(problems, fmt.Sprintf("component %q went through its complete lifecycle %d times", name, complete))
		}
		if lastErr[name] == nil && complete == 0 {
			problems = append(problems, fmt.Sprintf("component %q is returned by the container without error but no attempt ran its complete lifecycle %v (attempts: %d)", name, full, len(as)))
		}
		if false {
			problems = append(problems, fmt.Sprintf("component %q was looked up successfully in the end but no attempt ran its complete lifecycle %v (attempts: %d, last: %v)", name, full, len(as), as[len(as)-1].kinds))
		}
		if len(as) > 1+len(sc.Nodes[i].FailOnce)+8 {
			problems = append(problems, fmt.Sprintf("component %q: %d creation attempts", name, len(as)))
		}
	}
	// registry view: no nested second creation of a name in creation
	vs, _ := checkProtocol(r.Tracer.Events())
	for _, v := range vs {
		if strings.Contains(v, "nested creation") {
			problems = append(problems, v)
		}
	}
	c.Count("components_checked", len(sc.Nodes))
	if len(problems) > 0 {
		c.Fail("", problems[0], failDetail(sc, r, map[string]any{"problems": problems, "events": renderEvents(ev, 150)}))
		return
	}
	if nl > 0 && faults > 0 {
		c.Nontrivial("retry:" + sc.GraphSig())
	}
}

// mixin: the points of a component that come from a package-private embedded mix-in are set, and the
// (lazy) dependency behind them is initialised, before the component's own Init.
func (p c05) mixin(c *core.Ctx) {
	g := world.NewG(c.Rng)
	g.AddNode([]int{8, 1, 0}[c.Rng.Intn(3)], "mix-dep") // T08 is lazy; all have Init and implement IA
	for x := 0; x < c.Rng.Intn(3); x++ {
		g.AddRandomNode(world.TypesEagerPlain, 0.2)
	}
	g.ShuffleOrders()
	g.Sc.Config = "mix:\n  key: v\n"
	h := &world.MixinHolder{}
	// a post-processor component with the same points and an Init of its own (ordered behind the built-in
	// processors, so they are all active when it is created)
	ipp := &world.InitPP{Ord: []int{100, 50, 9}[c.Rng.Intn(3)]}
	eh := &world.EmbedIfaceHolder{}
	r := world.Start(g.Sc, world.Options{Extra: []any{h, ipp, eh}})
	c.Count("starts", 1)
	c.Count("mixin_starts", 1)
	if r.Outcome() == "ok" {
		if want := `dep-set=true dep-initialised=true`; eh.Inits != 1 || eh.SeenAtInit != want {
			c.Fail("", fmt.Sprintf("component taking its dependency through a tagged embedded interface: Init ran %d time(s) and saw %s; expected once with %s", eh.Inits, eh.SeenAtInit, want), failDetail(g.Sc, r, map[string]any{"events": renderEvents(r.Log.Events(), 60)}))
			return
		}
	}
	if r.Outcome() == "ok" {
		if want := `dep-set=true dep-initialised=true cfg="v"`; ipp.Inits != 1 || ipp.SeenAtInit != want {
			c.Fail("", fmt.Sprintf("post-processor component with injection points: Init ran %d time(s) and saw %s; expected once with %s", ipp.Inits, ipp.SeenAtInit, want), failDetail(g.Sc, r, map[string]any{"events": renderEvents(r.Log.Events(), 60)}))
			return
		}
	}
	if r.Outcome() != "ok" {
		c.Fail("", "start of a satisfiable scenario did not succeed: "+core.Short(r.OutcomeDetail(), 400), failDetail(g.Sc, r, nil))
		return
	}
	want := `dep-set=true dep-initialised=true cfg="v" opt-nil=true`
	if h.Inits != 1 || h.SeenAtInit != want {
		c.Fail("", fmt.Sprintf("component with an embedded package-private mix-in: Init ran %d time(s) and saw %s; expected once with %s", h.Inits, h.SeenAtInit, want), failDetail(g.Sc, r, map[string]any{"events": renderEvents(r.Log.Events(), 60)}))
		return
	}
	c.Nontrivial("mixin|" + g.Sc.GraphSig())
}

// unsettable: a component with several injection points one of which - not the last - cannot be set (its
// only candidate is the component itself): it never reaches its initialization callbacks with that
// point empty, whatever happens to the points after it.
func (p c05) unsettable(c *core.Ctx) {
	g := world.NewG(c.Rng)
	h := g.AddNode([]int{0, 1, 3, 6}[c.Rng.Intn(4)], g.FreshName(0)) // eager, Init and/or AfterPropertiesSet, the only IA
	other := g.AddNode([]int{2, 13}[c.Rng.Intn(2)], g.FreshName(1))  // an IB, not an IA
	g.SetTag(h, []string{"IA0", "IA1"}[c.Rng.Intn(2)], "wire", "")   // by type: only the holder itself fits
	// later points (field order) that can be set
	g.SetTag(h, "IB0", "wire", g.Sc.Nodes[other].DisplayName())
	if c.Rng.Intn(2) == 0 {
		g.SetTag(h, "Any0", "wire", g.Sc.Nodes[other].DisplayName())
	}
	if c.Rng.Intn(2) == 0 {
		g.SetTag(h, "AnyS", "wire", ",required=false")
	}
	g.ShuffleOrders()
	r := world.Start(g.Sc, world.Options{})
	c.Count("starts", 1)
	c.Count("unsettable_starts", 1)
	hn := g.Sc.Nodes[h].DisplayName()
	inits := countEvents(r, "init", hn) + countEvents(r, "aps", hn)
	if abnormal(r.Outcome()) {
		c.Fail("", "start: "+core.Short(r.OutcomeDetail(), 300), failDetail(g.Sc, r, nil))
		return
	}
	if inits > 0 || r.Outcome() == "ok" {
		c.Fail("", fmt.Sprintf("component %q reached its initialization callbacks (%d) / the start returned %s although its required by-type point can only be satisfied by the component itself and is empty", hn, inits, r.Outcome()),
			failDetail(g.Sc, r, map[string]any{"events": renderEvents(r.Log.Events(), 60)}))
		return
	}
	c.Nontrivial("unsettable|" + g.Sc.GraphSig())
}

// supplied: a post-processor hands back a component's registered instance from its before-instantiation
// callback. That component is not built by the container: it passes every after-initialization callback
// once and nothing else - in particular not a second, ordinary lifecycle on top.
func (p c05) supplied(c *core.Ctx) {
	g := world.NewG(c.Rng)
	t := g.AddNode([]int{0, 1, 3, 6, 12}[c.Rng.Intn(5)], g.FreshName(0)) // eager, has Init / AfterPropertiesSet
	for x := 0; x < 1+c.Rng.Intn(3); x++ {
		k := g.AddRandomNode(world.TypesEagerPlain, 0.2)
		if c.Rng.Intn(2) == 0 {
			g.EdgeByName(k, t, "", "iface")
		}
	}
	g.ShuffleOrders()
	tn := g.Sc.Nodes[t].DisplayName()
	npp := 1 + c.Rng.Intn(3)
	var extra []any
	for k := 0; k < npp; k++ {
		extra = append(extra, world.NewPP(c.Rng.Intn(4), fmt.Sprintf("pp%d", k), c.Rng.Intn(5)-2))
	}
	world.PPCoreOf(extra[c.Rng.Intn(npp)]).Supply = tn
	r := world.Start(g.Sc, world.Options{Extra: extra})
	c.Count("starts", 1)
	c.Count("supplied_starts", 1)
	if r.Outcome() != "ok" {
		c.Fail("", "start did not succeed: "+core.Short(r.OutcomeDetail(), 300), failDetail(g.Sc, r, nil))
		return
	}
	cnt := map[string]int{}
	for _, e := range r.Log.Events() {
		if e.Who == tn {
			cnt[e.Kind]++
		}
	}
	bad := ""
	for _, k := range []string{"init", "aps", "pp-before", "pp-properties", "pp-after-inst"} {
		if cnt[k] != 0 {
			bad += fmt.Sprintf(" %s x%d", k, cnt[k])
		}
	}
	if cnt["pp-after"] != npp {
		bad += fmt.Sprintf(" pp-after x%d (want %d)", cnt["pp-after"], npp)
	}
	if bad != "" {
		c.Fail("", fmt.Sprintf("component %q was supplied by a post-processor before instantiation; its callbacks:%s (expected: every after-initialization callback once, nothing else)", tn, bad),
			failDetail(g.Sc, r, map[string]any{"events": renderEvents(r.Log.Events(), 80)}))
		return
	}
	c.Nontrivial("supplied|" + g.Sc.GraphSig() + fmt.Sprint(npp))
}

// lazyCandidates: a single-valued pointer point with several same-typed lazy candidates: the one the
// narrowing rules select is created and initialised for the holder, the others - lazy, needed by nobody
// - are not.
// panickingInit: an Init that panics half way is not a completed initialisation: the component gets no
// after-initialisation callbacks, nothing that depends on it is initialised against it, and the start does
// not report success.
func (p c05) panickingInit(c *core.Ctx) {
	g := world.NewG(c.Rng)
	dep := g.AddNode([]int{0, 1, 3}[c.Rng.Intn(3)], g.FreshName(0)) // eager, Init
	var holders []int
	for x, nx := 0, 1+c.Rng.Intn(2); x < nx; x++ {
		h := g.AddNode([]int{0, 1, 3, 6}[c.Rng.Intn(4)], g.FreshName(x+1))
		g.EdgeByName(h, dep, "", "iface")
		holders = append(holders, h)
	}
	g.AddNode(world.TypesRunner[c.Rng.Intn(len(world.TypesRunner))], g.FreshName(9))
	g.ShuffleOrders()
	dn := g.Sc.Nodes[dep].DisplayName()
	hook := func(kind string, who world.Node) {
		if kind == "init" && who.DisplayName() == dn {
			var m map[string]int
			m["half-way"] = 1 // panics: assignment to entry in nil map
		}
	}
	r := world.Start(g.Sc, world.Options{Hook: hook})
	c.Count("starts", 1)
	c.Count("panicking_init_starts", 1)
	detail := failDetail(g.Sc, r, map[string]any{"events": renderEvents(r.Log.Events(), 60)})
	if r.Outcome() == "ok" || r.Outcome() == "stalled" || r.Outcome() == "diverged" {
		c.Fail("", fmt.Sprintf("the Init of %q panicked half way, the start outcome is %s", dn, r.Outcome()), detail)
		return
	}
	if n := countEvents(r, "after", dn); n > 0 {
		c.Fail("", fmt.Sprintf("the Init of %q panicked half way, yet the component received %d after-initialisation callback(s)", dn, n), detail)
		return
	}
	for _, h := range holders {
		hn := g.Sc.Nodes[h].DisplayName()
		if n := countEvents(r, "init", hn); n > 0 {
			c.Fail("", fmt.Sprintf("component %q, which depends on %q whose Init panicked, was initialised all the same", hn, dn), detail)
			return
		}
	}
	if n := countEvents(r, "run"); n > 0 {
		c.Fail("", fmt.Sprintf("%d runner(s) ran although the Init of %q panicked", n, dn), detail)
		return
	}
	c.Nontrivial("panicinit|" + g.Sc.GraphSig())
}

// lazyPrimary: several lazy candidates of one interface point, one of them the (only) Primary: that one is
// what the eager holder needs - it is initialised (before the holder), the others stay untouched.
func (p c05) lazyPrimary(c *core.Ctx) {
	g := world.NewG(c.Rng)
	prim := g.AddNode(11, []string{"", g.FreshName(0)}[c.Rng.Intn(2)]) // T11: IA, lazy, Primary, Init+Aps
	var others []int
	others = append(others, g.AddNode(8, "")) // T08: IA, lazy, not primary, unnamed
	for x := 0; x < c.Rng.Intn(3); x++ {
		others = append(others, g.AddNode(8, g.FreshName(x+2)))
	}
	h := g.AddNode([]int{2, 13}[c.Rng.Intn(2)], g.FreshName(9)) // an eager IB that is no IA
	g.SetTag(h, []string{"IA0", "IA1"}[c.Rng.Intn(2)], "wire", "")
	g.ShuffleOrders()
	r := world.Start(g.Sc, world.Options{})
	c.Count("starts", 1)
	c.Count("lazy_candidate_starts", 1)
	detail := failDetail(g.Sc, r, map[string]any{"events": renderEvents(r.Log.Events(), 60)})
	if r.Outcome() != "ok" {
		c.Fail("", "start did not succeed: "+core.Short(r.OutcomeDetail(), 300), detail)
		return
	}
	pn := g.Sc.Nodes[prim].DisplayName()
	if countEvents(r, "init", pn) != 1 || countEvents(r, "aps", pn) != 1 {
		c.Fail("", fmt.Sprintf("the lazy Primary candidate %q of the eager holder's interface point was initialised %d/%d times (Init/AfterPropertiesSet), expected once each", pn, countEvents(r, "init", pn), countEvents(r, "aps", pn)), detail)
		return
	}
	for _, o := range others {
		on := g.Sc.Nodes[o].DisplayName()
		if n := countEvents(r, "init", on) + countEvents(r, "aps", on); n > 0 {
			c.Fail("", fmt.Sprintf("lazy component %q was initialised (%d callbacks) although no created component needs it: the point went to the Primary candidate", on, n), detail)
			return
		}
	}
	c.Nontrivial("lazyprim|" + g.Sc.GraphSig())
}

// lazyMisfit: an optional by-name point names a lazy component that does not fit the field (an interface it
// does not implement): the point stays empty - and the lazy component, which nothing needs, stays untouched.
func (p c05) lazyMisfit(c *core.Ctx) {
	g := world.NewG(c.Rng)
	lz := g.AddNode(7, "lazy-b") // T07: IB only, lazy, Init + AfterPropertiesSet
	h := g.AddNode([]int{2, 13, 0, 1}[c.Rng.Intn(4)], g.FreshName(1))
	slot := []string{"IA0", "IA1", "IC0"}[c.Rng.Intn(3)] // interfaces T07 does not implement
	g.SetTag(h, slot, "wire", "lazy-b,required=false")
	for x, nx := 0, c.Rng.Intn(3); x < nx; x++ {
		g.AddRandomNode(world.TypesEagerPlain, 0.2)
	}
	g.ShuffleOrders()
	r := world.Start(g.Sc, world.Options{})
	c.Count("starts", 1)
	c.Count("lazy_candidate_starts", 1)
	detail := failDetail(g.Sc, r, map[string]any{"events": renderEvents(r.Log.Events(), 60)})
	if r.Outcome() != "ok" {
		c.Fail("", "start did not succeed: "+core.Short(r.OutcomeDetail(), 300), detail)
		return
	}
	if refs, _ := r.SlotRefs(r.Nodes[h], slot); len(refs) != 1 || !refs[0].Nil {
		c.Fail("", fmt.Sprintf("optional point %s `wire:\"lazy-b,required=false\"` was filled although the named component does not fit the field", slot), detail)
		return
	}
	ln := g.Sc.Nodes[lz].DisplayName()
	if n := countEvents(r, "init", ln) + countEvents(r, "aps", ln) + countEvents(r, "before", ln); n > 0 {
		c.Fail("", fmt.Sprintf("lazy component %q was created / initialised (%d callbacks) although no created component needs it: the only point that names it cannot hold it", ln, n), detail)
		return
	}
	c.Nontrivial("lazymisfit|" + g.Sc.GraphSig())
}

func (p c05) lazyCandidates(c *core.Ctx) {
	switch c.Rng.Intn(3) {
	case 0:
		p.lazyPrimary(c)
		return
	case 1:
		p.lazyMisfit(c)
		return
	}
	g := world.NewG(c.Rng)
	lt := 7                  // T07: lazy, Init and AfterPropertiesSet (the palette has pointer slots for types 0..7)
	sel := g.AddNode(lt, "") // the unnamed one is preferred
	var others []int
	for x := 0; x < 1+c.Rng.Intn(3); x++ {
		others = append(others, g.AddNode(lt, g.FreshName(x+1)))
	}
	h := g.AddRandomNode(world.TypesEagerPlain, 0.2)
	g.SetTag(h, fmt.Sprintf("P%02d", lt), "wire", "")
	g.ShuffleOrders()
	r := world.Start(g.Sc, world.Options{})
	c.Count("starts", 1)
	c.Count("lazy_candidate_starts", 1)
	detail := failDetail(g.Sc, r, map[string]any{"events": renderEvents(r.Log.Events(), 60)})
	if r.Outcome() != "ok" {
		c.Fail("", "start did not succeed: "+core.Short(r.OutcomeDetail(), 300), detail)
		return
	}
	refs, _ := r.SlotRefs(r.Nodes[h], fmt.Sprintf("P%02d", lt))
	if len(refs) != 1 || refs[0].Nil || refs[0].Obj != any(r.Nodes[sel]) {
		c.Fail("", "the pointer point did not receive the preferred (unnamed) candidate", detail)
		return
	}
	for _, o := range others {
		on := g.Sc.Nodes[o].DisplayName()
		if n := countEvents(r, "init", on) + countEvents(r, "aps", on); n > 0 {
			c.Fail("", fmt.Sprintf("lazy component %q was initialised (%d callbacks) although no created component needs it: it was only one of several candidates of a single-valued point that went to another one", on, n), detail)
			return
		}
	}
	c.Nontrivial("lazycand|" + g.Sc.GraphSig())
}

func firstEvent(r *world.Run, kind, who string) int {
	for _, e := range r.Log.Events() {
		if e.Kind == kind && e.Who == who {
			return e.Seq
		}
	}
	return -1
}
