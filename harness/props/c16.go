package props

import (
	"encoding/json"
	"fmt"
	"github.com/go-kid/ioc/syslog"
	"os"
	"reflect"
	"strings"
	"sync"

	"gopkg.in/yaml.v3"
	"verifharness/core"
	"verifharness/world"
)

// C16 Placeholders resolve to the configured value, else the default, and terminate.
type c16 struct{}

func init() {
	core.Register(c16{})
	os.Setenv("VERIF_AMBIENT", "from-the-process-environment")
	os.Setenv("VERIF", "from-the-process-environment")
}

var c16Ambient = []string{"home", "path", "pwd", "verif.ambient", "verif-ambient", "verif_ambient", "VERIF_AMBIENT", "verif.other"}

func (c16) ID() string    { return "C16" }
func (c16) Level() string { return "exploration" }
func (c16) Rule() string {
	return "seeded tag texts from a grammar (literal chunks, ${k}, ${k:default}, placeholders nested inside another placeholder's key, 1..4 placeholders per tag, repetitions) x seeded configurations (present scalar keys, absent keys, keys holding an empty map / empty list, values that themselves contain placeholders, reference cycles of length 1..3 incl. growing ones like a: \"x${a}\") on value / prop / prefix / wire tags of reflect.StructOf holders. Oracle (i): an independent model resolver (leftmost-innermost scan, key/default split at the first ':', present = non-nil and not an empty collection, own cycle detection) computes the replacement text T'; when T' is not type-sniffable the string field must hold exactly T' (prefix: the value at path T'; wire: the component named T'); when T' is sniffable the field is compared with a twin field tagged with the literal T' in a second start. Oracle (ii): for every configuration, cyclic or not, App.Run must return (error or value) within a step budget on Binder.Get calls (20000) - decided in logical steps; a panic is a violation. non-trivial = >= 2 placeholders, or nesting, or a configured value containing a placeholder, or a cycle; distinct = (tag text, configuration signature); a retried family: lazy component whose first creation fails after tag processing, key changed with Set, second attempt must resolve against the current configuration (value tags and placeholder-carrying prefix paths); other-tags family (user-defined tag, logger tag) and early family (components created before the refresh); defaults with blanks; configured values carrying expressions; prop keys spelled by placeholders at both ends (indirection); keys spelled like variables of the process environment (configured and not); collections family (mapping / list valued placeholders compared with a twin written with the JSON rendering); afterFailure family (a failed resolution leaves nothing behind, stall detection); no unresolved ${...} text after a successful start over a circular configuration; emptyName family (a wire tag resolving to the empty text is a by-type point); longValue family (configured values of up to 70 KB behind short tags); defaults that begin with a colon"
}
func (c16) Assumptions() []string {
	return []string{
		"configured scalars and defaults used here contain no top-level ',' (the tag grammar would split a literal twin there; that is C19's subject) and whole lists/maps are only used as the sole content of a tag",
		"termination is decided up to 20000 Binder.Get calls per start; the wall-clock watchdog is only a safety net (inconclusive)",
	}
}
func (c16) NumCases(tier string) int      { return tierN(tier, 4000, 1000000) }
func (c16) MinNontrivial(tier string) int { return tierN(tier, 800, 8000) }

type c16Cfg struct {
	tree   map[string]any // nested
	cyclic bool
}

func lookup(tree map[string]any, path string) any {
	var cur any = tree
	for _, part := range strings.Split(path, ".") {
		m, ok := cur.(map[string]any)
		if !ok {
			return nil
		}
		cur, ok = m[part]
		if !ok {
			return nil
		}
	}
	return cur
}

func present(v any) bool {
	switch x := v.(type) {
	case nil:
		return false
	case map[string]any:
		return len(x) > 0
	case []any:
		return len(x) > 0
	}
	return true
}

func textOf(v any) string {
	switch x := v.(type) {
	case string:
		return x
	case bool:
		if x {
			return "true"
		}
		return "false"
	}
	return fmt.Sprint(v)
}

// canonDefault: what a type-sniffing round trip makes of a scalar default (input classifier for the
// known finding F-C16-default-canonicalised; independent of the repository code).
func canonDefault(d string) string {
	l := strings.ToLower(d)
	switch {
	case l == "true" || l == "false":
		return l
	case numberRe.MatchString(d):
		var f float64
		fmt.Sscanf(d, "%g", &f)
		return fmt.Sprintf("%v", f)
	case len(d) > 1 && ((d[0] == '\'' && d[len(d)-1] == '\'') || (d[0] == '"' && d[len(d)-1] == '"')):
		return d[1 : len(d)-1]
	}
	return d
}

// modelResolve: (replacement text, used defaults, status "ok" | "circular")
func modelResolve(text string, tree map[string]any, canonDefaults ...bool) (string, []string, int, string) {
	seen := map[string]bool{}
	var defaults []string
	steps := 0
	for {
		if seen[text] || steps > 200 || len(text) > 4000 {
			return text, defaults, steps, "circular"
		}
		seen[text] = true
		// leftmost innermost group
		start, end := -1, -1
		for i := 0; i+1 < len(text); i++ {
			if text[i] == '$' && text[i+1] == '{' {
				j := i + 2
				for j < len(text) && text[j] != '{' && text[j] != '}' {
					j++
				}
				if j < len(text) && text[j] == '}' {
					start, end = i, j
					break
				}
			}
		}
		if start < 0 {
			return text, defaults, steps, "ok"
		}
		steps++
		content := text[start+2 : end]
		key, def, hasDef := strings.Cut(content, ":")
		var rep string
		if v := lookup(tree, key); key != "" && present(v) {
			switch v.(type) {
			case map[string]any, []any:
				// the text that stands for a non-empty mapping or list inside a tag is not laid down by the statement
				return text, defaults, steps, "composite"
			}
			rep = textOf(v)
		} else if hasDef {
			rep = def
			defaults = append(defaults, def)
			if len(canonDefaults) > 0 && canonDefaults[0] {
				rep = canonDefault(def)
			}
		}
		text = text[:start] + rep + text[end+1:]
	}
}

var c16Words = []string{"va", "vb", "alpha", "dev", "prod", "h1", "h2", "x-y", "p.q", "a/b"}
var c16Defaults = []string{"dflt", "fallback", "d1", "zz", "007", "1.10", "TRUE", "'q'", "", "Hello ", " - ", "two words", " lead", ":8080", "::1", "://host"}

func genC16Config(c *core.Ctx) c16Cfg {
	cfg := c16Cfg{tree: map[string]any{}}
	t := cfg.tree
	t["env"] = []string{"dev", "prod"}[c.Rng.Intn(2)]
	t["srv"] = map[string]any{"dev": map[string]any{"host": "h-dev"}, "prod": map[string]any{"host": "h-prod"}}
	t["comp"] = []string{"pa", "pab"}[c.Rng.Intn(2)]
	// keys whose values spell (parts of) other keys: indirection
	t["ptr"] = fmt.Sprintf("k%d", 1+c.Rng.Intn(7))
	t["sec"], t["fld"] = "srv", "host"
	if c.Rng.Intn(2) == 0 {
		t["verif"] = map[string]any{"ambient": "cfg-ambient", "other": "cfg-other"}
	}
	for i := 1; i <= 6; i++ {
		k := fmt.Sprintf("k%d", i)
		switch c.Rng.Intn(10) {
		case 9: // configured empty string: present (only nil and empty collections count as absent)
			t[k] = ""
		case 0: // absent
		case 1:
			t[k] = map[string]any{}
		case 2:
			t[k] = []any{}
		case 3:
			t[k] = c.Rng.Intn(500)
		case 4:
			t[k] = c.Rng.Intn(2) == 0
		case 6: // a configured value that carries an expression: whoever quotes it gets the expression evaluated
			if c.Rng.Intn(2) == 0 {
				t[k] = []string{"#{1+2}", "#{7*6}", "n=#{10-3}", "#{'a'+'b'}"}[c.Rng.Intn(4)]
				break
			}
			t[k] = c16Words[c.Rng.Intn(len(c16Words))]
		case 5: // value containing a placeholder
			o := fmt.Sprintf("k%d", 1+c.Rng.Intn(6))
			t[k] = []string{"${" + o + "}", "pre-${" + o + ":dd}-post", "${" + o + ":${env}}"}[c.Rng.Intn(3)]
		default:
			t[k] = c16Words[c.Rng.Intn(len(c16Words))]
		}
	}
	if c.Rng.Intn(4) == 0 {
		cfg.cyclic = true
		switch c.Rng.Intn(7) {
		case 4: // a value on the cycle quotes the cycle more than once
			t["k1"] = "${k1}${k1}"
		case 5:
			t["k1"], t["k2"] = "${k2}-${k2}", "${k1}"
		case 6:
			t["k1"], t["k2"], t["k3"] = "${k2}${k3}", "${k1}", "x${k1}"
		case 0:
			t["k1"] = "${k1}"
		case 1:
			t["k1"], t["k2"] = "${k2}", "${k1}"
		case 2:
			t["k1"], t["k2"], t["k3"] = "${k2}", "a${k3}b", "${k1}"
		case 3:
			t["k1"] = "x${k1}"
		}
	}
	return cfg
}

func genC16Text(c *core.Ctx, depth int) string {
	n := 1 + c.Rng.Intn(3)
	var sb strings.Builder
	for i := 0; i < n; i++ {
		switch c.Rng.Intn(6) {
		case 0:
			sb.WriteString(c16Words[c.Rng.Intn(len(c16Words))])
		case 1:
			sb.WriteString("${srv.${env}.host}")
		case 2:
			if depth < 2 {
				sb.WriteString("${srv." + genC16Text(c, depth+2) + ".host:nohost}")
				break
			}
			fallthrough
		default:
			k := fmt.Sprintf("k%d", 1+c.Rng.Intn(7)) // k7 never exists
			if c.Rng.Intn(12) == 0 {
				// keys that happen to be spelled like variables of the process environment (HOME, PATH, PWD and
				// VERIF_AMBIENT, which the worker sets itself): the configuration is the only source of values
				k = c16Ambient[c.Rng.Intn(len(c16Ambient))]
			}
			if c.Rng.Intn(2) == 0 {
				sb.WriteString("${" + k + "}")
			} else {
				sb.WriteString("${" + k + ":" + c16Defaults[c.Rng.Intn(len(c16Defaults))] + "}")
			}
		}
	}
	return sb.String()
}

// emptyName: a wire tag made of a placeholder that resolves to the empty text (key absent or an empty map, default
// empty) is processed as if it had been written wire:"" - the point is wired by type.
func (p c16) emptyName(c *core.Ctx) {
	g := world.NewG(c.Rng)
	a := g.AddNode(0, "store-a")
	g.AddNode(3, "other-b")
	g.ShuffleOrders()
	g.Sc.Config = []string{"x: 1\n", "store:\n  impl: {}\n", "store:\n  impl: []\n", "store:\n  other: y\n"}[c.Rng.Intn(4)]
	text := []string{"${store.impl:}", "${store.impl:${store.fallback:}}", "${store.impl:}${store.more:}", "${store.${nokey:impl}:}"}[c.Rng.Intn(4)]
	required := c.Rng.Intn(2) == 0
	tag := text
	if !required {
		tag += ",required=false"
	}
	pt := reflect.TypeOf(world.Palette[0].New())
	fields := []world.FieldSpec{{Name: "F", Type: pt, Tag: world.WireTag("wire", tag)}, {Name: "Twin", Type: pt, Tag: `wire:""`}}
	h := world.NewHolder(world.BuildStruct(fields))
	r := world.Start(g.Sc, world.Options{Extra: []any{h}, NoTracer: true, BinderBudget: 20000})
	c.Count("starts", 1)
	c.Count("wire_tags_resolving_to_the_empty_text", 1)
	detail := map[string]any{"tag": world.WireTag("wire", tag), "config": g.Sc.Config, "outcome": core.Short(r.OutcomeDetail(), 400)}
	hv := reflect.ValueOf(h).Elem()
	f, twin := hv.Field(0).Interface(), hv.Field(1).Interface()
	if r.Outcome() != "ok" || f != twin || f != any(r.Nodes[a]) {
		c.Fail("", fmt.Sprintf("tag %s resolves to the empty text: start %s, field holds %v, its twin written wire:\"\" holds %v", world.WireTag("wire", tag), r.Outcome(), f, twin), detail)
		return
	}
	c.Nontrivial("emptyname|" + text + g.Sc.Config + fmt.Sprint(required))
}

// longValue: the configured value of a placeholder may be long (a certificate, a key, a JSON text) whatever the
// length of the tag that quotes it.
func (p c16) longValue(c *core.Ctx) {
	n := []int{900, 3990, 4100, 5000, 9000, 26001, 70000}[c.Rng.Intn(7)] + c.Rng.Intn(50)
	var sb strings.Builder
	for sb.Len() < n {
		sb.WriteString(plainWords[c.Rng.Intn(len(plainWords))])
		sb.WriteByte("-_ /+"[c.Rng.Intn(5)])
	}
	val := "v" + strings.TrimSpace(sb.String()) + "e"
	key := []string{"c", "k", "tls.certificate.bundle"}[c.Rng.Intn(3)]
	b, _ := yaml.Marshal(setPath(map[string]any{"pre": "p"}, key, val))
	form := c.Rng.Intn(5)
	tag, want := "", val
	switch form {
	case 0:
		tag = fmt.Sprintf("value:%q", "${"+key+"}")
	case 1:
		tag = fmt.Sprintf("prop:%q", key)
	case 2:
		tag = fmt.Sprintf("value:%q", "${"+key+":d}")
	case 3:
		tag, want = fmt.Sprintf("value:%q", "${pre}-${"+key+"}"), "p-"+val
	default:
		tag = fmt.Sprintf("value:%q", "${"+key+"},required=false")
	}
	h := world.NewHolder(world.BuildStruct([]world.FieldSpec{{Name: "F", Type: reflect.TypeOf(""), Tag: tag}}))
	r := world.Start(&world.Scenario{Config: string(b)}, world.Options{Extra: []any{h}, NoTracer: true, BinderBudget: 20000})
	c.Count("starts", 1)
	c.Count("long_configured_values", 1)
	got := reflect.ValueOf(h).Elem().Field(0).String()
	if r.Outcome() != "ok" || got != want {
		c.Fail("", fmt.Sprintf("tag %s with a configured value of %d bytes: start %s, field holds %d bytes (%q...): %s", tag, len(val), r.Outcome(), len(got), core.Short(got, 40), core.Short(r.OutcomeDetail(), 200)),
			map[string]any{"tag": tag, "value_length": len(val), "value_head": core.Short(val, 200)})
		return
	}
	c.Nontrivial(fmt.Sprint("longvalue|", form, key, n))
}

func (p c16) Run(c *core.Ctx) {
	if c.Index%20 == 1 {
		p.emptyName(c)
		return
	}
	if c.Index%20 == 13 {
		p.longValue(c)
		return
	}
	if c.Index%10 == 9 {
		p.changing(c)
		return
	}
	if c.Index%10 == 4 {
		p.retried(c)
		return
	}
	if c.Index%10 == 2 {
		p.otherTags(c)
		return
	}
	if c.Index%20 == 6 {
		p.early(c)
		return
	}
	if c.Index%20 == 16 {
		p.collections(c)
		return
	}
	if c.Index%20 == 11 {
		p.afterFailure(c)
		return
	}
	cfg := genC16Config(c)
	b, _ := yaml.Marshal(cfg.tree)
	doc := string(b)
	text := genC16Text(c, 0)
	kind := []string{"value", "value", "value", "prop", "prefix", "wire"}[c.Rng.Intn(6)]
	var tag string
	var ft reflect.Type = reflect.TypeOf("")
	full := text
	switch kind {
	case "value":
		tag = fmt.Sprintf("value:%q", text+",required=false")
	case "prop":
		// prop:"k:default" is shorthand for value:"${k:default}"
		k := fmt.Sprintf("k%d", 1+c.Rng.Intn(7))
		inner := k
		if c.Rng.Intn(2) == 0 {
			inner = k + ":" + c16Defaults[c.Rng.Intn(len(c16Defaults))]
		}
		switch c.Rng.Intn(6) {
		case 0:
			inner = "srv.${env}.host"
		case 1:
			// the key of the shorthand spelled by placeholders at both of its ends
			inner = []string{"${ptr}", "${sec}.${env}.${fld}", "${sec}.dev.${fld:host}", "${k7:srv}.${env}.${k7:host}", "${ptr}:${k7:dflt}", "${k7:${ptr}}"}[c.Rng.Intn(6)]
			c.Count("prop_keys_spelled_by_placeholders_at_both_ends", 1)
		}
		full = "${" + inner + "}"
		tag = fmt.Sprintf("prop:%q", inner+",required=false")
	case "prefix":
		full = []string{"srv.${env}.host", "srv.${k7:dev}.host", "${k6:srv.dev.host}"}[c.Rng.Intn(3)]
		tag = fmt.Sprintf("prefix:%q", full+",required=false")
	case "wire":
		full = []string{"${comp}", "${k7:pa}", "p${k7:a}", "${k7:${comp}}"}[c.Rng.Intn(4)]
		tag = fmt.Sprintf("wire:%q", full+",required=false")
		ft = world.TypeIA
	}
	want, usedDefaults, steps, status := modelResolve(full, cfg.tree)
	nPlace := strings.Count(full, "${")
	valueHasPlaceholder := false
	for _, v := range cfg.tree {
		if s, ok := v.(string); ok && strings.Contains(s, "${") {
			valueHasPlaceholder = true
		}
	}
	start := func(tag string, ft reflect.Type) (any, *world.Run) {
		h := world.NewHolder(world.BuildStruct([]world.FieldSpec{{Name: "F", Type: ft, Tag: tag}}))
		g := world.NewG(c.Rng)
		g.AddNode(0, "pa")
		k := g.AddNode(3, "pab")
		g.Sc.Nodes[k].Qual = "g1"
		g.Sc.Config = doc
		r := world.Start(g.Sc, world.Options{Extra: []any{h}, NoTracer: true, BinderBudget: 20000})
		return reflect.ValueOf(h).Elem().Field(0).Interface(), r
	}
	got, r := start(tag, ft)
	c.Count("starts", 1)
	c.Count("binder_gets", r.Binder.Count())
	detail := func(extra map[string]any) map[string]any {
		d := map[string]any{"tag": tag, "config": doc, "model_replacement": want, "model_status": status, "model_steps": steps, "outcome": core.Short(r.OutcomeDetail(), 300)}
		for k, v := range extra {
			d[k] = v
		}
		return d
	}
	// (ii) termination / no panic for every configuration
	switch r.Outcome() {
	case "diverged":
		class := ""
		if status == "circular" {
			class = "F-C16-circular-diverges"
		}
		c.Fail(class, fmt.Sprintf("tag %s: placeholder resolution did not terminate within the Binder.Get budget (%s)", tag, r.Diverge.Error()), detail(nil))
		return
	case "stalled":
		c.Fail("", fmt.Sprintf("tag %s: App.Run hangs (%s)", tag, r.OutcomeDetail()), detail(nil))
		return
	case "panic":
		c.Fail("", fmt.Sprintf("tag %s: panic escaped App.Run: %v", tag, r.Panic), detail(map[string]any{"stack": core.Short(r.Stack, 1500)}))
		return
	}
	if status == "composite" {
		c.Count("placeholders_quoting_a_mapping_or_list_not_judged", 1)
		return
	}
	nontrivial := nPlace >= 2 || strings.Contains(full, "${srv.") || valueHasPlaceholder || status == "circular"
	if status == "circular" {
		c.Count("circular_configs_terminated", 1)
		// error or empty value are both acceptable - placeholder text that was never resolved is neither
		if gs, isStr := got.(string); isStr && r.Outcome() == "ok" && strings.Contains(gs, "${") {
			c.Fail("", fmt.Sprintf("tag %s over a circular configuration: the start succeeded and the field holds the unresolved text %q (neither an error nor an empty value)", tag, gs), detail(nil))
			return
		}
		c.Nontrivial(full + "|" + doc)
		return
	}
	// (i) the replacement
	class := ""
	wantCanon, _, _, _ := modelResolve(full, cfg.tree, true)
	for _, d := range usedDefaults {
		if sniffable(d) && d != "" && wantCanon != want {
			class = "F-C16-default-canonicalised" // only granted below when the observation equals wantCanon
		}
	}
	switch kind {
	case "value", "prop":
		if !sniffable(want) && !strings.Contains(want, "#{") {
			if r.Outcome() != "ok" || got != any(want) {
				if got != any(wantCanon) {
					class = "" // not explained by canonicalised defaults
				}
				c.Fail(class, fmt.Sprintf("tag %s: field holds %q (%s), the replacement text is %q", tag, got, r.Outcome(), want), detail(map[string]any{"replacement_with_canonicalised_defaults": wantCanon}))
				return
			}
		} else {
			// compare with a twin written with the replacement text
			got2, r2 := start(fmt.Sprintf("value:%q", want+",required=false"), ft)
			c.Count("starts", 1)
			c.Count("twin_comparisons", 1)
			if r2.Outcome() != r.Outcome() || !reflect.DeepEqual(got, got2) {
				if class == "" && sniffable(want) {
					class = "F-C16-sniffable-replacement-vs-literal"
				}
				c.Fail(class, fmt.Sprintf("tag %s: field holds %q (%s), a twin written with the replacement text %q holds %q (%s)", tag, got, r.Outcome(), want, got2, r2.Outcome()), detail(nil))
				return
			}
		}
	case "prefix":
		if want == "" {
			break // an empty prefix addresses the whole configuration; not this property's subject
		}
		exp := lookup(cfg.tree, want)
		if s, ok := exp.(string); ok && strings.Contains(s, "${") {
			break // prefix-bound values are not resolved further; not judged here
		}
		var wantS any = ""
		if exp != nil {
			if _, isMap := exp.(map[string]any); isMap {
				break
			}
			if _, isList := exp.([]any); isList {
				break
			}
			wantS = textOf(exp)
			if b, ok := exp.(bool); ok { // weakly typed decode of a bool into a string
				wantS = map[bool]string{true: "1", false: "0"}[b]
			}
		}
		if r.Outcome() != "ok" || got != wantS {
			c.Fail(class, fmt.Sprintf("tag %s: field holds %q (%s), expected the value at path %q = %q", tag, got, r.Outcome(), want, wantS), detail(nil))
			return
		}
	case "wire":
		name := ""
		if n, ok := got.(world.Node); ok && got != nil {
			name = n.DisplayName()
		}
		wantName := want
		if want != "pa" && want != "pab" {
			wantName = "" // absent name, optional point
		}
		if r.Outcome() != "ok" || name != wantName {
			c.Fail(class, fmt.Sprintf("tag %s: injected component %q (%s), expected the component named %q", tag, name, r.Outcome(), want), detail(nil))
			return
		}
	}
	c.Count("replacements_checked", 1)
	c.Count("kind_"+kind, 1)
	if nontrivial {
		c.Nontrivial(full + "|" + doc)
		if c.WantSample() {
			c.Sample(detail(map[string]any{"bound": fmt.Sprint(got)}))
		}
	}
}

// changing: the configuration changes (Configure.Set from a component's Init) between the resolution
// of two tags that quote the same key; every resolution must see the value configured at that time.
// setPath returns a copy of tree with path set to v.
func setPath(tree map[string]any, path string, v any) map[string]any {
	out := map[string]any{}
	for k, x := range tree {
		out[k] = x
	}
	parts := strings.Split(path, ".")
	if len(parts) == 1 {
		out[path] = v
		return out
	}
	sub, _ := out[parts[0]].(map[string]any)
	if sub == nil {
		sub = map[string]any{}
	}
	out[parts[0]] = setPath(sub, strings.Join(parts[1:], "."), v)
	return out
}

// retried: a component that is fetched on demand; its first creation attempt fails after its tags were
// processed (its Init fails once, or a placeholder without default names a key that is absent), the
// caller swallows the error, the configuration changes at run time, and the component is requested
// again. Every attempt processes the tags as written, against the configuration of that moment.
func (p c16) retried(c *core.Ctx) {
	g := world.NewG(c.Rng)
	h := g.AddNode(8, "on-demand") // T08: lazy, has Init
	key := []string{"feature.mode", "k1", "srv.region"}[c.Rng.Intn(3)]
	sel := []string{"pick", "srv.pick"}[c.Rng.Intn(2)]
	initial := []any{nil, "local", 7}[c.Rng.Intn(3)]
	updated := []string{"remote", "eu", "v2"}[c.Rng.Intn(3)]
	tags := []string{"${" + key + ":dflt}", "x-${" + key + ":dflt}-y", "${" + key + "}", "${" + key + "}/${" + key + ":d}", "${${" + sel + ":" + key + "}:dd}"}
	tag := tags[c.Rng.Intn(len(tags))]
	required := tag == "${"+key+"}" && c.Rng.Intn(2) == 0
	failInit := !(required && initial == nil) // otherwise the absent key already fails the first attempt
	val := tag
	if !required {
		val += ",required=false"
	}
	cfg := map[string]world.TagSpec{"CfgS": {Tag: "value", Val: val}}
	// a section chosen by a placeholder inside a prefix path
	withPrefix := c.Rng.Intn(2) == 0
	if withPrefix {
		cfg["CfgM"] = world.TagSpec{Tag: "prefix", Val: "sect.${" + key + ":dflt}"}
	}
	g.Sc.Nodes[h].Cfg = cfg
	if failInit {
		g.Sc.Nodes[h].FailOnce = []string{"init"}
	}
	tree := map[string]any{"other": "x", "sect": map[string]any{
		"dflt": map[string]any{"who": "d"}, "local": map[string]any{"who": "l"}, "7": map[string]any{"who": "seven"},
		"remote": map[string]any{"who": "r"}, "eu": map[string]any{"who": "e"}, "v2": map[string]any{"who": "v"}}}
	if initial != nil {
		tree = setPath(tree, key, initial)
	}
	b, _ := yaml.Marshal(tree)
	g.Sc.Config = string(b)
	run := world.Build(g.Sc, world.Options{NoTracer: true, BinderBudget: 20000})
	run.Go()
	c.Count("starts", 1)
	detail := map[string]any{"tag": val, "key": key, "initial": fmt.Sprint(initial), "set_between_the_attempts": updated, "init_fails_once": failInit, "config": g.Sc.Config}
	if run.Outcome() != "ok" {
		c.Fail("", "start with a lazy, unreferenced component did not succeed: "+core.Short(run.OutcomeDetail(), 300), detail)
		return
	}
	var err1, err2 error
	run.Guard(func() { _, err1 = run.App.GetComponentByName("on-demand") })
	if run.Panic != nil {
		c.Fail("", fmt.Sprintf("first lookup panicked: %v", run.Panic), detail)
		return
	}
	if err1 == nil {
		c.Fail("", "the first creation attempt was expected to fail (harness assumption broken)", detail)
		return
	}
	run.App.Set(key, updated)
	tree2 := setPath(tree, key, updated)
	run.Guard(func() { _, err2 = run.App.GetComponentByName("on-demand") })
	if run.Panic != nil {
		c.Fail("", fmt.Sprintf("second lookup panicked: %v", run.Panic), detail)
		return
	}
	detail["first_error"] = core.Short(err1.Error(), 200)
	if err2 != nil {
		c.Fail("", fmt.Sprintf("after %q was set to %q the re-attempted creation still fails: %s", key, updated, core.Short(err2.Error(), 300)), detail)
		return
	}
	want, _, _, _ := modelResolve(tag, tree2)
	if got := run.Nodes[h].Slot().CfgS; got != want {
		c.Fail("", fmt.Sprintf("re-attempted creation after %q was set to %q: tag %q resolved to %q, expected %q", key, updated, tag, got, want), detail)
		return
	}
	if withPrefix {
		wantSect, _, _, _ := modelResolve("sect.${"+key+":dflt}", tree2)
		wm, _ := lookup(tree2, wantSect).(map[string]any)
		got := run.Nodes[h].Slot().CfgM
		if fmt.Sprint(got["who"]) != fmt.Sprint(wm["who"]) {
			c.Fail("", fmt.Sprintf("re-attempted creation after %q was set to %q: prefix path resolved to a section with who=%v, expected section %q (who=%v)", key, updated, got["who"], wantSect, wm["who"]), detail)
			return
		}
	}
	c.Count("retried_creations_checked", 1)
	c.Nontrivial("retried|" + val + "|" + fmt.Sprint(initial, updated, failInit, withPrefix))
}

func (p c16) changing(c *core.Ctx) {
	g := world.NewG(c.Rng)
	first := g.AddNode(0, "a-first")   // T00 has Init and AfterPropertiesSet; sorts before the second
	second := g.AddNode(1, "z-second") // created afterwards by the name-sorted refresh
	key := []string{"feature.mode", "k1", "srv.region"}[c.Rng.Intn(3)]
	initial := []any{nil, "local", 7}[c.Rng.Intn(3)]
	updated := []string{"remote", "eu", "v2"}[c.Rng.Intn(3)]
	tag := []string{"${" + key + ":dflt}", "x-${" + key + ":dflt}-y", "${" + key + "}"}[c.Rng.Intn(3)]
	g.Sc.Nodes[first].Cfg = map[string]world.TagSpec{"CfgS": {Tag: "value", Val: tag + ",required=false"}}
	g.Sc.Nodes[second].Cfg = map[string]world.TagSpec{"CfgS": {Tag: "value", Val: tag + ",required=false"}}
	tree := map[string]any{"other": "x"}
	if initial != nil {
		cur := tree
		parts := strings.Split(key, ".")
		for _, pp := range parts[:len(parts)-1] {
			m := map[string]any{}
			cur[pp] = m
			cur = m
		}
		cur[parts[len(parts)-1]] = initial
	}
	b, _ := yaml.Marshal(tree)
	g.Sc.Config = string(b)
	var run *world.Run
	done := false
	opt := world.Options{NoTracer: true, BinderBudget: 20000, Hook: func(kind string, who world.Node) {
		if kind == "init" && who.DisplayName() == "a-first" && !done {
			done = true
			run.App.Set(key, updated)
		}
	}}
	run = world.Build(g.Sc, opt)
	run.Go()
	c.Count("starts", 1)
	c.Count("config_change_cases", 1)
	detail := map[string]any{"tag": tag, "key": key, "initial": fmt.Sprint(initial), "set_in_Init_of_first": updated, "config": g.Sc.Config, "outcome": core.Short(run.OutcomeDetail(), 300)}
	if run.Outcome() != "ok" {
		c.Fail("", "start with a configuration change between two resolutions did not succeed: "+core.Short(run.OutcomeDetail(), 300), detail)
		return
	}
	want1, _, _, _ := modelResolve(tag, tree)
	tree2 := map[string]any{}
	for k, v := range tree {
		tree2[k] = v
	}
	cur := tree2
	parts := strings.Split(key, ".")
	for _, pp := range parts[:len(parts)-1] {
		m := map[string]any{}
		if old, ok := cur[pp].(map[string]any); ok {
			for k, v := range old {
				m[k] = v
			}
		}
		cur[pp] = m
		cur = m
	}
	cur[parts[len(parts)-1]] = updated
	want2, _, _, _ := modelResolve(tag, tree2)
	got1 := run.Nodes[first].Slot().CfgS
	got2 := run.Nodes[second].Slot().CfgS
	if got1 != want1 {
		c.Fail("", fmt.Sprintf("first component: tag %q resolved to %q, expected %q", tag, got1, want1), detail)
		return
	}
	if got2 != want2 {
		c.Fail("", fmt.Sprintf("second component (created after the key was set to %q): tag %q resolved to %q, expected %q", updated, tag, got2, want2), detail)
		return
	}
	c.Nontrivial("changing|" + tag + "|" + fmt.Sprint(initial) + updated)
}

// otherTags: "any tag text" - placeholders in the tag of a user-defined tag processor (own tag, own
// property type) and in a logger tag are replaced like everywhere else.
func (p c16) otherTags(c *core.Ctx) {
	cfg := genC16Config(c)
	b, _ := yaml.Marshal(cfg.tree)
	text := genC16Text(c, 0)
	want, _, _, status := modelResolve(text, cfg.tree)
	if status != "ok" || strings.ContainsAny(want, ",") || strings.ContainsAny(text, ",") {
		return // only resolvable texts whose replacement is a plain value part are judged here
	}
	fields := []world.FieldSpec{
		{Name: "F", Type: reflect.TypeOf(""), Tag: fmt.Sprintf("label:%q", text)},
		{Name: "L", Type: reflect.TypeOf((*syslog.Logger)(nil)).Elem(), Tag: fmt.Sprintf("logger:%q", text)},
		{Name: "V", Type: reflect.TypeOf(""), Tag: fmt.Sprintf("value:%q", text+",required=false")},
	}
	h := world.NewHolder(world.BuildStruct(fields))
	g := world.NewG(c.Rng)
	g.Sc.Config = string(b)
	r := world.Start(g.Sc, world.Options{Extra: []any{h, world.NewLabelPP()}, NoTracer: true, BinderBudget: 20000})
	c.Count("starts", 1)
	detail := map[string]any{"tag_text": text, "config": string(b), "model_replacement": want, "outcome": core.Short(r.OutcomeDetail(), 300)}
	if r.Outcome() != "ok" {
		if abnormal(r.Outcome()) {
			c.Fail("", fmt.Sprintf("tag text %q on a user-defined tag / logger tag: %s", text, r.OutcomeDetail()), detail)
		}
		return
	}
	hv := reflect.ValueOf(h).Elem()
	vGot := hv.Field(2).String()
	if vGot != want {
		return // a sniffable replacement etc.: the value path is judged by the main family
	}
	if got := hv.Field(0).String(); got != want {
		c.Fail("", fmt.Sprintf("user-defined tag label:%q: its processor was handed %q, the replacement text is %q (a value tag with the same text gives %q)", text, got, want, vGot), detail)
		return
	}
	if l, ok := hv.Field(1).Interface().(syslog.Logger); ok && l != nil {
		if pref, known := world.PrefixOf(l); known && want != "" && pref != want {
			c.Fail("", fmt.Sprintf("logger:%q: the logger was made for prefix %q, the replacement text is %q", text, pref, want), detail)
			return
		}
	}
	c.Count("other_tag_cases_checked", 1)
	if strings.Contains(text, "${") {
		c.Nontrivial("othertags|" + text + "|" + want)
	}
}

// early: components that are created before the refresh - a post-processor that is itself a component,
// and what is wired into it - resolve their placeholders against the loaded configuration like
// everybody else.
// collections: a placeholder whose key holds a (non-empty) mapping or list - with empty lists / mappings
// nested below the top level - is replaced by that value: the field holds what a twin field written with the
// replacement text (the value's JSON rendering, computed by the generator from its own tree) holds.
func (p c16) collections(c *core.Ctx) {
	word := func() string { return c16Words[c.Rng.Intn(len(c16Words))] }
	emptyOr := func() any {
		if c.Rng.Intn(2) == 0 {
			return []any{}
		}
		return []any{word()}
	}
	tree := map[string]any{
		"svc2":   map[string]any{"name": word(), "tags": emptyOr(), "retry": map[string]any{"codes": emptyOr(), "label": word()}},
		"matrix": []any{[]any{word(), word()}, emptyOr()},
	}
	if c.Rng.Intn(3) == 0 {
		tree["svc2"].(map[string]any)["extra"] = map[string]any{}
	}
	doc, _ := yaml.Marshal(tree)
	key := []string{"svc2", "matrix", "svc2.retry"}[c.Rng.Intn(3)]
	val := lookup(tree, key)
	js, _ := json.Marshal(val)
	var ft reflect.Type = reflect.TypeOf(map[string]any{})
	if key == "matrix" {
		ft = reflect.TypeOf([]any{})
	}
	form := c.Rng.Intn(3)
	tag := []string{fmt.Sprintf("value:%q", "${"+key+"}"), fmt.Sprintf("prop:%q", key), fmt.Sprintf("value:%q", "${"+key+":fallback}")}[form]
	twinTag := fmt.Sprintf("value:%q", string(js))
	start := func(tag string) (any, *world.Run) {
		h := world.NewHolder(world.BuildStruct([]world.FieldSpec{{Name: "F", Type: ft, Tag: tag}}))
		sc := &world.Scenario{Config: string(doc)}
		r := world.Start(sc, world.Options{Extra: []any{h}, NoTracer: true})
		return reflect.ValueOf(h).Elem().Field(0).Interface(), r
	}
	got, r := start(tag)
	twin, r2 := start(twinTag)
	c.Count("starts", 2)
	detail := map[string]any{"tag": tag, "twin_tag": twinTag, "config": string(doc), "outcome": core.Short(r.OutcomeDetail(), 300), "twin_outcome": core.Short(r2.OutcomeDetail(), 300)}
	if abnormal(r.Outcome()) || abnormal(r2.Outcome()) {
		c.Fail("", fmt.Sprintf("tag %s: %s / twin: %s", tag, r.OutcomeDetail(), r2.OutcomeDetail()), detail)
		return
	}
	if r.Outcome() != r2.Outcome() {
		c.Fail("", fmt.Sprintf("tag %s starts with outcome %s, its twin written with the replacement text %s with outcome %s", tag, r.Outcome(), twinTag, r2.Outcome()), detail)
		return
	}
	if r.Outcome() != "ok" {
		return
	}
	gj, _ := json.Marshal(got)
	tj, _ := json.Marshal(twin)
	if string(gj) != string(tj) {
		c.Fail("", fmt.Sprintf("tag %s: the field holds %s, a twin written with the replacement text holds %s", tag, gj, tj), detail)
		return
	}
	if string(tj) != string(js) {
		c.Ambiguous() // the literal itself is not bound as the generator's rendering: nothing to compare against
		return
	}
	c.Count("collection_valued_placeholders_checked", 1)
	c.Nontrivial("collections|" + tag + "|" + string(js))
}

// afterFailure: a resolution that ends in an error (a circular reference in a lazy component, looked up after
// the start, the caller handles the error) leaves nothing behind: the next component's placeholders resolve -
// and terminate - as usual.
func (p c16) afterFailure(c *core.Ctx) {
	g := world.NewG(c.Rng)
	bad := g.AddNode([]int{8, 7, 14}[c.Rng.Intn(3)], "lazy-bad")
	good := g.AddNode([]int{8, 7, 14}[c.Rng.Intn(3)], "lazy-good")
	cyc := [][2]string{{"${c2}", "${c1}"}, {"x${c1}", "unused"}, {"${c2}-${c2}", "${c1}"}}[c.Rng.Intn(3)]
	g.Sc.Config = fmt.Sprintf("c1: %q\nc2: %q\nok:\n  key: fine\n", cyc[0], cyc[1])
	g.Sc.Nodes[bad].Cfg = map[string]world.TagSpec{"CfgS": {Tag: "value", Val: []string{"${c1}", "pre-${c1}", "${c1:dflt}"}[c.Rng.Intn(3)]}}
	goodTag := []string{"${ok.key}", "${ok.none:fine}", "${ok.${ok.sel:key}}"}[c.Rng.Intn(3)]
	g.Sc.Nodes[good].Cfg = map[string]world.TagSpec{"CfgS": {Tag: "value", Val: goodTag}}
	r := world.Start(g.Sc, world.Options{NoTracer: true, BinderBudget: 200000})
	c.Count("starts", 1)
	c.Count("resolutions_after_a_failed_resolution", 1)
	detail := map[string]any{"config": g.Sc.Config, "bad_tag": g.Sc.Nodes[bad].Cfg["CfgS"].Val, "good_tag": goodTag, "outcome": core.Short(r.OutcomeDetail(), 300)}
	if r.Outcome() != "ok" {
		c.Fail("", "start with two untouched lazy components: "+core.Short(r.OutcomeDetail(), 300), detail)
		return
	}
	var wg sync.WaitGroup
	var err1, err2 error
	wg.Add(1)
	go func() {
		defer wg.Done()
		r.Guard(func() { _, err1 = r.App.GetComponentByName("lazy-bad") })
		if r.Panic != nil || r.Diverge != nil {
			return
		}
		r.Guard(func() { _, err2 = r.App.GetComponentByName("lazy-good") })
	}()
	if !waitOrStall(&wg, func() int64 { return int64(r.Binder.Count()) }) {
		c.Fail("", "after a lookup whose placeholder resolution ended in an error (circular reference), the lookup of another lazy component hangs", detail)
		return
	}
	if r.Panic != nil || r.Diverge != nil {
		c.Fail("", "lookups of lazy components with placeholders: "+core.Short(r.OutcomeDetail(), 300), detail)
		return
	}
	if err2 != nil || r.Nodes[good].Slot().CfgS != "fine" {
		c.Fail("", fmt.Sprintf("after a failed resolution (%v) the next component's tag %q gives %q (%v), expected \"fine\"", err1 != nil, goodTag, r.Nodes[good].Slot().CfgS, err2), detail)
		return
	}
	c.Nontrivial("afterfailure|" + g.Sc.Config + goodTag)
}

func (p c16) early(c *core.Ctx) {
	cfg := genC16Config(c)
	b, _ := yaml.Marshal(cfg.tree)
	text := genC16Text(c, 0)
	want, _, _, status := modelResolve(text, cfg.tree)
	if status != "ok" || strings.ContainsAny(text, ",") {
		return
	}
	g := world.NewG(c.Rng)
	dep := g.AddNode([]int{0, 1, 3}[c.Rng.Intn(3)], g.FreshName(0)) // the only IA: wired into the post-processor by type
	late := g.AddNode(2, g.FreshName(1))                            // not an IA; created by the refresh
	for _, k := range []int{dep, late} {
		g.Sc.Nodes[k].Cfg = map[string]world.TagSpec{"CfgS": {Tag: "value", Val: text + ",required=false"}}
	}
	g.Sc.Config = string(b)
	g.ShuffleOrders()
	pp := world.NewPPDep(1+c.Rng.Intn(2), "early-pp", []int{100, 50, 9}[c.Rng.Intn(3)])
	r := world.Start(g.Sc, world.Options{Extra: []any{pp}, NoTracer: true, BinderBudget: 20000})
	c.Count("starts", 1)
	detail := map[string]any{"tag_text": text, "config": string(b), "model_replacement": want, "outcome": core.Short(r.OutcomeDetail(), 300)}
	if r.Outcome() != "ok" {
		if abnormal(r.Outcome()) {
			c.Fail("", fmt.Sprintf("tag text %q: %s", text, r.OutcomeDetail()), detail)
		}
		return
	}
	gotLate, gotEarly := r.Nodes[late].Slot().CfgS, r.Nodes[dep].Slot().CfgS
	if gotLate != want {
		return // sniffable replacement etc.: judged by the main family
	}
	if gotEarly != gotLate {
		c.Fail("", fmt.Sprintf("tag text %q: a component created before the refresh (wired into a post-processor) was given %q, a component created by the refresh %q", text, gotEarly, gotLate), detail)
		return
	}
	c.Count("early_component_cases_checked", 1)
	if strings.Contains(text, "${") {
		c.Nontrivial("early|" + text + "|" + want)
	}
}
