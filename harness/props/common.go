// Package props holds one generator + oracle per property.
package props

import (
	"fmt"
	"math/rand"
	"runtime"
	"sort"
	"strings"
	"sync"
	"time"

	"verifharness/core"
	"verifharness/mon"
	"verifharness/world"
)

func tierN(tier string, quick, thorough int) int {
	if tier == "thorough" {
		return thorough
	}
	return quick
}

// ---------------------------------------------------------------------------------------------
// enumerated digraphs on n <= 4 nodes

var enumTypes = []int{0, 1, 3, 6}                // all implement IA and have a pointer slot
var enumNames = []string{"b1", "d2", "m3", "p4"} // App's own name sorts between d2 and m3

// EnumDigraph builds the scenario for graph number gi (bit i*n+j = edge i->j, no self loops are
// taken from the mask), name assignment permutation pi and edge kind k
// (0 named pointer, 1 named interface, 2 named any, 3 by-type pointer, 4 mixed).
func EnumDigraph(n, gi, pi, kind int, rng *rand.Rand) *world.Scenario {
	g := world.NewG(rng)
	perm := mon.KthPerm([]int{0, 1, 2, 3}[:n], pi)
	for i := 0; i < n; i++ {
		g.AddNode(enumTypes[i], enumNames[perm[i]])
	}
	bit := 0
	for i := 0; i < n; i++ {
		for j := 0; j < n; j++ {
			if i == j {
				continue
			}
			if gi&(1<<bit) != 0 {
				k := kind
				if k == 4 {
					k = rng.Intn(4)
				}
				switch k {
				case 0:
					g.EdgeByName(i, j, "", "ptr")
				case 1:
					g.EdgeByName(i, j, "", "iface")
				case 2:
					if g.EdgeByName(i, j, "", "any") == "" {
						g.EdgeByName(i, j, "", "iface")
					}
				case 3:
					g.SetTag(i, fmt.Sprintf("P%02d", enumTypes[j]), "wire", "")
				}
			}
			bit++
		}
	}
	return g.Sc
}

func NumDigraphs(n int) int { return 1 << (n * (n - 1)) }
func Fact(n int) int {
	f := 1
	for i := 2; i <= n; i++ {
		f *= i
	}
	return f
}

// ---------------------------------------------------------------------------------------------
// random graph scenarios

type GraphOpts struct {
	MinN, MaxN  int
	Types       []int
	PCycle      float64 // probability of a random Hamiltonian cycle over a subset
	Chords      int     // max additional random edges per node (by name)
	ByTypeSlice float64 // probability per node of a by-type slice point
	QualSlice   float64 // probability per node of a qualified slice point
	ByTypeUniq  float64 // probability per node of a by-type single point whose target is determined
	OnlyIface   bool    // only interface-typed slots (wrappers can stand in)
	PUnnamed    float64
}

var qualPool = []string{"g1", "g2", "g3", "G1"} // "G1" vs "g1": qualifiers are compared exactly

// RandomGraph builds a random scenario. All by-name edges are satisfiable by construction.
func RandomGraph(rng *rand.Rand, o GraphOpts) *world.Scenario {
	g := world.NewG(rng)
	n := o.MinN + rng.Intn(o.MaxN-o.MinN+1)
	for i := 0; i < n; i++ {
		k := g.AddRandomNode(o.Types, o.PUnnamed)
		if world.Palette[g.Sc.Nodes[k].Type].Qualifier && rng.Intn(3) > 0 {
			g.Sc.Nodes[k].Qual = qualPool[rng.Intn(len(qualPool))]
		}
		g.Sc.Nodes[k].Ord = rng.Intn(7) - 3
	}
	kinds := []string{}
	if o.OnlyIface {
		kinds = []string{"iface"}
	}
	edge := func(i, j int) {
		if i == j {
			return
		}
		g.EdgeByName(i, j, "", kinds...)
	}
	if rng.Float64() < o.PCycle && n >= 2 {
		m := 2 + rng.Intn(n-1)
		p := rng.Perm(n)[:m]
		for x := 0; x < m; x++ {
			edge(p[x], p[(x+1)%m])
		}
	}
	for i := 0; i < n; i++ {
		c := 0
		if o.Chords > 0 {
			c = rng.Intn(o.Chords + 1)
		}
		for x := 0; x < c; x++ {
			edge(i, rng.Intn(n))
		}
		if !o.OnlyIface || true {
			if rng.Float64() < o.ByTypeSlice {
				slots := g.FreeSlots(i, func(si world.SlotInfo) bool {
					if o.OnlyIface {
						return si.Kind == "sliceiface"
					}
					return si.Kind == "sliceiface" || si.Kind == "sliceptr"
				})
				if len(slots) > 0 {
					g.SetTag(i, slots[rng.Intn(len(slots))], "wire", ",required=false")
				}
			}
			if rng.Float64() < o.QualSlice {
				slots := g.FreeSlots(i, func(si world.SlotInfo) bool { return si.Kind == "sliceiface" && si.Iface != "any" })
				if len(slots) > 0 {
					q := qualPool[rng.Intn(len(qualPool))]
					if rng.Intn(3) == 0 {
						q += " " + qualPool[rng.Intn(len(qualPool))]
					}
					g.SetTag(i, slots[rng.Intn(len(slots))], "wire", ",qualifier="+q+",required=false")
				}
			}
		}
	}
	if o.ByTypeUniq > 0 {
		// by-type single points whose candidate set (minus holder) is a single component
		count := map[int][]int{}
		for i, nd := range g.Sc.Nodes {
			count[nd.Type] = append(count[nd.Type], i)
		}
		for i := 0; i < n; i++ {
			if rng.Float64() >= o.ByTypeUniq {
				continue
			}
			var opts []string
			for t, members := range count {
				// one other instance of the type: either the only one, or the holder's own type with exactly
				// one sibling (the holder itself is excluded, the sibling is the determined target)
				sibling := len(members) == 2 && (members[0] == i || members[1] == i)
				if t < 8 && ((len(members) == 1 && members[0] != i) || sibling) && !o.OnlyIface {
					s := fmt.Sprintf("P%02d", t)
					if _, used := g.Sc.Nodes[i].Tags[s]; !used {
						opts = append(opts, s)
					}
				}
			}
			sort.Strings(opts)
			if len(opts) > 0 {
				g.SetTag(i, opts[rng.Intn(len(opts))], "wire", "")
			}
		}
	}
	g.ShuffleOrders()
	return g.Sc
}

// ---------------------------------------------------------------------------------------------
// trace helpers

// EarlyRunsPerCreation returns, per name, the maximal number of early-reference factory runs
// that *returned a reference* during one creation of that name.
func EarlyRunsPerCreation(ev []mon.TraceEv) map[string]int {
	cur := map[string]int{}
	max := map[string]int{}
	for _, e := range ev {
		switch {
		case e.Op == "create-fn" && e.Phase == "call":
			cur[e.Name] = 0
		case e.Op == "early-fn" && e.Phase == "ret" && e.Err == "":
			cur[e.Name]++
			if cur[e.Name] > max[e.Name] {
				max[e.Name] = cur[e.Name]
			}
		}
	}
	return max
}

func describeScenario(sc *world.Scenario) map[string]any {
	var nodes []string
	for i := range sc.Nodes {
		n := &sc.Nodes[i]
		var tags []string
		for _, s := range world.SortedSlots(n) {
			tags = append(tags, fmt.Sprintf("%s %s:%q", s, n.Tags[s].Tag, n.Tags[s].Val))
		}
		q := ""
		if n.Qual != "" {
			q = " qual=" + n.Qual
		}
		f := ""
		if len(n.Fails) > 0 {
			f = fmt.Sprintf(" fails=%v", n.Fails)
		}
		if len(n.FailOnce) > 0 {
			f += fmt.Sprintf(" fail_once=%v", n.FailOnce)
		}
		if len(n.Lookups) > 0 {
			f += fmt.Sprintf(" init_lookups=%v", n.Lookups)
		}
		nodes = append(nodes, fmt.Sprintf("#%d %s name=%q%s%s {%s}", i, world.Palette[n.Type].TypeName, n.DisplayName(), q, f, strings.Join(tags, "; ")))
	}
	return map[string]any{"nodes": nodes, "reg_order": sc.RegOrder, "order": sc.Order}
}

func shapeOf(sc *world.Scenario) string {
	adj := sc.NamedAdj()
	s := ""
	if world.HasCycle(adj) {
		s += "cycle "
	}
	if world.HasDiamond(adj) {
		s += "diamond "
	}
	if s == "" {
		s = "dag"
	}
	return strings.TrimSpace(s)
}

func failDetail(sc *world.Scenario, r *world.Run, extra map[string]any) map[string]any {
	d := map[string]any{"scenario": describeScenario(sc)}
	if r != nil {
		d["outcome"] = core.Short(r.OutcomeDetail(), 1500)
		if r.Panic != nil {
			d["stack"] = core.Short(r.Stack, 2500)
		}
	}
	for k, v := range extra {
		d[k] = v
	}
	return d
}

func contains(xs []string, x string) bool {
	for _, y := range xs {
		if x == y {
			return true
		}
	}
	return false
}

// abnormal: the start neither returned a value nor an error.
func abnormal(outcome string) bool {
	return outcome == "panic" || outcome == "diverged" || outcome == "stalled"
}

// AddInitLookups gives some nodes that have an initialization callback a service-locator style lookup
// of another component (preferably one that wires them) from inside that callback.
func AddInitLookups(rng *rand.Rand, sc *world.Scenario, p float64) int {
	adj := sc.NamedAdj()
	n := 0
	for i := range sc.Nodes {
		ti := world.Palette[sc.Nodes[i].Type]
		if !(ti.Init || ti.Aps) || rng.Float64() >= p {
			continue
		}
		var holders []int
		for h := range adj {
			for _, t := range adj[h] {
				if t == i && h != i {
					holders = append(holders, h)
				}
			}
		}
		target := rng.Intn(len(sc.Nodes))
		if len(holders) > 0 && rng.Intn(4) > 0 {
			target = holders[rng.Intn(len(holders))]
		}
		sc.Nodes[i].Lookups = append(sc.Nodes[i].Lookups, sc.Nodes[target].DisplayName())
		n++
	}
	return n
}

// waitOrStall waits for wg; it gives up (false) when progress() has not moved during 3 million scheduler
// yields AND 5 s: the goroutines are then blocked for good (they are abandoned).
func waitOrStall(wg *sync.WaitGroup, progress func() int64) bool {
	done := make(chan struct{})
	go func() { wg.Wait(); close(done) }()
	last, idle := int64(-1), 0
	t0 := time.Now()
	for {
		select {
		case <-done:
			return true
		default:
		}
		if p := progress(); p != last {
			last, idle, t0 = p, 0, time.Now()
		}
		idle++
		if idle > 3000000 && time.Since(t0) > 5*time.Second {
			return false
		}
		if idle%256 == 0 {
			time.Sleep(20 * time.Microsecond)
		} else {
			runtime.Gosched()
		}
	}
}
