package props

import (
	"fmt"
	"github.com/go-kid/ioc/container/processors"
	"reflect"

	"github.com/go-kid/ioc/container/support"
	"verifharness/core"
	"verifharness/world"
	p1model "verifharness/world/p1/model"
	p2model "verifharness/world/p2/model"
)

// C07 Injection by name selects exactly the named component.
type c07 struct{}

func init() { core.Register(c07{}) }

func (c07) ID() string    { return "C07" }
func (c07) Level() string { return "exploration" }
func (c07) Rule() string {
	return "seeded populations with many same-typed providers and name assignments {custom, default (package/type), empty custom = default}; single-valued points of kinds {*T, interface, any} requesting names {present+assignable, absent, present but not assignable} x required/optional, combined with 0-3 other (by-type, qualified, func) fields on the same holder, on palette nodes (dynamic tags) and reflect.StructOf holders (literal tags), each under 3 orders. Oracle: reference model (name -> registered component, assignability by reflect.Type.AssignableTo): the named point holds exactly that component; unsatisfiable+required on a certainly-created holder => Run returns an error (a panic is a violation); unsatisfiable+optional => start unaffected, field untouched. Second part: duplicate registrations (custom=custom, custom=another's default name, same unnamed type twice, same object twice) against the real SingletonRegistry: only the first object may ever be visible. non-trivial = a by-name point among >= 2 same-typed providers, or an absent/incompatible name, or a duplicate attempt; distinct = canonical scenario signature; provider types of equal name in packages of equal base name addressed by default name; user-preset values in optional unsatisfiable by-name points must survive failed and repeated creation attempts of their holder; generic providers (default names with a bracketed comma); two applications in one process with on-demand creation in the first after the second ran; a post-processor holder with by-name points; absent names equal to the default name of a type whose instances all carry custom names; fields of defined pointer types; by-name points found by a user-defined scanner mapping its tag to wire; embeddedByName family (tagged embedded interface wired by name, present and absent); the exported by-type resolver among the providers; custom names containing an equals sign; unfitLazy family (an optional interface point naming a lazy component that does not fit and could not be created)"
}
func (c07) Assumptions() []string {
	return []string{
		"a duplicate registration may panic (default log level) or be dropped silently (log level above Panic); only visibility of a second object is refuted; half of the worker processes run with a logger that does not panic, so both behaviours are exercised",
	}
}
func (c07) mainCount(tier string) int     { return tierN(tier, 3000, 300000) }
func (c07) dupCount(tier string) int      { return tierN(tier, 600, 40000) }
func (p c07) NumCases(tier string) int    { return p.mainCount(tier) + p.dupCount(tier) }
func (c07) MinNontrivial(tier string) int { return tierN(tier, 500, 5000) }

// unfitLazy: an optional interface point names a component that exists but cannot be assigned to the field, and that
// component is lazy and could not even be created (its Init fails / it needs something absent): the field is left
// empty and the start succeeds; a required one fails the start.
func (p c07) unfitLazy(c *core.Ctx) {
	g := world.NewG(c.Rng)
	lz := g.AddNode(7, "lazy-b") // T07: IB only, lazy, Init + AfterPropertiesSet
	switch c.Rng.Intn(3) {
	case 0:
		g.Sc.Nodes[lz].Fails = []string{"init"}
	case 1:
		g.SetTag(lz, "IA0", "wire", "no-such-component")
	}
	for x, nx := 0, 1+c.Rng.Intn(3); x < nx; x++ {
		g.AddNode([]int{0, 1, 3, 6}[c.Rng.Intn(4)], g.FreshName(x+1))
	}
	h := g.AddNode(world.TypesEagerPlain[c.Rng.Intn(len(world.TypesEagerPlain))], g.FreshName(8))
	optional := c.Rng.Intn(3) > 0
	slot := []string{"IA0", "IA1", "IC0"}[c.Rng.Intn(3)]
	tag := "lazy-b"
	if optional {
		tag += ",required=false"
	}
	g.SetTag(h, slot, "wire", tag)
	g.ShuffleOrders()
	r := world.Start(g.Sc, world.Options{})
	c.Count("starts", 1)
	c.Count("unfit_lazy_starts", 1)
	detail := failDetail(g.Sc, r, map[string]any{"slot": slot, "optional": optional})
	if abnormal(r.Outcome()) {
		c.Fail("", "by-name point naming a lazy component of an unfit type: "+core.Short(r.OutcomeDetail(), 300), detail)
		return
	}
	refs, _ := r.SlotRefs(r.Nodes[h], slot)
	filled := len(refs) == 1 && !refs[0].Nil
	if optional {
		if r.Outcome() != "ok" || filled {
			c.Fail("", fmt.Sprintf("optional point %s `wire:%q`: the named component cannot be assigned to the field; outcome %s, field filled: %v (expected a successful start and an empty field): %s", slot, tag, r.Outcome(), filled, core.Short(r.OutcomeDetail(), 200)), detail)
			return
		}
	} else if r.Outcome() != "error" {
		c.Fail("", fmt.Sprintf("required point %s `wire:%q`: the named component cannot be assigned to the field, but App.Run returned %s (field filled: %v)", slot, tag, r.Outcome(), filled), detail)
		return
	}
	c.Nontrivial(fmt.Sprintf("unfitlazy|%s|%v|%s", slot, optional, g.Sc.GraphSig()))
}

func (p c07) Run(c *core.Ctx) {
	if c.Index < p.mainCount(c.Tier) && c.Index%16 == 1 {
		p.unfitLazy(c)
		return
	}
	if c.Index >= p.mainCount(c.Tier) {
		p.dup(c)
		return
	}
	if c.Index%8 == 7 {
		p.preset(c)
		return
	}
	if c.Index%16 == 3 {
		p.twoApps(c)
		return
	}
	if c.Index%16 == 11 {
		p.ppHolder(c)
		return
	}
	if c.Index%16 == 5 {
		p.aliasTag(c)
		return
	}
	if c.Index%16 == 13 {
		p.contributed(c)
		return
	}
	if c.Index%16 == 9 {
		p.embeddedByName(c)
		return
	}
	// few types => many same-typed providers
	pool := world.TypesAll
	k := 2 + c.Rng.Intn(5)
	var types []int
	for i := 0; i < k; i++ {
		types = append(types, pool[c.Rng.Intn(len(pool))])
	}
	g := RandomPopulation(c.Rng, PopOpts{MinP: 3, MaxP: 16, Types: types, PUnnamed: 0.3})
	if c.Rng.Intn(4) == 0 {
		// custom names that look like a tag argument ("tier=gold"): the text before the first comma is the name
		renamed := 0
		for i := range g.Sc.Nodes {
			if g.Sc.Nodes[i].Name != "" && c.Rng.Intn(2) == 0 {
				g.Sc.Nodes[i].Name = fmt.Sprintf("%s=%s%d", []string{"tier", "required", "qualifier", "k"}[c.Rng.Intn(4)], []string{"gold", "false", "x"}[c.Rng.Intn(3)], i)
				renamed++
			}
		}
		c.Count("names_with_equals_sign", renamed)
	}
	mixName := TagMix{ByName: 4, ByNameAbsent: 1, ByNameIncompatible: 1, POptional: 0.4}
	mixOther := TagMix{ByType: 2, Func: 0.5, ByName: 1, PQualifier: 0.3, POptional: 0.7}
	single := func(si world.SlotInfo) bool { return si.Kind == "ptr" || si.Kind == "iface" }
	n := len(g.Sc.Nodes)
	for x := 0; x < 1+c.Rng.Intn(3); x++ {
		i := c.Rng.Intn(n)
		AddRandomPoints(g, i, 1, 2, mixName, single)
		AddRandomPoints(g, i, 0, 3, mixOther, nil)
	}
	var holders []any
	for h := 0; h < c.Rng.Intn(3); h++ {
		holders = append(holders, literalNameHolder(c, h, g.Sc, mixName, mixOther))
	}
	// components of equally named types from two packages with the same base name: their default names
	// (package path + type name) differ, by-name points must tell them apart
	var providers []any
	if c.Rng.Intn(4) == 0 {
		providers = append(providers, &p1model.Item{Tag: "p1"}, &p2model.Item{Tag: "p2"})
		fields := []world.FieldSpec{
			{Name: "M1", Type: world.TypeIA, Tag: world.WireTag("wire", "verifharness/world/p1/model/Item")},
			{Name: "M2", Type: world.TypeAny, Tag: world.WireTag("wire", "verifharness/world/p2/model/Item")},
			{Name: "P1", Type: reflect.TypeOf(&p1model.Item{}), Tag: world.WireTag("wire", "")},
			{Name: "P2", Type: reflect.TypeOf(&p2model.Item{}), Tag: world.WireTag("wire", "verifharness/world/p2/model/Item")},
		}
		holders = append(holders, world.NewHolder(world.BuildStruct(fields)))
	}
	// instantiations of a generic type: their default names contain a comma inside brackets
	if c.Rng.Intn(4) == 0 {
		providers = append(providers, &world.Pair[int, string]{Tag: "is"}, &world.Pair[string, bool]{Tag: "sb"})
		fields := []world.FieldSpec{
			{Name: "G1", Type: world.TypeIA, Tag: world.WireTag("wire", "verifharness/world/Pair[int,string]")},
			{Name: "G2", Type: world.TypeAny, Tag: world.WireTag("wire", "verifharness/world/Pair[string,bool],required=true")},
			{Name: "G3", Type: reflect.TypeOf(&world.Pair[int, string]{}), Tag: world.WireTag("wire", "verifharness/world/Pair[int,string]")},
			{Name: "G4", Type: world.TypeIA, Tag: world.WireTag("wire", "verifharness/world/Pair[int,int],required=false")},
		}
		holders = append(holders, world.NewHolder(world.BuildStruct(fields)))
		c.Count("cases_with_generic_providers", 1)
	}
	if c.Rng.Intn(5) == 0 {
		// the library's exported by-type resolver registered next to the default one: a point that names its
		// component is still resolved by that name alone
		providers = append(providers, processors.NewDependencyTypeAwarePostProcessors())
		c.Count("cases_with_the_exported_by_type_resolver_registered_too", 1)
	}
	repairUnsatisfiable(c, g, holders, 0.85, providers...)
	runModelCase(c, g, holders, 3, true, classifyC07, providers)
}

func literalNameHolder(c *core.Ctx, id int, sc *world.Scenario, mixName, mixOther TagMix) any {
	fts := world.PaletteFieldTypes()
	var singles []reflect.Type
	for _, t := range fts {
		if t.Kind() != reflect.Slice {
			singles = append(singles, t)
		}
	}
	var fields []world.FieldSpec
	k := 1 + c.Rng.Intn(4)
	for i := 0; i < k; i++ {
		var ft reflect.Type
		mix := mixOther
		mix.POptional = 0.9
		if i == 0 || c.Rng.Intn(2) == 0 {
			ft = singles[c.Rng.Intn(len(singles))]
			if c.Rng.Intn(2) == 0 {
				ft = singles[c.Rng.Intn(5)]
			}
			if c.Rng.Intn(8) == 0 {
				// a field of a defined pointer type (type RefT00 *T00): wired by name like a *T00 field
				ft = []reflect.Type{world.TypeRefT00, world.TypeRefT03}[c.Rng.Intn(2)]
			}
			mix = mixName
			mix.POptional = 0.7
		} else {
			ft = fts[c.Rng.Intn(len(fts))]
		}
		tag, val := randTagFor(c.Rng, ft, sc, mix)
		fields = append(fields, world.FieldSpec{Name: fmt.Sprintf("H%dF%d", id, i), Type: ft, Tag: world.WireTag(tag, val)})
	}
	return world.NewHolder(world.BuildStruct(fields))
}

// classifyC07: the known-finding classes are decided on the *input* (model resolution of the
// points), not on what the code did.
func classifyC07(r *world.Run, ps []problem, exp world.Expect) string {
	return ""
}

// dup: duplicate registrations against the real registry.
func (p c07) dup(c *core.Ctx) {
	reg := support.NewRegistry()
	type regd struct {
		obj  any
		name string
	}
	var first = map[string]any{}
	var order []regd
	nObj := 2 + c.Rng.Intn(8)
	var objs []world.Node
	names := []string{"", "x1", "x2", world.Palette[0].DefaultName, world.Palette[2].DefaultName}
	for i := 0; i < nObj; i++ {
		t := []int{0, 0, 2, 2, 5}[c.Rng.Intn(5)]
		n := world.Palette[t].New()
		n.Core().Name = names[c.Rng.Intn(len(names))]
		objs = append(objs, n)
	}
	dupAttempts, rejected := 0, 0
	for i := 0; i < nObj+3; i++ {
		n := objs[c.Rng.Intn(len(objs))]
		name := n.DisplayName()
		_, had := first[name]
		panicked := false
		func() {
			defer func() {
				if recover() != nil {
					panicked = true
				}
			}()
			reg.RegisterSingleton(n)
		}()
		order = append(order, regd{n, name})
		if !had {
			if panicked {
				c.Fail("", fmt.Sprintf("first registration under name %q was rejected", name), map[string]any{"step": i})
				return
			}
			first[name] = n
		} else if first[name] != any(n) {
			dupAttempts++
			if panicked {
				rejected++
			}
		} else if panicked {
			c.Fail("", fmt.Sprintf("re-registering the same object under %q panicked", name), nil)
			return
		}
	}
	c.Count("duplicate_attempts", dupAttempts)
	c.Count("duplicate_rejected_by_panic", rejected)
	c.Count("duplicate_dropped_silently", dupAttempts-rejected)
	if dupAttempts > 0 {
		c.Nontrivial(fmt.Sprintf("dup:%v", order2sig(len(order), dupAttempts, c.Index)))
	}
	for name, obj := range first {
		got, err := reg.GetSingleton(name)
		if err != nil || got != obj {
			c.Fail("", fmt.Sprintf("after duplicate attempts name %q resolves to %p (err %v), first registered object was %p", name, got, err, obj), nil)
			return
		}
		if !reg.ContainsSingleton(name) {
			c.Fail("", fmt.Sprintf("ContainsSingleton(%q) is false for a registered name", name), nil)
			return
		}
	}
	seen := map[string]int{}
	for _, nm := range reg.GetSingletonNames() {
		seen[nm]++
	}
	if len(seen) != len(first) || reg.GetSingletonCount() != len(first) {
		c.Fail("", fmt.Sprintf("registry lists %d names (count %d) for %d distinct registered names", len(seen), reg.GetSingletonCount(), len(first)), nil)
		return
	}
	for nm, k := range seen {
		if k != 1 {
			c.Fail("", fmt.Sprintf("name %q listed %d times", nm, k), nil)
			return
		}
	}
	// and through a whole start: the app must only ever see the first object of each name
	g := world.NewG(c.Rng)
	a := g.AddNode(0, "dupname")
	g.AddNode(2, "other")
	h := g.AddNode(5, "holder")
	g.SetTag(h, "IA0", "wire", "dupname")
	g.SetTag(h, "SA0", "wire", "")
	second := world.Palette[[]int{0, 1, 3}[c.Rng.Intn(3)]].New() // same or different type, same custom name
	second.Core().Name = "dupname"
	g.ShuffleOrders()
	r := world.Start(g.Sc, world.Options{Extra: []any{second}})
	c.Count("duplicate_app_starts", 1)
	switch r.Outcome() {
	case "panic":
		if !containsStr(fmt.Sprint(r.Panic), "duplicate") {
			c.Fail("", fmt.Sprintf("start with a duplicate registration panicked with an unrelated panic: %v", r.Panic), failDetail(g.Sc, r, nil))
		}
		c.Count("duplicate_app_start_rejected", 1)
		return
	case "ok":
		first := any(r.Nodes[a])
		got, err := r.App.GetComponentByName("dupname")
		refs, _ := r.SlotRefs(r.Nodes[h], "IA0")
		srefs, _ := r.SlotRefs(r.Nodes[h], "SA0")
		if err != nil || got != first || refs[0].Obj != first {
			c.Fail("", fmt.Sprintf("after a silently dropped duplicate, name 'dupname' resolves to %p / field holds %v, the first registered object is %p", got, refs[0], first), failDetail(g.Sc, r, nil))
			return
		}
		for _, sr := range srefs {
			if sr.Obj == any(second) {
				c.Fail("", "the dropped duplicate object was injected into a slice", failDetail(g.Sc, r, nil))
				return
			}
		}
		c.Count("duplicate_app_start_dropped", 1)
	default:
		c.Fail("", "start with a duplicate registration: "+r.OutcomeDetail(), failDetail(g.Sc, r, nil))
	}
}

func order2sig(a, b, c int) string { return fmt.Sprintf("%d/%d/%d", a, b, c) }

// preset: optional by-name points that cannot be satisfied keep whatever the user put into the field
// before the start - also when the holder's creation fails once and is attempted again.
func (p c07) preset(c *core.Ctx) {
	g := world.NewG(c.Rng)
	holderType := []int{8, 0, 14, 12}[c.Rng.Intn(4)] // lazy and eager holders
	h := g.AddNode(holderType, "holder")
	dep := g.AddNode([]int{1, 8}[c.Rng.Intn(2)], []string{"dep", "zdep"}[c.Rng.Intn(2)]) // eager T01 / lazy T08 (both IA with Init); before or after the holder in name order
	depName := g.Sc.Nodes[dep].DisplayName()
	g.AddNode(2, "other")
	g.SetTag(h, "IA0", "wire", []string{"no-such-name", "other"}[c.Rng.Intn(2)]+",required=false") // absent / not assignable (T02 is no IA)
	g.SetTag(h, "Any0", "wire", "no-such-name-2,required=false")
	g.SetTag(h, "P05", "wire", depName+",required=false") // present but not assignable to *T05
	g.SetTag(h, "IA1", "wire", depName)
	transient := c.Rng.Intn(2) == 0
	if transient {
		g.Sc.Nodes[dep].FailOnce = []string{"init"}
	}
	g.ShuffleOrders()
	r := world.Build(g.Sc, world.Options{})
	sentinelA, sentinelAny, sentinelP := &world.T26{}, &world.T02{}, &world.T05{}
	sl := r.Nodes[h].Slot()
	sl.IA0, sl.Any0, sl.P05 = sentinelA, sentinelAny, sentinelP
	r.Go()
	c.Count("starts", 1)
	c.Count("preset_cases", 1)
	detail := func() map[string]any {
		return failDetail(g.Sc, r, map[string]any{"transient_dependency_failure": transient})
	}
	if abnormal(r.Outcome()) {
		c.Fail("", "start with pre-set optional fields: "+r.OutcomeDetail(), detail())
		return
	}
	var lastErr error
	for round := 0; round < 3; round++ {
		r.Guard(func() { _, lastErr = r.App.GetComponentByName("holder") })
		if r.Panic != nil || r.Diverge != nil {
			c.Fail("", "lookup of the holder: "+r.OutcomeDetail(), detail())
			return
		}
	}
	if lastErr != nil {
		c.Fail("", "the holder cannot be created although its only required dependency is available: "+core.Short(lastErr.Error(), 200), detail())
		return
	}
	if sl.IA0 != world.IA(sentinelA) || sl.Any0 != any(sentinelAny) || sl.P05 != sentinelP {
		c.Fail("", fmt.Sprintf("optional unsatisfiable by-name points were modified: IA0=%v (pre-set %p) Any0=%v (pre-set %p) P05=%p (pre-set %p)", sl.IA0, sentinelA, sl.Any0, sentinelAny, sl.P05, sentinelP), detail())
		return
	}
	if n, ok := sl.IA1.(world.Node); !ok || n.DisplayName() != depName {
		c.Fail("", "the required by-name point of the holder was not wired to 'dep'", detail())
		return
	}
	c.Nontrivial(fmt.Sprintf("preset:%d:%v:%s", holderType, transient, g.Sc.GraphSig()))
}

// twoApps: two applications in one process. A component of the first application that is created on
// demand only after the second application has run resolves its by-name points in its own application.
func (p c07) twoApps(c *core.Ctx) {
	mk := func(second bool) (*world.G, int, int) {
		g := world.NewG(c.Rng)
		prov := -1
		if !second || c.Rng.Intn(2) == 0 {
			t := []int{0, 1, 3}[c.Rng.Intn(3)] // implements IA
			if second {
				t = []int{2, 13}[c.Rng.Intn(2)] // same name, a type that does not fit the point
			}
			prov = g.AddNode(t, "shared-name")
		}
		if second {
			g.AddNode([]int{0, 1, 3}[c.Rng.Intn(3)], "only-in-two")
		}
		h := g.AddNode([]int{8, 11}[c.Rng.Intn(2)], "on-demand") // lazy types
		g.SetTag(h, "IA0", "wire", "shared-name")
		g.SetTag(h, "IA1", "wire", "only-in-two,required=false")
		g.SetTag(h, "Any0", "wire", "shared-name,required=false")
		g.ShuffleOrders()
		return g, prov, h
	}
	g1, p1, h1 := mk(false)
	g2, _, _ := mk(true)
	r1 := world.Start(g1.Sc, world.Options{})
	c.Count("starts", 2)
	if r1.Outcome() != "ok" {
		c.Fail("", "first application did not start: "+core.Short(r1.OutcomeDetail(), 300), failDetail(g1.Sc, r1, nil))
		return
	}
	r2 := world.Start(g2.Sc, world.Options{})
	detail := failDetail(g1.Sc, r1, map[string]any{"second_application": describeScenario(g2.Sc), "second_outcome": r2.Outcome()})
	if abnormal(r2.Outcome()) {
		c.Fail("", "second application: "+core.Short(r2.OutcomeDetail(), 300), detail)
		return
	}
	var err error
	r1.Guard(func() { _, err = r1.App.GetComponentByName("on-demand") })
	if r1.Panic != nil || err != nil {
		c.Fail("", fmt.Sprintf("first application, component created on demand after a second application ran: its by-name point names a component of its own application, but the creation failed: %v %v", err, r1.Panic), detail)
		return
	}
	sl := r1.Nodes[h1].Slot()
	if sl.IA0 != any(r1.Nodes[p1]) || sl.Any0 != any(r1.Nodes[p1]) {
		c.Fail("", fmt.Sprintf("first application: wire:\"shared-name\" holds %T %p / %T %p, the component registered under that name in this application is %p", sl.IA0, sl.IA0, sl.Any0, sl.Any0, r1.Nodes[p1]), detail)
		return
	}
	if sl.IA1 != nil {
		c.Fail("", fmt.Sprintf("first application: optional point naming a component that only exists in the other application was written (%T)", sl.IA1), detail)
		return
	}
	c.Count("two_application_cases", 1)
	c.Nontrivial("twoapps|" + g1.Sc.GraphSig() + "|" + g2.Sc.GraphSig())
}

// ppHolder: a post-processor that is itself a component has by-name points like anybody else: they receive
// exactly the named components, and a required one that names nothing fails the start.
func (p c07) ppHolder(c *core.Ctx) {
	g := world.NewG(c.Rng)
	tgt := g.AddNode([]int{0, 1, 3, 8}[c.Rng.Intn(4)], "np-target")
	g.AddNode([]int{0, 1, 3}[c.Rng.Intn(3)], g.FreshName(1)) // another IA that must not be confused with it
	req := -1
	if c.Rng.Intn(2) == 0 {
		req = g.AddNode([]int{0, 1, 3, 8}[c.Rng.Intn(4)], "np-req")
	}
	g.ShuffleOrders()
	pp := &world.NamePP{}
	r := world.Start(g.Sc, world.Options{Extra: []any{pp}})
	c.Count("starts", 1)
	c.Count("post_processor_holder_starts", 1)
	detail := failDetail(g.Sc, r, map[string]any{"np-req registered": req >= 0})
	if abnormal(r.Outcome()) {
		c.Fail("", "post-processor with by-name points: "+core.Short(r.OutcomeDetail(), 300), detail)
		return
	}
	if req < 0 {
		if r.Outcome() != "error" {
			c.Fail("", "a post-processor's required by-name point names no registered component, but the start succeeded", detail)
			return
		}
	} else {
		if r.Outcome() != "ok" {
			c.Fail("", "post-processor whose by-name points are all satisfiable: "+core.Short(r.OutcomeDetail(), 300), detail)
			return
		}
		if pp.One != any(r.Nodes[tgt]) || pp.AnyOne != any(r.Nodes[tgt]) || pp.Req != any(r.Nodes[req]) || pp.Absent != nil {
			c.Fail("", fmt.Sprintf("post-processor's by-name points: One=%p AnyOne=%p (np-target is %p) Req=%p (np-req is %p) Absent=%v", pp.One, pp.AnyOne, r.Nodes[tgt], pp.Req, r.Nodes[req], pp.Absent), detail)
			return
		}
	}
	c.Nontrivial(fmt.Sprintf("ppholder|%v|%s", req >= 0, g.Sc.GraphSig()))
}

// aliasTag: by-name points that reach the container through a user-defined scanner (its own tag mapped to
// wire, no defaults of its own) obey the same rules: the named component or an error / an untouched field.
func (p c07) aliasTag(c *core.Ctx) {
	g := world.NewG(c.Rng)
	ia := g.AddNode([]int{0, 1, 3}[c.Rng.Intn(3)], "present-ia")
	g.AddNode([]int{2, 13}[c.Rng.Intn(2)], "present-ib") // not an IA
	g.ShuffleOrders()
	variant := c.Rng.Intn(4) // 0 present, 1 absent required, 2 wrong type required, 3 absent / wrong type optional
	name, args := "present-ia", ""
	switch variant {
	case 1:
		name = "absent-name"
	case 2:
		name = "present-ib"
	case 3:
		name, args = []string{"absent-name", "present-ib"}[c.Rng.Intn(2)], []string{",required=false", ",Required=false"}[c.Rng.Intn(2)]
	}
	tag := world.WireTag("inject", name+args)
	h := world.NewHolder(world.BuildStruct([]world.FieldSpec{{Name: "F", Type: world.TypeIA, Tag: tag}, {Name: "Ok", Type: world.TypeAny, Tag: world.WireTag("inject", "present-ib")}}))
	r := world.Start(g.Sc, world.Options{Extra: []any{h, world.NewAliasScanner()}})
	c.Count("starts", 1)
	c.Count("alias_tag_starts", 1)
	detail := failDetail(g.Sc, r, map[string]any{"field": "F IA `" + tag + "`"})
	if abnormal(r.Outcome()) {
		c.Fail("", "by-name point found by a user-defined scanner: "+core.Short(r.OutcomeDetail(), 300), detail)
		return
	}
	f := reflect.ValueOf(h).Elem().Field(0).Interface()
	switch variant {
	case 0:
		if r.Outcome() != "ok" || f != any(r.Nodes[ia]) {
			c.Fail("", fmt.Sprintf("%s names a registered, fitting component: outcome %s, field %v", tag, r.Outcome(), f), detail)
			return
		}
	case 1, 2:
		if r.Outcome() != "error" {
			c.Fail("", fmt.Sprintf("%s (required, found by a user-defined scanner) names no fitting component, but the start succeeded with the field %v", tag, f), detail)
			return
		}
	default:
		if r.Outcome() != "ok" || f != nil {
			c.Fail("", fmt.Sprintf("%s (optional) names no fitting component: outcome %s, field %v (expected a successful start and an untouched field)", tag, r.Outcome(), f), detail)
			return
		}
	}
	c.Nontrivial(fmt.Sprintf("aliastag|%d|%s", variant, tag))
}

// contributed: a definition that a factory post-processor registers under a name of its choosing (not the
// name the component would derive for itself) is the component of that name for by-name points and lookups.
// embeddedByName: a by-name point that is an embedded (anonymous) interface field carrying the tag itself -
// the decorator layout `type Loud struct { Greeter `wire:"english"` }`: it receives the named component, and
// it is required like any other point.
func (p c07) embeddedByName(c *core.Ctx) {
	g := world.NewG(c.Rng)
	present := c.Rng.Intn(3) > 0
	if present {
		g.AddNode([]int{0, 1, 3, 8}[c.Rng.Intn(4)], "mix-dep")
	}
	for x, nx := 0, 1+c.Rng.Intn(3); x < nx; x++ {
		g.AddNode([]int{0, 1, 3}[c.Rng.Intn(3)], g.FreshName(x)) // other IAs under other names
	}
	g.ShuffleOrders()
	h := &world.EmbedIfaceHolder{}
	r := world.Start(g.Sc, world.Options{Extra: []any{h}})
	c.Count("starts", 1)
	c.Count("embedded_by_name_starts", 1)
	detail := failDetail(g.Sc, r, map[string]any{"named_component_registered": present})
	if abnormal(r.Outcome()) {
		c.Fail("", "holder with an embedded by-name interface point: "+core.Short(r.OutcomeDetail(), 300), detail)
		return
	}
	if present {
		want, _ := nodeNamed(g.Sc, "mix-dep")
		if r.Outcome() != "ok" || h.IA != any(r.Nodes[want]) {
			c.Fail("", fmt.Sprintf("embedded interface `wire:\"mix-dep\"`: outcome %s, the field holds %v, expected the component named mix-dep", r.Outcome(), h.IA), detail)
			return
		}
	} else if r.Outcome() != "error" {
		c.Fail("", fmt.Sprintf("embedded interface `wire:\"mix-dep\"` (required) and nothing is registered under that name, yet the start outcome is %s (field: %v)", r.Outcome(), h.IA), detail)
		return
	}
	c.Nontrivial(fmt.Sprintf("embeddedbyname|%v|%s", present, g.Sc.GraphSig()))
}

func (p c07) contributed(c *core.Ctx) {
	g := world.NewG(c.Rng)
	h := g.AddRandomNode(world.TypesEagerPlain, 0.2)
	g.SetTag(h, "IA0", "wire", "contributed-name")
	g.SetTag(h, "Any0", "wire", "contributed-name")
	if c.Rng.Intn(2) == 0 {
		g.AddNode(0, "ordinary-t00") // another instance of the same type registered the ordinary way
	}
	g.ShuffleOrders()
	x := world.Palette[0].New() // a T00; its self-derived name would be the type's default name
	if c.Rng.Intn(2) == 0 {
		x.Core().Name = "own-name"
	}
	r := world.Start(g.Sc, world.Options{Extra: []any{&world.RegistrarPP{Nodes: []world.Node{x}, Names: []string{"contributed-name"}}}})
	c.Count("starts", 1)
	c.Count("contributed_definition_starts", 1)
	detail := failDetail(g.Sc, r, nil)
	if r.Outcome() != "ok" {
		c.Fail("", "by-name points at a definition contributed under an explicit name: "+core.Short(r.OutcomeDetail(), 300), detail)
		return
	}
	var got any
	var err error
	r.Guard(func() { got, err = r.App.GetComponentByName("contributed-name") })
	sl := r.Nodes[h].Slot()
	if err != nil || got != any(x) || sl.IA0 != any(x) || sl.Any0 != any(x) {
		c.Fail("", fmt.Sprintf("definition contributed under \"contributed-name\": lookup returns %p (%v), the holder's points hold %p / %p, the component is %p", got, err, sl.IA0, sl.Any0, x), detail)
		return
	}
	c.Nontrivial("contributed|" + g.Sc.GraphSig())
}
