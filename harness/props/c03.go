package props

import (
	"fmt"
	"sort"

	"verifharness/core"
	"verifharness/mon"
	"verifharness/world"
)

// C03 No stale version survives when a post-processor substitutes a component.
type c03 struct{}

func init() { core.Register(c03{}) }

func (c03) ID() string    { return "C03" }
func (c03) Level() string { return "exploration" }
func (c03) Rule() string {
	return "seeded cyclic graphs over interface-typed slots (cycles 2..8, chords, by-type interface slices, components that request themselves by name or by type as in unittest/component/post/t.go) with a harness SmartInstantiationAware post-processor that substitutes 1..3 chosen components by wrapper objects at the timings {early reference only, before-init, after-init only, early+after with the same wrapper object, early+after with different wrappers, early+before}; each under 3 orders (registration x enumeration x candidate order), names on both sides of the App so every cycle is entered at different points. Oracle after a *successful* Run: for every component name N, every injected value (field or slice element, any holder) that stems from N is pointer-identical to App.GetComponentByName(N); an error from Run is always acceptable, a panic or divergence is not; each early-reference callback ran at most once per creation. non-trivial = a wrapped component lies on a cycle or requests itself and its early reference was actually requested; distinct = canonical scenario + plan signature; zero-size wrappers and zero-size wrapped components take part (address equality does not identify an object); components that reach into the graph through optional points only; failing lazy leaves looked up from some Init (error swallowed); substitution from PostProcessBeforeInstantiation; every fifth case: a cycle (np-target <-> np-req) entered through the injection points of a post-processor component under a priority-ordered substituter, the processor's own fields counting as holders; every seventh case: an all-lazy graph created by lookups after the start under the same substitutions; concretePartner family (the cycle partner holds the wrapped entry through a field of its concrete type); what callback lookups were handed under a consistently wrapping processor is the published version"
}
func (c03) Assumptions() []string {
	return []string{
		"wrappers of another type can only stand in for interface-typed slots (Go typing); pointer-typed slots are exercised with same-type substitutes (decorated copies) in a third of the cases",
		"the statement constrains successful starts only; how often a start fails is reported (counters) but not judged",
	}
}
func (c03) NumCases(tier string) int      { return tierN(tier, 4000, 400000) }
func (c03) MinNontrivial(tier string) int { return tierN(tier, 300, 5000) }

var c03Timings = []world.SubPlan{
	{Early: true},
	{Before: true},
	{After: true},
	{Early: true, After: true, Same: true},
	{Early: true, After: true},
	{Early: true, Before: true},
	{Inst: true},
}

// concretePartner: a cycle whose entry component a post-processor replaces, after initialisation, by a wrapper
// of ANOTHER type, while the cycle partner holds the entry component through a field of its concrete pointer
// type (which the wrapper does not fit): the partner holds the raw early version - a start that succeeds with
// the wrapper published has handed out two versions.
func (p c03) concretePartner(c *core.Ctx) {
	g := world.NewG(c.Rng)
	t := []int{0, 1, 3}[c.Rng.Intn(3)]
	a := g.AddNode(t, "a-entry")
	b := g.AddNode([]int{0, 1, 3, 2}[c.Rng.Intn(4)], "b-partner")
	g.EdgeByName(a, b, "", "iface")
	slot := fmt.Sprintf("P%02d", t)
	g.SetTag(b, slot, "wire", []string{"a-entry", ""}[c.Rng.Intn(2)])
	if c.Rng.Intn(2) == 0 {
		h := g.AddNode([]int{2, 13}[c.Rng.Intn(2)], "c-other")
		g.SetTag(h, "IA0", "wire", "a-entry") // an interface-typed holder outside the cycle: it gets the wrapper
	}
	g.ShuffleOrders()
	plan := map[string]world.SubPlan{"a-entry": []world.SubPlan{{After: true}, {Before: true}}[c.Rng.Intn(2)]}
	r := world.Start(g.Sc, world.Options{Extra: []any{world.NewSubstituter(plan)}})
	c.Count("starts", 1)
	c.Count("concrete_partner_starts", 1)
	detail := failDetail(g.Sc, r, map[string]any{"plan": plan})
	if abnormal(r.Outcome()) {
		c.Fail("", "cycle whose partner holds the wrapped entry through a concrete pointer field: "+core.Short(r.OutcomeDetail(), 300), detail)
		return
	}
	if r.Outcome() != "ok" {
		c.Nontrivial("concretepartner-refused|" + g.Sc.GraphSig())
		return // refused: the only consistent answer
	}
	var final any
	var err error
	r.Guard(func() { final, err = r.App.GetComponentByName("a-entry") })
	refs, _ := r.SlotRefs(r.Nodes[b], slot)
	if err == nil && len(refs) == 1 && !refs[0].Nil && refs[0].Obj != final {
		c.Fail("", fmt.Sprintf("stale version after a successful start: b-partner.%s holds %s of \"a-entry\" but the container publishes %s", slot, verOf(refs[0].Obj), verOf(final)), detail)
		return
	}
	c.Nontrivial("concretepartner-ok|" + g.Sc.GraphSig())
}

func (p c03) Run(c *core.Ctx) {
	if c.Index%11 == 7 {
		p.concretePartner(c)
		return
	}
	// two families: wrappers of another type (interface-typed slots only) and same-type decorated copies
	// (pointer-typed slots allowed too)
	sameType := c.Index%3 == 1
	opts := GraphOpts{MinN: 1, MaxN: 8, Types: plainAB, PCycle: 0.9, Chords: 2, ByTypeSlice: 0.2, OnlyIface: true, PUnnamed: 0.3}
	if sameType {
		opts.OnlyIface = false
		opts.Types = plainAny
	}
	// every seventh case: all components are lazy and nothing eager refers to them - the graph (with its
	// cycles) is created by lookups issued after the start, under the same substitutions
	lazyAfter := c.Index%7 == 5
	if lazyAfter {
		opts.Types = []int{7, 8, 11, 14}
		opts.PUnnamed = 0
	}
	sc := RandomGraph(c.Rng, opts)
	g := &world.G{Rng: c.Rng, Sc: sc}
	if c.Index%2 == 0 {
		// service-locator lookups from inside initialization callbacks: an early reference may then be
		// requested for the first time while the component is being initialised
		c.Count("init_lookups", AddInitLookups(c.Rng, sc, 0.4))
	}
	if c.Index%3 == 2 {
		// components that reach into the graph through optional points only (by name or by type): when
		// they are created first, a cycle is entered through a point whose failure would be tolerable
		for x := 0; x < 1+c.Rng.Intn(2); x++ {
			t := c.Rng.Intn(len(sc.Nodes))
			e := g.AddRandomNode(plainAB, 0)
			if c.Rng.Intn(3) > 0 {
				g.EdgeByName(e, t, ",required=false", "iface")
			} else if slots := g.FreeSlots(e, func(si world.SlotInfo) bool { return si.Kind == "sliceiface" && si.Iface != "any" }); len(slots) > 0 {
				g.SetTag(e, slots[c.Rng.Intn(len(slots))], "wire", ",required=false")
			}
			c.Count("optional_entry_components", 1)
		}
	}
	if c.Index%4 == 1 {
		// an unrelated component fails in between: a lazy leaf whose Init fails (always / once) is looked up
		// from inside some Init, the caller swallows the error. Nothing of what was handed out before
		// may be forgotten because of it.
		for x := 0; x < 1+c.Rng.Intn(2); x++ {
			leaf := g.AddNode([]int{8, 7, 14}[c.Rng.Intn(3)], g.FreshName(len(sc.Nodes)))
			if c.Rng.Intn(2) == 0 {
				sc.Nodes[leaf].Fails = []string{"init"}
			} else {
				sc.Nodes[leaf].FailOnce = []string{"init"}
			}
			for y := 0; y < 1+c.Rng.Intn(3); y++ {
				i := c.Rng.Intn(leaf)
				if ti := world.Palette[sc.Nodes[i].Type]; ti.Init || ti.Aps {
					sc.Nodes[i].Lookups = append(sc.Nodes[i].Lookups, sc.Nodes[leaf].DisplayName())
				}
			}
			c.Count("failing_leaves_looked_up", 1)
		}
	}
	// every fifth case: a post-processor component with injection points of its own (verif.namepp: np-target,
	// np-req) through which a cycle is entered while the processors are being set up - under a substituter
	// that is already active then (priority-ordered)
	viaPP := c.Index%5 == 2
	if viaPP {
		tgt := g.AddNode([]int{0, 1, 3}[c.Rng.Intn(3)], "np-target")
		req := g.AddNode([]int{0, 1, 3}[c.Rng.Intn(3)], "np-req")
		g.EdgeByName(tgt, req, "", "iface")
		if c.Rng.Intn(3) > 0 {
			g.EdgeByName(req, tgt, "", "iface")
		}
		if c.Rng.Intn(2) == 0 {
			g.EdgeByName(c.Rng.Intn(tgt), tgt, "", "iface")
		}
		if c.Rng.Intn(2) == 0 {
			g.EdgeByName(tgt, c.Rng.Intn(tgt), "", "iface")
		}
		c.Count("cases_with_a_cycle_entered_through_a_post_processor_component", 1)
	}
	n := len(sc.Nodes)
	selfReq := map[int]bool{}
	for i := 0; i < n; i++ {
		if c.Rng.Intn(4) != 0 {
			continue
		}
		// the component requests itself: by name on a free interface slot, or by type when it is the only implementer
		ti := world.Palette[sc.Nodes[i].Type]
		slots := g.FreeSlots(i, func(si world.SlotInfo) bool {
			return si.Kind == "iface" && si.Iface != "any" && ti.Implements(si.Iface)
		})
		if len(slots) == 0 {
			continue
		}
		val := sc.Nodes[i].DisplayName()
		if c.Rng.Intn(3) == 0 {
			val = "" // by type: several candidates possible
		}
		g.SetTag(i, slots[c.Rng.Intn(len(slots))], "wire", val+",required=false")
		selfReq[i] = true
	}
	plan := map[string]world.SubPlan{}
	k := 1 + c.Rng.Intn(3)
	wrappedIdx := map[int]bool{}
	for x := 0; x < k; x++ {
		i := c.Rng.Intn(n)
		pl := c03Timings[c.Rng.Intn(len(c03Timings))]
		pl.SameType = sameType
		if !sameType && x == 0 && c.Index%5 == 3 {
			pl.ZeroSize = true // zero-size substitutes of two different types (they may share one address)
		}
		plan[sc.Nodes[i].DisplayName()] = pl
		wrappedIdx[i] = true
	}
	if viaPP && c.Rng.Intn(4) > 0 {
		i, _ := nodeNamed(sc, []string{"np-target", "np-target", "np-req"}[c.Rng.Intn(3)])
		pl := []world.SubPlan{{After: true}, {Before: true}, {Early: true, After: true}, {After: true}}[c.Rng.Intn(4)]
		pl.SameType = sameType
		plan[sc.Nodes[i].DisplayName()] = pl
		wrappedIdx[i] = true
	}
	adj := sc.NamedAdj()
	for o := 0; o < 3; o++ {
		g.ShuffleOrders()
		sub := world.NewSubstituter(plan)
		extra := []any{sub}
		var npp *world.NamePP
		if viaPP {
			npp = &world.NamePP{}
			extra = []any{&world.EarlySubstituter{Substituter: sub}, npp}
		}
		r := world.Start(sc, world.Options{Extra: extra})
		c.Count("starts", 1)
		c.Count("outcome_"+r.Outcome(), 1)
		switch r.Outcome() {
		case "panic":
			c.Fail("", fmt.Sprintf("panic escaped App.Run: %v", r.Panic), failDetail(sc, r, map[string]any{"plan": plan}))
			return
		case "stalled":
			c.Fail("", "start-up hangs: "+r.OutcomeDetail(), failDetail(sc, r, map[string]any{"plan": plan}))
			return
		case "diverged":
			c.Fail("", "start-up did not terminate within the step budget: "+r.Diverge.Error(), failDetail(sc, r, map[string]any{"plan": plan}))
			return
		case "error":
			continue
		}
		if lazyAfter {
			// create the lazy graph now, entering it at one or two seeded members; a lookup that is refused (stale
			// version detected) is a legitimate answer - what was published all the same is then checked below
			perm := c.Rng.Perm(len(sc.Nodes))
			for x := 0; x < 1+c.Rng.Intn(2) && x < len(perm); x++ {
				r.Guard(func() { r.UserLookup(sc.Nodes[perm[x]].DisplayName()) })
				if r.Panic != nil || r.Diverge != nil {
					c.Fail("", fmt.Sprintf("lookup of lazy component %q after the start: %s", sc.Nodes[perm[x]].DisplayName(), core.Short(r.OutcomeDetail(), 300)), failDetail(sc, r, map[string]any{"plan": plan}))
					return
				}
			}
			c.Count("lazy_graphs_created_after_the_start", 1)
		}
		// successful start: one version per name
		type seenT struct {
			obj   any
			where string
		}
		byName := map[string][]seenT{}
		published := map[string]bool{}
		for _, e := range r.Tracer.Events() {
			if e.Op == "create" && e.Phase == "ret" && e.Err == "" {
				published[e.Name] = true
			}
		}
		for ni, nd := range r.Nodes {
			if !published[sc.Nodes[ni].DisplayName()] {
				continue // never (successfully) created: whatever a failed attempt left in its fields is not "held"
			}
			for _, s := range world.SortedSlots(&sc.Nodes[ni]) {
				refs, _ := r.SlotRefs(nd, s)
				for _, ref := range refs {
					if ref.Nil {
						continue
					}
					name := ""
					switch {
					case ref.Wrap != nil:
						name = ref.Wrap.OrigName
					case ref.Pop >= 0:
						if nn, ok := ref.Obj.(world.Node); ok {
							name = nn.DisplayName()
						}
					default:
						c.Fail("", fmt.Sprintf("holder %s slot %s holds an object that is neither a registered instance nor a wrapper: %T", sc.Nodes[ni].DisplayName(), s, ref.Obj), failDetail(sc, r, map[string]any{"plan": plan}))
						return
					}
					if name != "" {
						byName[name] = append(byName[name], seenT{ref.Obj, sc.Nodes[ni].DisplayName() + "." + s})
					}
				}
			}
		}
		if npp != nil {
			// what the post-processor component itself holds counts like any holder's field
			for where, o := range map[string]any{"verif.namepp.One": npp.One, "verif.namepp.AnyOne": npp.AnyOne, "verif.namepp.Req": npp.Req} {
				ref := r.RefOf(o)
				name := ""
				switch {
				case ref.Nil:
				case ref.Wrap != nil:
					name = ref.Wrap.OrigName
				case ref.Pop >= 0:
					if nn, ok := ref.Obj.(world.Node); ok {
						name = nn.DisplayName()
					}
				}
				if name != "" {
					byName[name] = append(byName[name], seenT{ref.Obj, where})
				}
			}
		}
		names := make([]string, 0, len(byName))
		for nm := range byName {
			names = append(names, nm)
		}
		sort.Strings(names)
		// a lookup under the type name of a custom-named (and substituted) component never yields a further version
		if ps := checkTypeNameLookups(c, r, sc); len(ps) > 0 {
			c.Fail("", ps[0], failDetail(sc, r, map[string]any{"plan": plan}))
			return
		}
		for _, nm := range names {
			var final any
			var err error
			r.Guard(func() { final, err = r.App.GetComponentByName(nm) })
			if r.Panic != nil || r.Diverge != nil || err != nil {
				class := ""
				if r.Panic == nil && r.Diverge == nil && earlyRefOfFailedAttemptEscaped(r.Tracer.Events()) {
					class = "F-C03-dependent-of-failed-attempt" // a holder keeps a reference of an attempt that failed and was swallowed
				}
				c.Fail(class, fmt.Sprintf("GetComponentByName(%q) after a successful start: %v %v", nm, r.OutcomeDetail(), err), failDetail(sc, r, map[string]any{"plan": plan}))
				return
			}
			for _, s := range byName[nm] {
				if s.obj != final {
					class := classifyC03(sc, plan, nm, s.where)
					if class == "" && earlyRefOfFailedAttemptEscaped(r.Tracer.Events()) {
						class = "F-C03-dependent-of-failed-attempt"
					}
					c.Fail(class, fmt.Sprintf("stale version after a successful start: %s holds %s of %q but the container publishes %s",
						s.where, verOf(s.obj), nm, verOf(final)), failDetail(sc, r, map[string]any{"plan": plan, "component": nm, "holder_field": s.where,
						"events": renderEvents(r.Log.Events(), 80), "registry_trace": renderTrace(filterTrace(r.Tracer.Events(), nm), 120)}))
					return
				}
			}
			c.Count("versions_checked", len(byName[nm]))
		}
		// a consistently wrapping processor (a wrapper when the early reference is produced, nothing afterwards): what a
		// lookup from inside a callback was handed while the component was in creation is the version that is published
		// (histories in which some creation failed are left to the recorded findings on failed attempts)
		anyFailed := false
		for _, e := range r.Tracer.Events() {
			if e.Op == "create-fn" && e.Phase == "ret" && e.Err != "" {
				anyFailed = true
			}
		}
		for nm, pl := range plan {
			if !pl.Early || pl.After || pl.Before || anyFailed {
				continue
			}
			var final any
			var err error
			r.Guard(func() { final, err = r.App.GetComponentByName(nm) })
			if err != nil || r.Panic != nil || r.Diverge != nil {
				continue
			}
			for _, o := range r.Looked[nm] {
				if o != final {
					c.Fail("", fmt.Sprintf("stale version after a successful start: a lookup of %q from inside a callback was handed %s but the container publishes %s", nm, verOf(o), verOf(final)),
						failDetail(sc, r, map[string]any{"plan": plan, "component": nm, "registry_trace": renderTrace(filterTrace(r.Tracer.Events(), nm), 120)}))
					return
				}
				c.Count("looked_up_versions_checked", 1)
			}
		}
		ev := r.Tracer.Events()
		for name, k := range EarlyRunsPerCreation(ev) {
			if k > 1 {
				c.Fail("", fmt.Sprintf("early-reference factory of %q produced %d references during one creation", name, k), failDetail(sc, r, map[string]any{"plan": plan}))
				return
			}
		}
		c.Distinct("creation_traces", mon.ShapeHash(ev))
		// non-trivial?
		earlyAsked := false
		for i := range sc.Nodes {
			if !wrappedIdx[i] {
				continue
			}
			nm := sc.Nodes[i].DisplayName()
			if sub.Calls["early:"+nm] > 0 && (onCycle(adj, i) || selfReq[i]) {
				earlyAsked = true
			}
		}
		if earlyAsked {
			c.Nontrivial(sc.GraphSig() + fmt.Sprint(plan))
			if c.WantSample() {
				c.Sample(map[string]any{"scenario": describeScenario(sc), "plan": plan, "outcome": "ok", "wrappers_made": len(sub.Made)})
			}
		}
	}
}

func verOf(o any) string {
	if w, ok := o.(*world.Wrap); ok {
		return fmt.Sprintf("wrapper v%d (%p)", w.Version, w)
	}
	if n, ok := o.(world.Node); ok && n.Core().Log == nil {
		return fmt.Sprintf("a same-type substitute (%p)", o)
	}
	switch o.(type) {
	case *world.ZWrap1, *world.ZWrap2:
		return fmt.Sprintf("a zero-size substitute of type %T", o)
	}
	return fmt.Sprintf("the raw instance (%p)", o)
}

func onCycle(adj [][]int, i int) bool {
	seen := map[int]bool{}
	stack := append([]int{}, adj[i]...)
	for len(stack) > 0 {
		x := stack[len(stack)-1]
		stack = stack[:len(stack)-1]
		if x == i {
			return true
		}
		if seen[x] {
			continue
		}
		seen[x] = true
		stack = append(stack, adj[x]...)
	}
	return false
}

// classifyC03 decides on the input only: the stale holder is the substituted component itself
// (it holds its own early reference) and the plan wraps it again after the early reference.
func classifyC03(sc *world.Scenario, plan map[string]world.SubPlan, component, where string) string {
	p, ok := plan[component]
	if !ok {
		return ""
	}
	holder := where
	for i := len(where) - 1; i >= 0; i-- {
		if where[i] == '.' {
			holder = where[:i]
			break
		}
	}
	if holder == component && (p.After || p.Before) {
		return "F-C03-self-early-proxy"
	}
	return ""
}

func filterTrace(ev []mon.TraceEv, name string) []mon.TraceEv {
	var out []mon.TraceEv
	for _, e := range ev {
		if e.Op != "increation" {
			out = append(out, e)
		}
	}
	return out
}
