package props

import (
	"fmt"
	"github.com/go-kid/ioc/app"
	"github.com/go-kid/ioc/configure/loader"
	"math"
	"reflect"
	"regexp"
	"strconv"
	"strings"

	"gopkg.in/yaml.v3"
	"verifharness/core"
	"verifharness/world"
)

// C17 Configuration values reach fields unchanged.
type c17 struct{}

func init() { core.Register(c17{}) }

func (c17) ID() string    { return "C17" }
func (c17) Level() string { return "exploration" }
func (c17) Rule() string {
	return "seeded configuration values: integers of any magnitude (0, +-1, 2^31, 2^53+1, MaxInt64, MinInt64, random), floats, booleans, strings from a hostile alphabet (number-like 007 / 1.10 / +5 / 1e3, boolean-like TRUE / false, quoted 'x' / \"x\", bracketed [a,b] / {} / map[a:b], empty, with spaces / colons / leading blanks, plain), lists of ints / strings (hostile strings inside), nested string->string and string->int maps, structs with yaml tags; each value is marshalled to a YAML document by the generator, loaded by the real container and bound to reflect.StructOf holders three ways, one start each: prefix:\"k\" (typed expectation from the generator's own tree), value:\"${k}\" and prop:\"k\" (must equal the prefix-bound twin), into every compatible concretely typed target (scalar, pointer to scalar, []int / []int64 / []string, map[string]string / map[string]int, struct, *struct). Literals: value:\"<lit>\" into string / int / bool / float targets must be bound as written (strings byte-identical). non-trivial = hostile string, integer beyond 2^53, or a collection; distinct = (value, target type, path kind); own-copy family (a holder changing its map[string]any / []any bound data must not change what later bindings and Get deliver) and retried family (placeholder / prop / prefix bindings of one key after 0-2 failed attempts and Set changes); mapper family (mapper=json next to default bindings, in one holder and in a later start); in a quarter of the main cases the last key segment is selected by a placeholder (configured, or falling back to its default) in all three forms; explicitPrefix family; viaArgs family (command-line values with '='); composite family (value tags assembled from several placeholders); memberCase family (struct members whose keys are spelled in another case in map / JSON literals, placeholder defaults and mappings inside configured lists); keys spelled in another case in the tags; dotted map keys; multi-line strings ending the document; floats with exponents bound to strings; embeddedMember family; jsonLooking family (JSON-looking strings on untyped targets); statefulPrefix family (a prefix depending on the held instance); optionalGap family (an optional unconfigured prefix among configured ones)"
}
func (c17) Assumptions() []string {
	return []string{
		"any-typed targets are excluded: 'converted to the field's type' says nothing there and the repository's own suite pins float64 inside map[string]any",
		"YAML encoding/decoding of the generated document is trusted (gopkg.in/yaml.v3 on both sides)",
	}
}
func (c17) NumCases(tier string) int      { return tierN(tier, 3000, 600000) }
func (c17) MinNontrivial(tier string) int { return tierN(tier, 300, 2000) }

var hostileStrings = []string{"hello", "007", "1.10", "+5", "-3", "1e3", "TRUE", "false", "True", "'x'", "\"x\"", "[a,b]", "[]", "{}", "map[a:b]",
	"", "a b", "a:b", "v1.10", " lead", "trail ", "null", "~", "0x1F", "1,5", "a,b", "#tag", "x=y", "10.0", "9007199254740993", "é√", "line1\nline2\n", "keep\n\n"}

var bigInts = []int64{0, 1, -1, 42, 1 << 31, (1 << 53) + 1, math.MaxInt64, math.MinInt64, -(1 << 53) - 1, 1234567890123456789}

type c17Value struct {
	kind string // int | float | bool | string | ints | strings | mapss | mapsi | struct
	v    any
}

func genValue(c *core.Ctx) c17Value {
	switch c.Rng.Intn(12) {
	case 0, 1:
		if c.Rng.Intn(2) == 0 {
			return c17Value{"int", bigInts[c.Rng.Intn(len(bigInts))]}
		}
		return c17Value{"int", c.Rng.Int63n(1<<40) - (1 << 39)}
	case 2:
		return c17Value{"float", []float64{1.5, 0.1, 3.14159, -2.25, 1e10, 123456.789, 0.00001, 2.5e-7, 1.5e22}[c.Rng.Intn(9)]}
	case 3:
		return c17Value{"bool", c.Rng.Intn(2) == 0}
	case 4, 5, 6, 7:
		return c17Value{"string", hostileStrings[c.Rng.Intn(len(hostileStrings))]}
	case 8:
		n := 1 + c.Rng.Intn(4)
		l := make([]any, n)
		for i := range l {
			if c.Rng.Intn(3) == 0 {
				l[i] = bigInts[c.Rng.Intn(len(bigInts))]
			} else {
				l[i] = int64(c.Rng.Intn(100000))
			}
		}
		return c17Value{"ints", l}
	case 9:
		n := 1 + c.Rng.Intn(4)
		l := make([]any, n)
		for i := range l {
			l[i] = hostileStrings[c.Rng.Intn(len(hostileStrings))]
		}
		return c17Value{"strings", l}
	case 10:
		m := map[string]any{}
		keys := []string{"a", "b", "c"}
		if c.Rng.Intn(3) == 0 {
			// keys of a mapping are data too: labels with dots and slashes
			keys = []string{"app.kubernetes.io/name", "tier", "a.b"}
		}
		for _, k := range keys[:1+c.Rng.Intn(3)] {
			m[k] = hostileStrings[c.Rng.Intn(len(hostileStrings))]
		}
		return c17Value{"mapss", m}
	default:
		if c.Rng.Intn(2) == 0 {
			m := map[string]any{}
			for _, k := range []string{"a", "b", "c"}[:1+c.Rng.Intn(3)] {
				m[k] = int64(c.Rng.Intn(1 << 30))
			}
			return c17Value{"mapsi", m}
		}
		return c17Value{"struct", map[string]any{"name": hostileStrings[c.Rng.Intn(len(hostileStrings))], "port": int64(c.Rng.Intn(65536)), "on": c.Rng.Intn(2) == 0}}
	}
}

type cfgStruct struct {
	Name string `yaml:"name"`
	Port int    `yaml:"port"`
	On   bool   `yaml:"on"`
}

// targetsFor lists compatible target types with the typed expectation.
func targetsFor(v c17Value) (types []reflect.Type, expect []any) {
	add := func(t reflect.Type, e any) { types, expect = append(types, t), append(expect, e) }
	switch v.kind {
	case "int":
		i := v.v.(int64)
		add(reflect.TypeOf(int64(0)), i)
		add(reflect.TypeOf(0), int(i))
		add(reflect.TypeOf((*int64)(nil)), &i)
		add(reflect.TypeOf(""), fmt.Sprint(i))
	case "float":
		f := v.v.(float64)
		add(reflect.TypeOf(float64(0)), f)
		add(reflect.TypeOf((*float64)(nil)), &f)
		// a float bound to a string field arrives as its plain decimal text (also very small / very large ones)
		add(reflect.TypeOf(""), strconv.FormatFloat(f, 'f', -1, 64))
	case "bool":
		b := v.v.(bool)
		add(reflect.TypeOf(false), b)
		add(reflect.TypeOf((*bool)(nil)), &b)
	case "string":
		s := v.v.(string)
		add(reflect.TypeOf(""), s)
		add(reflect.TypeOf((*string)(nil)), &s)
	case "ints":
		var a []int64
		var b []int
		for _, e := range v.v.([]any) {
			a = append(a, e.(int64))
			b = append(b, int(e.(int64)))
		}
		add(reflect.TypeOf([]int64{}), a)
		add(reflect.TypeOf([]int{}), b)
	case "strings":
		var a []string
		for _, e := range v.v.([]any) {
			a = append(a, e.(string))
		}
		add(reflect.TypeOf([]string{}), a)
	case "mapss":
		m := map[string]string{}
		for k, e := range v.v.(map[string]any) {
			m[k] = e.(string)
		}
		add(reflect.TypeOf(map[string]string{}), m)
	case "mapsi":
		m := map[string]int{}
		for k, e := range v.v.(map[string]any) {
			m[k] = int(e.(int64))
		}
		add(reflect.TypeOf(map[string]int{}), m)
	case "struct":
		m := v.v.(map[string]any)
		s := cfgStruct{Name: m["name"].(string), Port: int(m["port"].(int64)), On: m["on"].(bool)}
		add(reflect.TypeOf(cfgStruct{}), s)
		add(reflect.TypeOf(&cfgStruct{}), &s)
	}
	return
}

var numberRe = regexp.MustCompile(`^(-|\+)?\d+(\.\d+)?$`)

// sniffable: the text would be re-interpreted by a type-sniffing parser (input classifier,
// written independently of the repository code).
func sniffable(s string) bool {
	l := strings.ToLower(s)
	switch {
	case s == "", l == "true", l == "false", numberRe.MatchString(s):
		return true
	case len(s) > 1 && s[0] == '[' && s[len(s)-1] == ']':
		return true
	case len(s) > 4 && strings.HasPrefix(s, "map[") && s[len(s)-1] == ']':
		return true
	case len(s) > 1 && s[0] == '{' && s[len(s)-1] == '}':
		return true
	case len(s) > 1 && ((s[0] == '\'' && s[len(s)-1] == '\'') || (s[0] == '"' && s[len(s)-1] == '"')):
		return true
	}
	return false
}

func bindOnce(tag string, ft reflect.Type, doc string) (got any, outcome string, detail string) {
	h := world.NewHolder(world.BuildStruct([]world.FieldSpec{{Name: "F", Type: ft, Tag: tag}}))
	r := world.Start(&world.Scenario{Config: doc}, world.Options{Extra: []any{h}, NoTracer: true})
	return reflect.ValueOf(h).Elem().Field(0).Interface(), r.Outcome(), core.Short(r.OutcomeDetail(), 300)
}

// memberCase: struct members are matched with their keys regardless of case - also when the mapping did not
// pass through the configuration store's key normalisation: a map / JSON literal written in a value tag, the
// default of a placeholder, mappings inside a configured list.
func (p c17) memberCase(c *core.Ctx) {
	host := []string{"h1", "db.internal", "007", "1.10"}[c.Rng.Intn(4)]
	port := 1 + c.Rng.Intn(9000)
	st := world.BuildStruct([]world.FieldSpec{
		{Name: "HostName", Type: reflect.TypeOf(""), Tag: `yaml:"hostName"`},
		{Name: "Port", Type: reflect.TypeOf(0), Tag: `yaml:"port"`},
	})
	mk := func() reflect.Value {
		v := reflect.New(st).Elem()
		v.Field(0).SetString(host)
		v.Field(1).SetInt(int64(port))
		return v
	}
	hk := []string{"hostName", "HostName", "hostname", "HOSTNAME"}[c.Rng.Intn(4)]
	pk := []string{"port", "Port", "PORT"}[c.Rng.Intn(3)]
	var ft reflect.Type = st
	var want any = mk().Interface()
	doc, tag := "", ""
	switch form := c.Rng.Intn(5); form {
	case 0: // map literal in the tag
		tag = fmt.Sprintf("value:%q", fmt.Sprintf("map[%s:%s %s:%d]", hk, host, pk, port))
		if sniffable(host) {
			return // (number-like member values inside a literal are the literal family's business)
		}
	case 1: // JSON literal in the tag
		tag = fmt.Sprintf("value:%q", fmt.Sprintf(`{"%s":"%s","%s":%d}`, hk, host, pk, port))
	case 2: // default of a placeholder whose key is not configured
		// (a default cannot contain braces: the map[...] form)
		tag = fmt.Sprintf("value:%q", fmt.Sprintf(`${no.such.section:map[%s:%s %s:%d]}`, hk, host, pk, port))
		if sniffable(host) {
			return
		}
	default: // mappings inside a configured list (form 3: bound by prefix, form 4: through a placeholder)
		doc = fmt.Sprintf("servers:\n  - %s: \"%s\"\n    %s: %d\n  - %s: \"%s\"\n    %s: %d\n", hk, host, pk, port, hk, host, pk, port)
		ft = reflect.SliceOf(st)
		sl := reflect.MakeSlice(ft, 0, 2)
		sl = reflect.Append(sl, mk(), mk())
		want = sl.Interface()
		tag = []string{`prefix:"servers"`, `value:"${servers}"`}[form-3]
	}
	got, out, det := bindOnce(tag, ft, doc)
	c.Count("starts", 1)
	detail := map[string]any{"tag": tag, "document": doc, "target": ft.String(), "outcome": det}
	if abnormal(out) {
		c.Fail("", fmt.Sprintf("%s into %s: %s", tag, ft, det), detail)
		return
	}
	if out != "ok" || !reflect.DeepEqual(got, want) {
		c.Fail("", fmt.Sprintf("%s (document %q) into %s gives %s (%s), expected %s: members are matched with their keys regardless of case", tag, doc, ft, renderVal(got), out, renderVal(want)), detail)
		return
	}
	c.Count("member_case_bindings_checked", 1)
	c.Nontrivial("membercase|" + tag + "|" + doc)
}

// embeddedMember: a configuration struct with an untagged embedded struct is bound like any nested struct -
// the embedded struct's members come from the subtree under its own key.
func (p c17) embeddedMember(c *core.Ctx) {
	size, psize := c.Rng.Intn(50), 50+c.Rng.Intn(50)
	backend := []string{"007", "pg", "1.10"}[c.Rng.Intn(3)]
	doc := fmt.Sprintf("db:\n  name: main\n  size: %d\n  poolcfg:\n    size: %d\n    backend: %q\n", size, psize, backend)
	want := world.DBCfg{PoolCfg: world.PoolCfg{Size: psize, Backend: backend}, Size: size, Name: "main"}
	tag := []string{`prefix:"db"`, `value:"${db}"`, `prop:"db"`}[c.Rng.Intn(3)]
	ptr := c.Rng.Intn(2) == 0
	var ft reflect.Type = reflect.TypeOf(world.DBCfg{})
	if ptr {
		ft = reflect.PointerTo(ft)
	}
	got, out, det := bindOnce(tag, ft, doc)
	c.Count("starts", 1)
	detail := map[string]any{"tag": tag, "document": doc, "outcome": det}
	if abnormal(out) {
		c.Fail("", fmt.Sprintf("%s into %s: %s", tag, ft, det), detail)
		return
	}
	var gv world.DBCfg
	if ptr {
		if p, _ := got.(*world.DBCfg); p != nil {
			gv = *p
		}
	} else {
		gv, _ = got.(world.DBCfg)
	}
	if out != "ok" || gv != want {
		c.Fail("", fmt.Sprintf("%s into %s gives %+v (%s), expected %+v: the members of the embedded struct come from the subtree under its own key", tag, ft, gv, out, want), detail)
		return
	}
	c.Count("embedded_member_bindings_checked", 1)
	c.Nontrivial("embeddedmember|" + tag + "|" + doc)
}

// composite: a value tag assembled from several placeholders (beginning and ending with one) binds the whole
// assembled text, each configured value appearing unchanged at its place.
func (p c17) composite(c *core.Ctx) {
	v1 := []string{"example.org", "db.internal", "alpha", "svc-a"}[c.Rng.Intn(4)]
	v2 := []string{"8080", "beta", ".local", "007", "1.10"}[c.Rng.Intn(5)]
	sep := []string{":", "", "://", "-", " and "}[c.Rng.Intn(5)]
	doc := fmt.Sprintf("cfg:\n  a: %q\n  b: %q\n", v1, v2)
	tag, want := "", ""
	switch c.Rng.Intn(4) {
	case 0:
		tag, want = "${cfg.a}"+sep+"${cfg.b}", v1+sep+v2
	case 1:
		if sniffable(v2) {
			v2 = "beta" // (number-like defaults are C16's subject and its known finding)
			doc = fmt.Sprintf("cfg:\n  a: %q\n  b: %q\n", v1, v2)
		}
		tag, want = "${cfg.a}"+sep+"${cfg.none:"+v2+"}", v1+sep+v2
	case 2:
		tag, want = "${cfg.a}"+sep+"${cfg.b}"+sep+"${cfg.a}", v1+sep+v2+sep+v1
	default:
		tag, want = "${cfg.a}"+sep+"${cfg.${cfg.sel:b}}", v1+sep+v2
	}
	full := fmt.Sprintf("value:%q", tag)
	got, out, det := bindOnce(full, reflect.TypeOf(""), doc)
	c.Count("starts", 1)
	detail := map[string]any{"tag": full, "document": doc, "outcome": det}
	if abnormal(out) {
		c.Fail("", fmt.Sprintf("%s: %s", full, det), detail)
		return
	}
	if out != "ok" || got != any(want) {
		c.Fail("", fmt.Sprintf("%s with cfg.a=%q cfg.b=%q into string gives %q (%s), expected %q", full, v1, v2, got, out, want), detail)
		return
	}
	c.Count("composite_bindings_checked", 1)
	c.Nontrivial("composite|" + tag + "|" + doc)
}

// jsonLooking: a configured STRING whose text happens to be a JSON document, bound by prefix to targets without a
// type of their own (an `any` field, the entries of a map[string]any, the elements of a []any) arrives as that
// string.
func (p c17) jsonLooking(c *core.Ctx) {
	texts := []string{"[1,2,3]", `{"a":"b"}`, `["x","y"]`, `{"n":1,"m":{"k":[true]}}`, "[]", "{}", `[{"a":1}]`, "[not json", "{braces} text", `"quoted"`, "[1, 2"}
	pick := func() string { return texts[c.Rng.Intn(len(texts))] }
	one, m1, m2, l1, l2 := pick(), pick(), pick(), pick(), pick()
	tree := map[string]any{"j": map[string]any{"text": one, "m": map[string]any{"first": m1, "second": m2, "plain": "p"}, "l": []any{l1, l2, "p"}}}
	b, _ := yaml.Marshal(tree)
	fields := []world.FieldSpec{
		{Name: "One", Type: world.TypeAny, Tag: `prefix:"j.text"`},
		{Name: "M", Type: reflect.TypeOf(map[string]any{}), Tag: `prefix:"j.m"`},
		{Name: "L", Type: reflect.TypeOf([]any{}), Tag: `prefix:"j.l"`},
		{Name: "S", Type: reflect.TypeOf(""), Tag: `prefix:"j.text"`},
	}
	c.Rng.Shuffle(len(fields), func(i, j int) { fields[i], fields[j] = fields[j], fields[i] })
	h := world.NewHolder(world.BuildStruct(fields))
	r := world.Start(&world.Scenario{Config: string(b)}, world.Options{Extra: []any{h}, NoTracer: true})
	c.Count("starts", 1)
	c.Count("json_looking_strings_bound", 5)
	detail := map[string]any{"document": string(b), "holder": describeHolder(h)}
	if r.Outcome() != "ok" {
		c.Fail("", "start did not succeed: "+core.Short(r.OutcomeDetail(), 300), detail)
		return
	}
	hv := reflect.ValueOf(h).Elem()
	got := map[string]any{"One": hv.FieldByName("One").Interface(), "M": hv.FieldByName("M").Interface(), "L": hv.FieldByName("L").Interface(), "S": hv.FieldByName("S").Interface()}
	want := map[string]any{"One": any(one), "M": map[string]any{"first": m1, "second": m2, "plain": "p"}, "L": []any{l1, l2, "p"}, "S": one}
	for _, k := range []string{"One", "M", "L", "S"} {
		if !reflect.DeepEqual(got[k], want[k]) {
			c.Fail("", fmt.Sprintf("field %s bound by prefix holds %#v, configured %#v", k, got[k], want[k]), detail)
			return
		}
	}
	c.Nontrivial("jsonlooking|" + one + m1 + m2 + l1 + l2)
}

// statefulPrefix: an untagged pointer field whose type announces its prefix depending on the state of the instance
// the field holds is bound from the subtree that instance names (a nil field from the one a nil receiver names).
func (p c17) statefulPrefix(c *core.Ctx) {
	w := func() string { return plainWords[c.Rng.Intn(len(plainWords))] }
	names := []string{"main", "replica", "archive"}
	tree := map[string]any{}
	hosts := map[string]string{}
	ports := map[string]int{}
	for _, n := range append([]string{"default"}, names...) {
		hosts[n], ports[n] = w()+"-"+n, 1+c.Rng.Intn(9000)
		tree[n] = map[string]any{"host": hosts[n], "port": ports[n]}
	}
	b, _ := yaml.Marshal(map[string]any{"datasource": tree})
	pt := reflect.TypeOf(&world.NamedSource{})
	var fields []world.FieldSpec
	var holds []string
	for i, n := 0, 1+c.Rng.Intn(4); i < n; i++ {
		fields = append(fields, world.FieldSpec{Name: fmt.Sprintf("D%d", i), Type: pt})
		holds = append(holds, append([]string{"default"}, names...)[c.Rng.Intn(4)])
	}
	h := world.NewHolder(world.BuildStruct(fields))
	hv := reflect.ValueOf(h).Elem()
	for i, n := range holds {
		if n != "default" || c.Rng.Intn(2) == 0 {
			hv.Field(i).Set(reflect.ValueOf(world.NewNamedSource(map[bool]string{true: "", false: n}[n == "default"])))
		}
	}
	r := world.Start(&world.Scenario{Config: string(b)}, world.Options{Extra: []any{h}, NoTracer: true})
	c.Count("starts", 1)
	c.Count("state_dependent_prefixes_bound", len(holds))
	detail := map[string]any{"document": string(b), "fields_hold_instances_named": holds}
	if r.Outcome() != "ok" {
		c.Fail("", "start did not succeed: "+core.Short(r.OutcomeDetail(), 300), detail)
		return
	}
	for i, n := range holds {
		d, _ := hv.Field(i).Interface().(*world.NamedSource)
		if d == nil || d.Host != hosts[n] || d.Port != ports[n] {
			c.Fail("", fmt.Sprintf("field D%d holds the instance named %q (prefix %q): bound %+v, configured {host:%s port:%d}", i, n, "datasource."+n, d, hosts[n], ports[n]), detail)
			return
		}
	}
	c.Nontrivial(fmt.Sprint("statefulprefix|", holds))
}

// optionalGap: an optional prefix-bound field whose subtree is absent, among configured prefix-bound fields of the same
// component (in any field order): the configured ones are bound, the absent one stays zero.
func (p c17) optionalGap(c *core.Ctx) {
	w := func() string { return plainWords[c.Rng.Intn(len(plainWords))] }
	name, tags, port := w()+"-srv", []string{w(), w()}, 1+c.Rng.Intn(9000)
	doc := fmt.Sprintf("gap:\n  name: %s\n  port: %d\n  tags: [%s, %s]\n  labels:\n    a: x\n", name, port, tags[0], tags[1])
	fields := []world.FieldSpec{
		{Name: "Name", Type: reflect.TypeOf(""), Tag: `prefix:"gap.name"`},
		{Name: "Port", Type: reflect.TypeOf(0), Tag: `prefix:"gap.port"`},
		{Name: "Tags", Type: reflect.TypeOf([]string{}), Tag: `prefix:"gap.tags"`},
		{Name: "Labels", Type: reflect.TypeOf(map[string]string{}), Tag: `prefix:"gap.labels"`},
	}
	for i, n := 0, 1+c.Rng.Intn(2); i < n; i++ {
		fields = append(fields, world.FieldSpec{Name: fmt.Sprintf("Absent%d", i), Type: []reflect.Type{reflect.TypeOf(""), reflect.TypeOf(0), reflect.TypeOf(world.PoolCfg{}), reflect.TypeOf(&world.PoolCfg{})}[c.Rng.Intn(4)],
			Tag: fmt.Sprintf(`prefix:"gap.absent%d,required=false"`, i)})
	}
	c.Rng.Shuffle(len(fields), func(i, j int) { fields[i], fields[j] = fields[j], fields[i] })
	h := world.NewHolder(world.BuildStruct(fields))
	r := world.Start(&world.Scenario{Config: doc}, world.Options{Extra: []any{h}, NoTracer: true})
	c.Count("starts", 1)
	c.Count("optional_gap_cases", 1)
	detail := map[string]any{"document": doc, "holder": describeHolder(h)}
	if r.Outcome() != "ok" {
		c.Fail("", "start did not succeed: "+core.Short(r.OutcomeDetail(), 300), detail)
		return
	}
	hv := reflect.ValueOf(h).Elem()
	got := fmt.Sprint(hv.FieldByName("Name").Interface(), hv.FieldByName("Port").Interface(), hv.FieldByName("Tags").Interface(), hv.FieldByName("Labels").Interface())
	want := fmt.Sprint(name, port, tags, map[string]string{"a": "x"})
	if got != want {
		c.Fail("", fmt.Sprintf("configured prefix-bound fields next to an optional, unconfigured one: bound %s, configured %s", got, want), detail)
		return
	}
	for i := 0; i < hv.NumField(); i++ {
		if strings.HasPrefix(hv.Type().Field(i).Name, "Absent") && !hv.Field(i).IsZero() {
			c.Fail("", fmt.Sprintf("optional field %s without configuration holds %v", hv.Type().Field(i).Name, hv.Field(i).Interface()), detail)
			return
		}
	}
	c.Nontrivial("optionalgap|" + describeHolder(h))
}

func (p c17) Run(c *core.Ctx) {
	if c.Index%20 == 12 {
		p.optionalGap(c)
		return
	}
	if c.Index%20 == 2 {
		p.jsonLooking(c)
		return
	}
	if c.Index%20 == 7 {
		p.statefulPrefix(c)
		return
	}
	if c.Index%20 == 6 {
		p.memberCase(c)
		return
	}
	if c.Index%20 == 11 {
		p.composite(c)
		return
	}
	if c.Index%20 == 1 {
		p.embeddedMember(c)
		return
	}
	if c.Index%5 == 4 {
		p.literal(c)
		return
	}
	if c.Index%20 == 3 {
		p.ownCopy(c)
		return
	}
	if c.Index%20 == 13 {
		p.retried(c)
		return
	}
	if c.Index%20 == 8 {
		p.mapper(c)
		return
	}
	if c.Index%20 == 18 {
		p.explicitPrefix(c)
		return
	}
	if c.Index%20 == 16 {
		p.viaArgs(c)
		return
	}
	v := genValue(c)
	docTree := map[string]any{"cfg": map[string]any{"k": v.v, "a-other": "x"}} // (k is the document's last node)
	b, err := yaml.Marshal(docTree)
	if err != nil {
		c.Fail("", "HARNESS: yaml marshal: "+err.Error(), nil)
		return
	}
	doc := string(b)
	types, expects := targetsFor(v)
	ti := c.Rng.Intn(len(types))
	ft, want := types[ti], expects[ti]
	hostile := v.kind == "string" && (sniffable(v.v.(string)) || strings.ContainsAny(v.v.(string), " :,'\"$#"))
	big := false
	if v.kind == "int" {
		i := v.v.(int64)
		big = i > 1<<53 || i < -(1<<53)
	}
	detail := func(extra map[string]any) map[string]any {
		d := map[string]any{"value_kind": v.kind, "value": fmt.Sprintf("%#v", v.v), "target": ft.String(), "document": doc}
		for k, x := range extra {
			d[k] = x
		}
		return d
	}
	// 1. prefix path: typed expectation
	// in a quarter of the cases the last key segment is selected by a placeholder of its own ("cfg.${sel}",
	// sel: k): the three ways of binding must still agree
	pfxTag, valTag, propTag := `prefix:"cfg.k"`, `value:"${cfg.k}"`, `prop:"cfg.k"`
	if c.Rng.Intn(4) == 0 {
		doc += "sel: k\n"
		pfxTag, valTag, propTag = `prefix:"cfg.${sel}"`, `value:"${cfg.${sel}}"`, `prop:"cfg.${sel}"`
		if c.Rng.Intn(2) == 0 {
			// the selecting key is not configured and falls back to its default; the selected key is configured
			pfxTag, valTag, propTag = `prefix:"cfg.${nosel:k}"`, `value:"${cfg.${nosel:k}}"`, `prop:"cfg.${nosel:k}"`
			c.Count("cases_with_a_key_segment_selected_by_a_default", 1)
		}
		c.Count("cases_with_a_selected_key_segment", 1)
	} else if c.Rng.Intn(4) == 0 {
		// the tags spell the key with capitals (keys are matched regardless of case): still the same key
		sp := []string{"Cfg.K", "CFG.k", "cfg.K"}[c.Rng.Intn(3)]
		pfxTag, valTag, propTag = fmt.Sprintf(`prefix:"%s"`, sp), fmt.Sprintf(`value:"${%s}"`, sp), fmt.Sprintf(`prop:"%s"`, sp)
		c.Count("cases_with_the_key_spelled_in_another_case", 1)
	}
	gotP, outP, detP := bindOnce(pfxTag, ft, doc)
	c.Count("starts", 1)
	if abnormal(outP) {
		c.Fail("", fmt.Sprintf("prefix binding of %#v into %s: %s", v.v, ft, detP), detail(nil))
		return
	}
	if outP != "ok" || !reflect.DeepEqual(gotP, want) {
		c.Fail(classifyC17(v, ft, "prefix"), fmt.Sprintf("prefix:\"cfg.k\" with cfg.k=%#v into %s gives %s (%s), expected %s", v.v, ft, renderVal(gotP), outP, renderVal(want)), detail(map[string]any{"outcome": detP}))
		return
	}
	c.Count("prefix_bindings_checked", 1)
	// 2. value / prop path must agree with the prefix twin
	for _, tw := range []struct{ name, tag string }{{"value", valTag}, {"prop", propTag}} {
		got, out, det := bindOnce(tw.tag, ft, doc)
		c.Count("starts", 1)
		if abnormal(out) {
			c.Fail("", fmt.Sprintf("%s binding of %#v into %s: %s", tw.name, v.v, ft, det), detail(nil))
			return
		}
		if out != "ok" || !reflect.DeepEqual(got, gotP) {
			c.Fail(classifyC17(v, ft, tw.name), fmt.Sprintf("%s with cfg.k=%#v into %s gives %s (%s), the prefix-bound twin holds %s", tw.tag, v.v, ft, renderVal(got), out, renderVal(gotP)),
				detail(map[string]any{"outcome": det}))
			return
		}
		c.Count("twin_bindings_checked", 1)
	}
	// the same tag on several fields (of one holder and of a second component): every one of them must
	// agree with the prefix-bound twin, not only the first one resolved
	{
		tag := []string{`value:"${cfg.k}"`, `prop:"cfg.k"`}[c.Rng.Intn(2)]
		h1 := world.NewHolder(world.BuildStruct([]world.FieldSpec{{Name: "A", Type: ft, Tag: tag}, {Name: "B", Type: ft, Tag: tag}}))
		h2 := world.NewHolder(world.BuildStruct([]world.FieldSpec{{Name: "C", Type: ft, Tag: tag}, {Name: "P", Type: ft, Tag: `prefix:"cfg.k"`}}))
		r := world.Start(&world.Scenario{Config: doc}, world.Options{Extra: []any{h1, h2}, NoTracer: true})
		c.Count("starts", 1)
		if abnormal(r.Outcome()) {
			c.Fail("", fmt.Sprintf("repeated tag %s: %s", tag, r.OutcomeDetail()), detail(nil))
			return
		}
		if r.Outcome() == "ok" {
			for _, f := range []reflect.Value{reflect.ValueOf(h1).Elem().Field(0), reflect.ValueOf(h1).Elem().Field(1), reflect.ValueOf(h2).Elem().Field(0), reflect.ValueOf(h2).Elem().Field(1)} {
				if !reflect.DeepEqual(f.Interface(), gotP) {
					c.Fail(classifyC17(v, ft, "value"), fmt.Sprintf("tag %s repeated on several fields with cfg.k=%#v into %s: one field holds %s, the prefix-bound twin holds %s", tag, v.v, ft, renderVal(f.Interface()), renderVal(gotP)), detail(nil))
					return
				}
			}
			c.Count("repeated_tag_bindings_checked", 4)
		} else {
			c.Fail(classifyC17(v, ft, "value"), fmt.Sprintf("tag %s repeated on several fields with cfg.k=%#v into %s fails although a single use succeeds: %s", tag, v.v, ft, core.Short(r.OutcomeDetail(), 200)), detail(nil))
			return
		}
	}
	// a pointer-typed target that is already allocated (constructed with defaults) must end up with exactly
	// the configured value, nothing of the old content
	if pt, old, ok := prefilledTarget(v, c); ok {
		h := world.NewHolder(world.BuildStruct([]world.FieldSpec{{Name: "F", Type: pt, Tag: `prefix:"cfg.k"`}, {Name: "G", Type: pt, Tag: `value:"${cfg.k}"`}}))
		hv := reflect.ValueOf(h).Elem()
		hv.Field(0).Set(old())
		hv.Field(1).Set(old())
		r := world.Start(&world.Scenario{Config: doc}, world.Options{Extra: []any{h}, NoTracer: true})
		c.Count("starts", 1)
		want := reflect.New(pt.Elem())
		wantDirect, _, _ := bindOnce(`prefix:"cfg.k"`, pt.Elem(), doc)
		want.Elem().Set(reflect.ValueOf(wantDirect))
		for i := 0; i < 2; i++ {
			if r.Outcome() != "ok" || !reflect.DeepEqual(hv.Field(i).Interface(), want.Interface()) {
				c.Fail(classifyC17(v, pt, []string{"prefix", "value"}[i]), fmt.Sprintf("pre-allocated %s target bound with cfg.k=%#v holds %s (%s), expected exactly %s", pt, v.v, renderVal(hv.Field(i).Interface()), r.Outcome(), renderVal(want.Interface())), detail(nil))
				return
			}
		}
		c.Count("preallocated_pointer_targets_checked", 2)
	}
	c.Distinct("value_target_pairs", fmt.Sprintf("%#v/%s", v.v, ft))
	if hostile || big || v.kind == "ints" || v.kind == "strings" || v.kind == "mapss" || v.kind == "mapsi" || v.kind == "struct" {
		c.Nontrivial(fmt.Sprintf("%#v/%s", v.v, ft))
		if c.WantSample() {
			c.Sample(detail(map[string]any{"bound": renderVal(gotP)}))
		}
	}
}

func renderVal(v any) string {
	rv := reflect.ValueOf(v)
	if rv.Kind() == reflect.Pointer && !rv.IsNil() {
		return fmt.Sprintf("&%#v", rv.Elem().Interface())
	}
	return fmt.Sprintf("%#v", v)
}

// literal: a literal written in a value tag is bound as written.
func (p c17) literal(c *core.Ctx) {
	var lit string
	var ft reflect.Type
	var want any
	switch c.Rng.Intn(5) {
	case 0, 1, 2:
		lit = hostileStrings[c.Rng.Intn(len(hostileStrings))]
		if strings.ContainsAny(lit, ",\"") || strings.Contains(lit, "${") { // ',' starts the argument list, '"' cannot be written in a struct tag value unescaped
			lit = "plain" + fmt.Sprint(c.Rng.Intn(100))
		}
		ft, want = reflect.TypeOf(""), lit
	case 3:
		i := bigInts[c.Rng.Intn(len(bigInts))]
		lit, ft, want = fmt.Sprint(i), reflect.TypeOf(int64(0)), i
	case 4:
		lit, ft, want = "2.5", reflect.TypeOf(float64(0)), 2.5
	}
	got, out, det := bindOnce(fmt.Sprintf("value:%q", lit), ft, "")
	c.Count("starts", 1)
	d := map[string]any{"literal": lit, "target": ft.String(), "outcome": det}
	if abnormal(out) {
		c.Fail("", fmt.Sprintf("literal value:%q into %s: %s", lit, ft, det), d)
		return
	}
	if out != "ok" || !reflect.DeepEqual(got, want) {
		class := ""
		if ft.Kind() == reflect.String && sniffable(lit) {
			class = "F-C17-literal-sniffed"
		}
		if ft.Kind() == reflect.Int64 {
			if i := want.(int64); i > 1<<53 || i < -(1<<53) {
				class = "F-C17-bigint-text"
			}
		}
		c.Fail(class, fmt.Sprintf("literal value:%q into %s gives %s (%s), expected %s", lit, ft, renderVal(got), out, renderVal(want)), d)
		return
	}
	c.Count("literals_checked", 1)
	if sniffable(lit) || strings.ContainsAny(lit, " :") {
		c.Nontrivial("lit:" + lit + "/" + ft.String())
	}
}

// classifyC17 decides on the input only.
func classifyC17(v c17Value, ft reflect.Type, path string) string {
	if path == "prefix" {
		return ""
	}
	elem := ft
	if elem.Kind() == reflect.Pointer {
		elem = elem.Elem()
	}
	_ = elem
	switch v.kind {
	case "ints":
		for _, e := range v.v.([]any) {
			if i := e.(int64); i > 1<<53 || i < -(1<<53) {
				return "F-C17-bigint-text"
			}
		}
	}
	return ""
}

// prefilledTarget: for collection / struct values a pointer-typed target type and a constructor of an
// "old" content that differs from anything configured (longer list, extra keys, other field values).
func prefilledTarget(v c17Value, c *core.Ctx) (reflect.Type, func() reflect.Value, bool) {
	switch v.kind {
	case "ints":
		return reflect.TypeOf(&[]int64{}), func() reflect.Value { return reflect.ValueOf(&[]int64{-1, -2, -3, -4, -5, -6, -7}) }, true
	case "strings":
		return reflect.TypeOf(&[]string{}), func() reflect.Value {
			return reflect.ValueOf(&[]string{"old0", "old1", "old2", "old3", "old4", "old5"})
		}, true
	case "mapss":
		return reflect.TypeOf(&map[string]string{}), func() reflect.Value { return reflect.ValueOf(&map[string]string{"zz-old": "old", "a": "old-a"}) }, true
	case "mapsi":
		return reflect.TypeOf(&map[string]int{}), func() reflect.Value { return reflect.ValueOf(&map[string]int{"zz-old": 99}) }, true
	}
	return nil, nil, false
}

var plainWords = []string{"alpha", "bravo", "charlie", "delta", "echo", "foxtrot", "golf", "hotel"}

// ownCopy: a holder of loosely typed bindings (map[string]any, []any) changes what it was given (adds
// defaults, deletes a key, rewrites an element). Bindings of the same or an enclosing subtree that
// happen afterwards (a component fetched on demand, Get) still deliver exactly the configured value.
func (p c17) ownCopy(c *core.Ctx) {
	w := func() string { return plainWords[c.Rng.Intn(len(plainWords))] }
	m := map[string]any{"a": w(), "b": w()}
	if c.Rng.Intn(2) == 0 {
		m["sub"] = map[string]any{"x": w()}
	}
	l := []any{w(), w(), w()}
	tree := map[string]any{"k": map[string]any{"m": m, "l": l, "z": w()}}
	b, _ := yaml.Marshal(tree)
	fields := []world.FieldSpec{
		{Name: "M", Type: reflect.TypeOf(map[string]any{}), Tag: `prefix:"k.m"`},
		{Name: "L", Type: reflect.TypeOf([]any{}), Tag: `prefix:"k.l"`},
	}
	if c.Rng.Intn(2) == 0 {
		fields = append(fields, world.FieldSpec{Name: "K", Type: reflect.TypeOf(map[string]any{}), Tag: `prefix:"k"`})
	}
	first := world.NewHolder(world.BuildStruct(fields))
	late := &world.LazyAnyHolder{Nm: "late-holder"}
	r := world.Build(&world.Scenario{Config: string(b)}, world.Options{Extra: []any{first, late}, NoTracer: true})
	r.Go()
	c.Count("starts", 1)
	detail := map[string]any{"document": string(b)}
	if r.Outcome() != "ok" {
		c.Fail("", "start did not succeed: "+core.Short(r.OutcomeDetail(), 300), detail)
		return
	}
	fv := reflect.ValueOf(first).Elem()
	fm, _ := fv.FieldByName("M").Interface().(map[string]any)
	fl, _ := fv.FieldByName("L").Interface().([]any)
	if canon(normalize(fm)) != canon(m) || canon(normalize(fl)) != canon(l) {
		c.Fail("", fmt.Sprintf("first holder: M=%s L=%s, configured %s %s", canon(normalize(fm)), canon(normalize(fl)), canon(m), canon(l)), detail)
		return
	}
	// the holder works on its data
	var did []string
	if c.Rng.Intn(2) == 0 {
		fm["a"] = "MUTATED"
		did = append(did, "M[a]=MUTATED")
	}
	if c.Rng.Intn(2) == 0 {
		delete(fm, "b")
		did = append(did, "delete M[b]")
	}
	if c.Rng.Intn(2) == 0 {
		fm["extra"] = "ADDED"
		did = append(did, "M[extra]=ADDED")
	}
	if sub, ok := fm["sub"].(map[string]any); ok && c.Rng.Intn(2) == 0 {
		sub["x"] = "MUTATED"
		did = append(did, "M[sub][x]=MUTATED")
	}
	if c.Rng.Intn(2) == 0 || len(did) == 0 {
		fl[0] = "MUTATED"
		did = append(did, "L[0]=MUTATED")
	}
	if kf := fv.FieldByName("K"); kf.IsValid() && c.Rng.Intn(2) == 0 {
		if km, ok := kf.Interface().(map[string]any); ok {
			km["z"] = "MUTATED"
			did = append(did, "K[z]=MUTATED")
		}
	}
	detail["the_first_holder_then_did"] = did
	var err error
	r.Guard(func() { _, err = r.App.GetComponentByName("late-holder") })
	if err != nil || r.Panic != nil {
		c.Fail("", fmt.Sprintf("fetching the late holder failed: %v %v", err, r.Panic), detail)
		return
	}
	want := tree["k"].(map[string]any)
	if canon(normalize(late.M)) != canon(m) || canon(normalize(late.L)) != canon(l) || canon(normalize(late.K)) != canon(want) || late.S != m["a"] {
		c.Fail("", fmt.Sprintf("a component bound after another holder changed its own bound data received M=%s L=%s K=%s S=%q; configured: M=%s L=%s K=%s S=%q",
			canon(normalize(late.M)), canon(normalize(late.L)), canon(normalize(late.K)), late.S, canon(m), canon(l), canon(want), m["a"]), detail)
		return
	}
	if got := r.App.Get("k"); canon(normalize(got)) != canon(want) {
		c.Fail("", fmt.Sprintf("the configuration itself changed when a holder changed its bound data: Get(k)=%s, configured %s", canon(normalize(got)), canon(want)), detail)
		return
	}
	c.Count("own_copy_cases_checked", 1)
	c.Nontrivial("owncopy|" + fmt.Sprint(did) + canon(want))
}

// retried: a component fetched on demand fails its first initialization, the caller swallows the error,
// the configuration is changed at run time and the component is requested again. The three ways of
// binding a key agree with each other and with the configuration at the time of the binding.
func (p c17) retried(c *core.Ctx) {
	w := func() string { return plainWords[c.Rng.Intn(len(plainWords))] }
	s1, s2 := w(), w()
	i1, i2 := 1+c.Rng.Intn(1000), 1+c.Rng.Intn(1000)
	l1, l2 := []any{w(), w()}, []any{w(), w(), w()}
	sect := map[string]any{}
	for _, x := range plainWords {
		sect[x] = map[string]any{"who": "is-" + x}
	}
	tree := map[string]any{"k": map[string]any{"s": s1, "i": i1, "l": l1}, "sect": sect}
	b, _ := yaml.Marshal(tree)
	fails := c.Rng.Intn(3) // 0: created at the first request (after a change), 1..2 failing attempts
	h := &world.RetryBound{Nm: "retry-bound", FailLeft: fails}
	r := world.Build(&world.Scenario{Config: string(b)}, world.Options{Extra: []any{h}, NoTracer: true})
	r.Go()
	c.Count("starts", 1)
	detail := map[string]any{"document": string(b), "failing_attempts": fails}
	if r.Outcome() != "ok" {
		c.Fail("", "start did not succeed: "+core.Short(r.OutcomeDetail(), 300), detail)
		return
	}
	for a := 0; a < fails; a++ {
		var err error
		r.Guard(func() { _, err = r.App.GetComponentByName("retry-bound") })
		if err == nil || r.Panic != nil {
			c.Fail("", fmt.Sprintf("attempt %d was expected to fail in Init: err=%v panic=%v", a+1, err, r.Panic), detail)
			return
		}
	}
	changed := map[string]bool{}
	if c.Rng.Intn(4) > 0 {
		r.App.Set("k.s", s2)
		changed["s"] = true
	} else {
		s2 = s1
	}
	if c.Rng.Intn(2) == 0 {
		r.App.Set("k.i", i2)
		changed["i"] = true
	} else {
		i2 = i1
	}
	if c.Rng.Intn(2) == 0 {
		r.App.Set("k.l", l2)
		changed["l"] = true
	} else {
		l2 = l1
	}
	detail["changed_between_attempts"] = fmt.Sprint(changed, " s=", s2, " i=", i2, " l=", l2)
	var err error
	r.Guard(func() { _, err = r.App.GetComponentByName("retry-bound") })
	if err != nil || r.Panic != nil {
		c.Fail("", fmt.Sprintf("the creation after the configuration change failed: %v %v", err, r.Panic), detail)
		return
	}
	var bad []string
	chk := func(name string, got, want any) {
		if canon(normalize(got)) != canon(normalize(want)) {
			bad = append(bad, fmt.Sprintf("%s=%s (configured %s)", name, canon(normalize(got)), canon(normalize(want))))
		}
	}
	ls := func(l []string) []any {
		out := []any{}
		for _, x := range l {
			out = append(out, x)
		}
		return out
	}
	chk("value:${k.s}", h.ViaValue, s2)
	chk("prop:k.s", h.ViaProp, s2)
	chk("prefix:k.s", h.ViaPref, s2)
	chk("value:${k.i}", h.IntValue, i2)
	chk("prop:k.i", h.IntProp, i2)
	chk("prefix:k.i", h.IntPref, i2)
	chk("value:${k.l}", ls(h.LValue), l2)
	chk("prefix:k.l", ls(h.LPref), l2)
	chk("prefix:sect.${k.s}", h.Sect.Who, "is-"+s2)
	if len(bad) > 0 {
		c.Fail("", fmt.Sprintf("component created after %d failed attempt(s) and a configuration change: %s", fails, strings.Join(bad, "; ")), detail)
		return
	}
	c.Count("retried_bindings_checked", 9)
	if len(changed) > 0 && fails > 0 {
		c.Nontrivial(fmt.Sprint("retried|", fails, changed, s1, s2, i2))
	}
}

// mapper: the mapper argument selects the struct tag that names the keys for that one binding; every
// other binding - in the same component, in other components, in later starts - keeps the default names.
func (p c17) mapper(c *core.Ctx) {
	w := func() string { return plainWords[c.Rng.Intn(len(plainWords))] }
	hy, hj := w()+"y", w()+"j"
	py, pj := 1+c.Rng.Intn(1000), 1001+c.Rng.Intn(1000)
	doc := fmt.Sprintf("cfg:\n  k:\n    host-y: %s\n    port-y: %d\n    host-j: %s\n    port-j: %d\n", hy, py, hj, pj)
	mt := reflect.TypeOf(world.MapperStruct{})
	wantY, wantJ := world.MapperStruct{Host: hy, Port: py}, world.MapperStruct{Host: hj, Port: pj}
	type fld struct {
		tag  string
		want world.MapperStruct
	}
	pool := []fld{
		{`prefix:"cfg.k,mapper=json"`, wantJ},
		{`prefix:"cfg.k"`, wantY},
		{`value:"${cfg.k},mapper=json"`, wantJ},
		{`value:"${cfg.k}"`, wantY},
		{`prefix:"cfg.k,mapper=yaml"`, wantY},
	}
	for round := 0; round < 2; round++ {
		var fields []world.FieldSpec
		var wants []world.MapperStruct
		n := 1 + c.Rng.Intn(4)
		if round == 1 {
			n = 1 + c.Rng.Intn(2)
		}
		for i := 0; i < n; i++ {
			f := pool[c.Rng.Intn(len(pool))]
			if round == 1 {
				f = pool[[]int{1, 3}[c.Rng.Intn(2)]] // a later start that never mentions the mapper argument
			}
			fields = append(fields, world.FieldSpec{Name: fmt.Sprintf("M%d", i), Type: mt, Tag: f.tag})
			wants = append(wants, f.want)
		}
		h := world.NewHolder(world.BuildStruct(fields))
		r := world.Start(&world.Scenario{Config: doc}, world.Options{Extra: []any{h}, NoTracer: true})
		c.Count("starts", 1)
		detail := map[string]any{"document": doc, "holder": describeHolder(h), "start": round + 1}
		if r.Outcome() != "ok" {
			c.Fail("", "start did not succeed: "+core.Short(r.OutcomeDetail(), 300), detail)
			return
		}
		hv := reflect.ValueOf(h).Elem()
		for i := range fields {
			got := hv.Field(i).Interface().(world.MapperStruct)
			if got != wants[i] {
				c.Fail("", fmt.Sprintf("start %d, field %s `%s`: bound %+v, expected %+v", round+1, fields[i].Name, fields[i].Tag, got, wants[i]), detail)
				return
			}
			c.Count("mapper_bindings_checked", 1)
		}
	}
	c.Nontrivial(fmt.Sprint("mapper|", hy, hj, py, pj))
}

// explicitPrefix: a field whose type announces a prefix of its own (ConfigurationProperties) and that
// carries an explicit prefix tag is bound from the tag's path; likewise a field with a value tag next to a
// prop tag is bound by the first one the processor recognises - each field is bound once.
func (p c17) explicitPrefix(c *core.Ctx) {
	w := func() string { return plainWords[c.Rng.Intn(len(plainWords))] }
	hm, hr, ha := w()+"-main", w()+"-replica", w()+"-archive"
	pm, pr := 1+c.Rng.Intn(1000), 2000+c.Rng.Intn(1000)
	doc := fmt.Sprintf("db:\n  host: %s\n  port: %d\nreplica:\n  db:\n    host: %s\n    port: %d\narchive:\n  db:\n    host: %s\nnum:\n  a: 5\n", hm, pm, hr, pr, ha)
	dt := reflect.TypeOf(world.PrefixedDB{})
	fields := []world.FieldSpec{
		{Name: "Main", Type: dt},                                // no tag: bound from Prefix()
		{Name: "Replica", Type: dt, Tag: `prefix:"replica.db"`}, // explicit tag wins
		{Name: "Archive", Type: reflect.PointerTo(dt), Tag: `prefix:"archive.db"`},
		{Name: "N", Type: reflect.TypeOf(0), Tag: `value:"1" prop:"num.a"`},
	}
	c.Rng.Shuffle(len(fields), func(i, j int) { fields[i], fields[j] = fields[j], fields[i] })
	h := world.NewHolder(world.BuildStruct(fields))
	r := world.Start(&world.Scenario{Config: doc}, world.Options{Extra: []any{h}, NoTracer: true})
	c.Count("starts", 1)
	detail := map[string]any{"document": doc, "holder": describeHolder(h)}
	if r.Outcome() != "ok" {
		c.Fail("", "start did not succeed: "+core.Short(r.OutcomeDetail(), 300), detail)
		return
	}
	hv := reflect.ValueOf(h).Elem()
	main := hv.FieldByName("Main").Interface().(world.PrefixedDB)
	rep := hv.FieldByName("Replica").Interface().(world.PrefixedDB)
	arc := hv.FieldByName("Archive").Interface().(*world.PrefixedDB)
	n := hv.FieldByName("N").Interface().(int)
	var bad []string
	if main != (world.PrefixedDB{Host: hm, Port: pm}) {
		bad = append(bad, fmt.Sprintf("Main (untagged, Prefix()=db) = %+v, configured {%s %d}", main, hm, pm))
	}
	if rep != (world.PrefixedDB{Host: hr, Port: pr}) {
		bad = append(bad, fmt.Sprintf("Replica `prefix:\"replica.db\"` = %+v, configured {%s %d}", rep, hr, pr))
	}
	if arc == nil || *arc != (world.PrefixedDB{Host: ha}) {
		bad = append(bad, fmt.Sprintf("Archive `prefix:\"archive.db\"` = %+v, configured {%s 0}", arc, ha))
	}
	if n != 1 {
		bad = append(bad, fmt.Sprintf("N `value:\"1\" prop:\"num.a\"` = %d, the value tag says 1", n))
	}
	if len(bad) > 0 {
		c.Fail("", strings.Join(bad, "; "), detail)
		return
	}
	c.Count("explicit_prefix_cases_checked", 1)
	c.Nontrivial("explicitprefix|" + hm + hr + ha)
}

// viaArgs: a string supplied on the command line (--app.config=key=value) arrives unchanged, whatever
// characters it contains - bound by prefix, by placeholder and by the prop shorthand alike.
func (p c17) viaArgs(c *core.Ctx) {
	vals := []string{"a==b", "postgres://app@db.internal/main?sslmode=disable&x=1", "dG9rZW4=", "dG9rZW4tMg==", "k=v=w", "=lead", "trail=", "plain", "with space=1", "semi;colon=2"}
	v := vals[c.Rng.Intn(len(vals))]
	other := vals[c.Rng.Intn(len(vals))]
	args := []string{"prog", "--app.config=cfg.k=" + v, "--unrelated=x=y", "--app.config=cfg.other=" + other}
	fields := []world.FieldSpec{
		{Name: "P", Type: reflect.TypeOf(""), Tag: `prefix:"cfg.k"`},
		{Name: "V", Type: reflect.TypeOf(""), Tag: `value:"${cfg.k}"`},
		{Name: "Q", Type: reflect.TypeOf(""), Tag: `prop:"cfg.k"`},
		{Name: "O", Type: reflect.TypeOf(""), Tag: `prefix:"cfg.other"`},
	}
	h := world.NewHolder(world.BuildStruct(fields))
	r := world.Start(&world.Scenario{}, world.Options{Extra: []any{h}, NoTracer: true, AppOptions: []app.SettingOption{app.AddConfigLoader(loader.NewArgsLoader(args))}})
	c.Count("starts", 1)
	detail := map[string]any{"arguments": args}
	if r.Outcome() != "ok" {
		c.Fail("", "start did not succeed: "+core.Short(r.OutcomeDetail(), 300), detail)
		return
	}
	hv := reflect.ValueOf(h).Elem()
	for i, want := range []string{v, v, v, other} {
		if got := hv.Field(i).String(); got != want {
			class := ""
			if i == 1 || i == 2 {
				class = classifyC17(c17Value{"string", want}, reflect.TypeOf(""), "value")
			}
			c.Fail(class, fmt.Sprintf("command-line value %q: field %s `%s` holds %q", want, fields[i].Name, fields[i].Tag, got), detail)
			return
		}
	}
	c.Count("command_line_values_checked", 4)
	c.Nontrivial("viaargs|" + v + "|" + other)
}
