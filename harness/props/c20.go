package props

import (
	"fmt"
	"github.com/go-kid/ioc/component_definition"
	"github.com/go-kid/ioc/container/factory"
	"github.com/go-kid/ioc/container/processors"
	"github.com/go-kid/ioc/container/support"
	"github.com/go-kid/ioc/syslog"
	"math/rand"
	"runtime"
	"sort"
	"sync"
	"sync/atomic"
	"time"

	"github.com/anishathalye/porcupine"
	"github.com/go-kid/ioc/util/list"
	"github.com/go-kid/ioc/util/sync2"
	"verifharness/core"
	"verifharness/world"
)

// C20 Start-up, shutdown and the concurrent containers are free of races.
type c20 struct{}

func init() { core.Register(c20{}) }

func (c20) ID() string    { return "C20" }
func (c20) Level() string { return "exploration" }
func (c20) Rule() string {
	return "(a) race detector: a -race build of the harness runs real starts and shutdowns: seeded graphs with a harness scanner that fails for >= 2 components whose failing goroutines are gated to overlap (plus non-failing, yielding scanner calls), scanners and closers that log, closers failing concurrently behind gates, with the quiet logger and with the repository's own logger; every 'WARNING: DATA RACE' block in the GORACE log is parsed, reports are de-duplicated by the pair of top-most go-kid/ioc frames; any report with a go-kid/ioc frame is a violation (a report without one is a harness bug and makes the run inconclusive). (b) linearizability: concurrent histories of sync2.Map {Load, Store, LoadOrStore, LoadOrStoreFn (the supplied function yields), Delete, Range} and of list.NewConcurrentSets / list.NewGenericConcurrentSets {Put, Exists, Remove, ToArray} from 2..8 goroutines x 4..10 operations over 1..3 keys with unique written values, recorded at the client boundary with one shared atomic counter as clock (call before invoking, return after the reply) and checked by porcupine v1.3.0 against a per-key sequential model (partitioned by key; Range / ToArray contribute one read per key of the universe over the enclosing interval, which is all sync.Map promises); additionally the direct invariant that among concurrent LoadOrStore / LoadOrStoreFn callers on a fresh key exactly one is told loaded=false. non-trivial = history with >= 2 operations on one key that overlap in time; distinct = history signature (ops + interleaving of call/return stamps); race build additionally: scanner invocations for healthy components held in flight while others fail (App.Run must not return before they have), and sync2.Map with three-word values (every value read was stored by somebody); race build also: concurrent GetMetaOrRegister on the real definition registry; histories whose operations never return are reported (stall detection in scheduler yields and seconds); race build: every second shutdown without gates (gates add happens-before edges that can hide races); registryRace (concurrent get-or-register of shared fresh names: one definition per name, complete when handed out) in both builds; bareFactory (factory.Default + SetRegistry + PrepareComponents without an application: every scanned component has its definition) in both builds; race workers with a two-prefix logger; manyScanFailures (a scanner rejecting every component of a 20..60 component application, race build)"
}
func (c20) Assumptions() []string {
	return []string{
		"the race detector only sees accesses on executed paths; schedules are widened by gates/yields inside harness-supplied callbacks, not enumerated",
		"porcupine's verdict Unknown (30 s timeout per history) is reported as inconclusive",
	}
}
func (c20) NumCases(tier string) int      { return tierN(tier, 24000, 2000000) }
func (c20) NumRaceCases(tier string) int  { return tierN(tier, 240, 20000) }
func (c20) MinNontrivial(tier string) int { return tierN(tier, 200, 3000) }

// ---------------------------------------------------------------------------------------------
// (a) race workload

type wide struct{ a, b, c int64 }

// utilityRace drives the map utility with multi-word values on the -race build: overwrites of present
// keys run against loads, load-or-stores and ranges of the same keys. Every value ever read must be one
// that somebody stored (all three words equal); the race detector watches the utility's own accesses.
func (p c20) utilityRace(c *core.Ctx) {
	m := sync2.New[int, wide]()
	ms := sync2.New[string, any]()
	nKeys := 1 + c.Rng.Intn(3)
	for k := 0; k < nKeys; k++ {
		m.Store(k, wide{int64(k), int64(k), int64(k)})
		ms.Store(fmt.Sprint(k), fmt.Sprint("v", k))
	}
	nG := 3 + c.Rng.Intn(5)
	nOps := 30 + c.Rng.Intn(40)
	var wg sync.WaitGroup
	var torn atomic.Int64
	var reads, opsDone atomic.Int64
	var tornExample atomic.Value
	start := make(chan struct{})
	chk := func(w wide) {
		reads.Add(1)
		if w.a != w.b || w.b != w.c {
			torn.Add(1)
			tornExample.Store(fmt.Sprintf("%+v", w))
		}
	}
	for g := 0; g < nG; g++ {
		seed := c.Rng.Int63()
		wg.Add(1)
		go func(g int, seed int64) {
			defer wg.Done()
			rng := rand.New(rand.NewSource(seed))
			<-start
			for i := 0; i < nOps; i++ {
				k := rng.Intn(nKeys)
				v := int64((g+1)*100000 + i)
				switch rng.Intn(6) {
				case 0, 1:
					m.Store(k, wide{v, v, v})
					if rng.Intn(2) == 0 {
						ms.Store(fmt.Sprint(k), v)
					} else {
						ms.Store(fmt.Sprint(k), fmt.Sprint("v", v))
					}
				case 2:
					if w, ok := m.Load(k); ok {
						chk(w)
					}
					if x, ok := ms.Load(fmt.Sprint(k)); ok {
						_ = fmt.Sprint(x)
					}
				case 3:
					w, _ := m.LoadOrStore(k, wide{v, v, v})
					chk(w)
				case 4:
					w, _ := m.LoadOrStoreFn(k, func() wide { return wide{v, v, v} })
					chk(w)
				case 5:
					m.Range(func(_ int, w wide) bool { chk(w); return true })
					ms.Range(func(_ string, x any) bool { _ = fmt.Sprint(x); return true })
				}
				opsDone.Add(1)
				if rng.Intn(4) == 0 {
					runtime.Gosched()
				}
			}
		}(g, seed)
	}
	// the logger the concurrent phases report their failures through: one logger (and loggers derived from
	// it) used by many goroutines at once, as the goroutines of a parallel Close with several failing
	// closers do
	lg := syslog.New(syslog.LvError).Pref("verif-race")
	for g := 0; g < 4; g++ {
		wg.Add(1)
		go func(g int) {
			defer wg.Done()
			<-start
			child := lg
			if g%2 == 1 {
				child = lg.Pref(g)
			}
			for i := 0; i < 12; i++ {
				if i%2 == 0 {
					child.Errorf("closer %d failed: attempt %d", g, i)
				} else {
					lg.Error("closer failed", g, i)
				}
				lg.Debug("not printed at this level")
			}
		}(g)
	}
	close(start)
	if !waitOrStall(&wg, func() int64 { return reads.Load() + opsDone.Load() }) {
		c.Fail("", "sync2.Map: operations issued concurrently never returned (blocked for ever)", map[string]any{"goroutines": nG, "ops_each": nOps, "keys": nKeys})
		return
	}
	c.Count("utility_race_histories", 1)
	c.Count("concurrent_logger_lines", 48)
	c.Count("utility_race_reads_checked", int(reads.Load()))
	if torn.Load() > 0 {
		c.Fail("", fmt.Sprintf("sync2.Map handed out %d value(s) that nobody ever stored (words of two different stores mixed), e.g. %v", torn.Load(), tornExample.Load()), map[string]any{"goroutines": nG, "ops_each": nOps, "keys": nKeys})
		return
	}
	c.Nontrivial(fmt.Sprintf("utilrace:%d:%d:%d:%d", nG, nOps, nKeys, c.Index))
}

// registryRace: the definition registry's get-or-register is what the parallel scan phase calls from all
// its goroutines; scanners that contribute a shared definition ask for the same fresh name at once. All
// callers of one name get one definition, and that is the one the registry keeps.
func (p c20) registryRace(c *core.Ctx) {
	reg := support.DefaultDefinitionRegistry()
	nNames := 1 + c.Rng.Intn(3)
	nG := 3 + c.Rng.Intn(6)
	comps := make([]any, nNames)
	for i := range comps {
		comps[i] = world.Palette[c.Rng.Intn(8)].New()
	}
	got := make([][]*component_definition.Meta, nG)
	var wg sync.WaitGroup
	var unfinished atomic.Int32
	start := make(chan struct{})
	for g := 0; g < nG; g++ {
		got[g] = make([]*component_definition.Meta, nNames)
		wg.Add(1)
		go func(g int) {
			defer wg.Done()
			<-start
			for i := 0; i < nNames; i++ {
				k := (i + g) % nNames
				got[g][k] = reg.GetMetaOrRegister(fmt.Sprintf("shared-%d", k), comps[k])
				// whoever is handed the definition finds it complete: it carries the name it was asked for under
				if nm := got[g][k].Name(); nm != fmt.Sprintf("shared-%d", k) {
					unfinished.Add(1)
				}
				if g%2 == 0 {
					runtime.Gosched()
				}
			}
		}(g)
	}
	close(start)
	wg.Wait()
	c.Count("registry_get_or_register_histories", 1)
	if n := unfinished.Load(); n > 0 {
		c.Fail("", fmt.Sprintf("definition registry: %d goroutines asked for fresh names at once; %d time(s) a caller was handed a definition that did not (yet) carry the name it was registered under", nG, n), map[string]any{"goroutines": nG, "names": nNames})
		return
	}
	for k := 0; k < nNames; k++ {
		kept := reg.GetMetaByName(fmt.Sprintf("shared-%d", k))
		for g := 0; g < nG; g++ {
			if got[g][k] == nil || got[g][k] != kept {
				c.Fail("", fmt.Sprintf("definition registry: %d goroutines asked for the fresh name shared-%d at once; goroutine %d was handed definition %p, the registry keeps %p (two callers both won)", nG, k, g, got[g][k], kept), map[string]any{"goroutines": nG, "names": nNames})
				return
			}
		}
	}
	c.Nontrivial(fmt.Sprintf("regrace:%d:%d:%d", nG, nNames, c.Index))
}

// bareFactory: a factory used without an application around it (factory.Default + SetRegistry +
// PrepareComponents, one tag scanner): its parallel definition scan is the first thing that touches the
// factory's definition registry. Every registered component has its definition afterwards.
func (p c20) bareFactory(c *core.Ctx) {
	reg := support.NewRegistry()
	reg.RegisterSingleton(&processors.DefaultTagScanDefinitionRegistryPostProcessor{NodeType: component_definition.PropertyTypeComponent, Tag: "wire"})
	n := 8 + c.Rng.Intn(60)
	for i := 0; i < n; i++ {
		nd := world.Palette[c.Rng.Intn(8)].New()
		nd.Core().Name = fmt.Sprintf("bare-%d", i)
		reg.RegisterSingleton(nd)
	}
	f := factory.Default()
	f.SetRegistry(reg)
	var err error
	var pan any
	func() {
		defer func() { pan = recover() }()
		err = f.PrepareComponents()
	}()
	c.Count("bare_factory_preparations", 1)
	if pan != nil || err != nil {
		c.Fail("", fmt.Sprintf("bare factory over %d components: PrepareComponents: panic=%v err=%v", n, pan, err), nil)
		return
	}
	want := reg.GetSingletonCount()
	if got := len(f.GetDefinitionRegistry().GetMetas()); got != want {
		c.Fail("", fmt.Sprintf("bare factory: %d components were scanned in parallel, the definition registry holds %d definitions", want, got), map[string]any{"components": n})
		return
	}
	for i := 0; i < n; i++ {
		if f.GetDefinitionRegistry().GetMetaByName(fmt.Sprintf("bare-%d", i)) == nil {
			c.Fail("", fmt.Sprintf("bare factory: component bare-%d has no definition after the parallel scan", i), map[string]any{"components": n})
			return
		}
	}
	c.Nontrivial(fmt.Sprintf("barefactory:%d:%d", n, c.Index))
}

// manyScanFailures: a user scanner rejects every component of a larger application (20..60 components) in
// the same parallel pass: the start fails, and the failing goroutines' bookkeeping is race free.
func (p c20) manyScanFailures(c *core.Ctx) {
	sc := RandomGraph(c.Rng, GraphOpts{MinN: 20, MaxN: 60, Types: world.TypesAll, PCycle: 0.3, Chords: 2, PUnnamed: 0.2})
	scanner := &world.FaultScanner{Nm: "verif.rejecting-scanner", FailFor: map[string]bool{"*": true}}
	if c.Rng.Intn(2) == 0 {
		scanner.Gate = func(string, bool) { runtime.Gosched() }
	}
	r := world.Start(sc, world.Options{Extra: []any{scanner}})
	c.Count("race_starts", 1)
	c.Count("starts_with_every_definition_scan_failing", 1)
	if r.Outcome() != "error" {
		c.Fail("", fmt.Sprintf("a user scanner rejected all %d components, App.Run: %s", len(sc.Nodes), core.Short(r.OutcomeDetail(), 300)), failDetail(sc, r, nil))
		return
	}
	c.Nontrivial(fmt.Sprintf("manyscanfailures:%d:%s", len(sc.Nodes), sc.GraphSig()))
}

func (p c20) RunRace(c *core.Ctx) {
	if c.Index%16 == 9 {
		p.bareFactory(c)
		return
	}
	if c.Index%16 == 1 {
		p.manyScanFailures(c)
		return
	}
	if c.Index%4 == 3 {
		if c.Index%8 == 7 {
			p.registryRace(c)
			return
		}
		p.utilityRace(c)
		return
	}
	sc := RandomGraph(c.Rng, GraphOpts{MinN: 3, MaxN: 12, Types: world.TypesAll, PCycle: 0.5, Chords: 2, ByTypeSlice: 0.2, QualSlice: 0.1, PUnnamed: 0.3})
	mode := c.Index % 3
	// components carrying several tag kinds: every scanner that finds something writes the same definition
	for i := range sc.Nodes {
		if c.Rng.Intn(2) == 0 {
			sc.Nodes[i].Cfg = map[string]world.TagSpec{"CfgS": {Tag: "value", Val: "${race.s:dflt}"}, "CfgI": {Tag: "prop", Val: "race.i:7"}}
			if c.Rng.Intn(2) == 0 {
				sc.Nodes[i].Cfg["CfgL"] = world.TagSpec{Tag: "prefix", Val: "race.l,required=false"}
			}
		}
	}
	scanner := &world.FaultScanner{Nm: "verif.racescanner", FailFor: map[string]bool{}}
	nFail := 0
	if mode != 2 {
		nFail = 2 + c.Rng.Intn(3)
		perm := c.Rng.Perm(len(sc.Nodes))
		for i := 0; i < nFail && i < len(perm); i++ {
			scanner.FailFor[sc.Nodes[perm[i]].DisplayName()] = true
		}
		if c.Rng.Intn(3) == 0 {
			scanner.FailFor["github.com/go-kid/ioc/app/App"] = true
			nFail++
		}
	}
	var mu sync.Mutex
	arrived := 0
	all := make(chan struct{})
	expected := len(scanner.FailFor)
	// in a third of the failing starts the invocations for the healthy components are slow: they stay
	// inside the scanner until the failing ones have all arrived and a grace period (in scheduler
	// yields) has passed - or App.Run has returned, which it must not do while they are in progress
	slowOthers := nFail > 0 && c.Index%3 == 1
	released := make(chan struct{})
	var runDone atomic.Bool
	if slowOthers {
		scanner.Touch = true
		go func() {
			select {
			case <-all:
			case <-time.After(25 * time.Millisecond):
			}
			for i := 0; i < 20000 && !runDone.Load(); i++ {
				if i%64 == 63 {
					time.Sleep(50 * time.Microsecond)
				} else {
					runtime.Gosched()
				}
			}
			close(released)
		}()
	}
	scanner.Gate = func(name string, failing bool) {
		if !failing {
			if slowOthers {
				<-released
				return
			}
			runtime.Gosched()
			return
		}
		mu.Lock()
		arrived++
		if arrived == expected {
			close(all)
		}
		mu.Unlock()
		select {
		case <-all:
		case <-time.After(30 * time.Millisecond):
		}
	}
	second := &world.FaultScanner{Nm: "verif.racescanner2", FailFor: map[string]bool{}}
	g := &world.G{Rng: c.Rng, Sc: sc}
	g.ShuffleOrders()
	// further closers, most of them failing: their failures are reported (logged) by the goroutines of the
	// parallel Close at the same moment
	if mode == 2 {
		for x := 0; x < 2+c.Rng.Intn(7); x++ {
			g.AddRandomNode(world.TypesCloser, 0.1)
		}
		g.ShuffleOrders()
	}
	// closers behind gates for the shutdown phase
	var closers []int
	for i := range sc.Nodes {
		if world.Palette[sc.Nodes[i].Type].Closer {
			closers = append(closers, i)
			if c.Rng.Intn(3) > 0 {
				sc.Nodes[i].Fails = append(sc.Nodes[i].Fails, "close")
			}
		}
	}
	r := world.Build(sc, world.Options{Extra: []any{scanner, second}})
	cg := &closeGate{all: make(chan struct{}), rel: map[string]chan struct{}{}, instant: map[string]bool{}}
	// gates overlap the Close calls in time, but their channels and mutex also order every goroutine
	// after the whole launching loop - which would hide a race between that loop and its goroutines from
	// the detector. Every second shutdown therefore runs the closers as they are: instantaneous.
	gated := c.Index%2 == 0
	for _, k := range closers {
		if !gated {
			continue
		}
		name := sc.Nodes[k].DisplayName()
		cg.rel[name] = make(chan struct{})
		cg.expected++
		r.Nodes[k].Core().CloseFn = cg.fn
	}
	if cg.expected == 0 {
		close(cg.all)
	}
	r.Go()
	inFlight := scanner.InFlight.Load()
	runDone.Store(true)
	c.Count("race_starts", 1)
	if abnormal(r.Outcome()) {
		c.Fail("", "race workload: "+r.OutcomeDetail(), failDetail(sc, r, nil))
		return
	}
	if inFlight != 0 {
		c.Fail("", fmt.Sprintf("App.Run returned while %d scanner invocations for other components were still in progress: the parallel scanning phase is not joined, its goroutines go on working on the definitions concurrently with whatever the caller does next", inFlight), failDetail(sc, r, nil))
		return
	}
	if slowOthers {
		c.Count("starts_with_slow_healthy_scanner_invocations", 1)
	}
	if nFail > 0 && r.Outcome() != "error" {
		c.Fail("", fmt.Sprintf("%d scanner calls failed but App.Run returned nil", nFail), failDetail(sc, r, nil))
		return
	}
	if nFail >= 2 {
		c.Count("starts_with_overlapping_scanner_failures", 1)
		c.Count("overlapping_failing_goroutines", arrived)
	}
	if r.Outcome() == "ok" {
		done := make(chan struct{})
		go func() {
			defer close(done)
			select {
			case <-cg.all:
			case <-time.After(100 * time.Millisecond):
			}
			for _, ch := range cg.rel {
				close(ch)
			}
		}()
		r.Guard(func() { r.App.Close() })
		<-done
		c.Count("race_shutdowns", 1)
		c.Count("concurrent_closers", len(closers))
	}
	c.Nontrivial(fmt.Sprintf("race:%d:%d:%s", mode, nFail, sc.GraphSig()))
}

// ---------------------------------------------------------------------------------------------
// (b) linearizability

type mapIn struct {
	Op  string // load | store | los | losfn | delete | rangeread
	Key int
	Val int
}
type mapOut struct {
	Val    int
	Loaded bool
}
type mapState struct {
	Present bool
	Val     int
}

var mapModel = porcupine.Model{
	Partition: func(history []porcupine.Operation) [][]porcupine.Operation {
		m := map[int][]porcupine.Operation{}
		for _, op := range history {
			k := op.Input.(mapIn).Key
			m[k] = append(m[k], op)
		}
		keys := make([]int, 0, len(m))
		for k := range m {
			keys = append(keys, k)
		}
		sort.Ints(keys)
		var out [][]porcupine.Operation
		for _, k := range keys {
			out = append(out, m[k])
		}
		return out
	},
	Init: func() interface{} { return mapState{} },
	Step: func(state, input, output interface{}) (bool, interface{}) {
		st := state.(mapState)
		in := input.(mapIn)
		out := output.(mapOut)
		switch in.Op {
		case "load", "rangeread":
			if st.Present {
				return out.Loaded && out.Val == st.Val, st
			}
			return !out.Loaded, st
		case "store":
			return true, mapState{true, in.Val}
		case "los", "losfn":
			if st.Present {
				return out.Loaded && out.Val == st.Val, st
			}
			return !out.Loaded && out.Val == in.Val, mapState{true, in.Val}
		case "delete":
			return true, mapState{}
		}
		return false, st
	},
	DescribeOperation: func(input, output interface{}) string {
		return fmt.Sprintf("%+v -> %+v", input, output)
	},
}

type recOp struct {
	client int
	in     mapIn
	out    mapOut
	call   int64
	ret    int64
}

func (p c20) Run(c *core.Ctx) {
	if c.Index%40 == 17 {
		p.registryRace(c) // (also part of the race-build workload)
		return
	}
	if c.Index%40 == 33 {
		p.bareFactory(c) // (also part of the race-build workload)
		return
	}
	target := c.Index % 3 // 0 sync2.Map, 1 ConcurrentSets (string), 2 generic concurrent set
	nG := 2 + c.Rng.Intn(7)
	nOps := 4 + c.Rng.Intn(7)
	nKeys := 1 + c.Rng.Intn(3)
	var clock int64
	var mu sync.Mutex
	var history []recOp
	record := func(o recOp) {
		mu.Lock()
		history = append(history, o)
		mu.Unlock()
	}
	// per-goroutine programs are generated up front (deterministic from the seed)
	type step struct {
		op    string
		key   int
		val   int
		yield int
	}
	progs := make([][]step, nG)
	// burst mode (every third history): all keys are present first, then every goroutine fires the same
	// mutating operation on the same key at the same moment and looks at the other keys afterwards -
	// check-then-act sequences inside the utilities collide far more often this way
	burst := (c.Index/3)%3 == 0
	if burst {
		if nKeys < 2 {
			nKeys = 2
		}
		var bop string
		if target == 0 {
			bop = []string{"delete", "los", "losfn", "store"}[c.Rng.Intn(4)]
		} else {
			bop = []string{"delete", "delete", "store"}[c.Rng.Intn(3)]
		}
		for g := 0; g < nG; g++ {
			progs[g] = append(progs[g], step{"store", g % nKeys, (g+1)*1000 + 900, 0})
		}
		rounds := 2 + c.Rng.Intn(3)
		for rd := 0; rd < rounds; rd++ {
			for g := 0; g < nG; g++ {
				progs[g] = append(progs[g], step{"barrier", 0, 0, 0})
				if g == 0 && rd > 0 { // make the contended key present again
					progs[g] = append(progs[g], step{"store", 0, 1000 + 950 + rd, 0})
				}
				progs[g] = append(progs[g], step{"barrier", 0, 0, 0})
				progs[g] = append(progs[g], step{bop, 0, (g+1)*1000 + 10*rd + 1, c.Rng.Intn(2)})
				for k := 1; k < nKeys; k++ {
					progs[g] = append(progs[g], step{"load", k, 0, 0})
				}
			}
		}
		for g := 0; g < nG; g++ {
			progs[g] = append(progs[g], step{"range", 0, 0, 0})
		}
	}
	for g := 0; g < nG && !burst; g++ {
		for i := 0; i < nOps; i++ {
			var op string
			if target == 0 {
				op = []string{"load", "store", "los", "losfn", "losfn", "delete", "range"}[c.Rng.Intn(7)]
			} else {
				op = []string{"load", "store", "store", "delete", "range"}[c.Rng.Intn(5)]
			}
			progs[g] = append(progs[g], step{op, c.Rng.Intn(nKeys), (g+1)*1000 + i, c.Rng.Intn(3)})
		}
	}
	m := sync2.New[int, int]()
	ss := list.NewConcurrentSets()
	gs := list.NewGenericConcurrentSets[int]()
	fresh := map[int]*int32{} // key -> number of loaded=false results before any delete/store touches it
	_ = fresh
	var wg sync.WaitGroup
	nBarriers := 0
	for _, st := range progs[0] {
		if st.op == "barrier" {
			nBarriers++
		}
	}
	barriers := make([]sync.WaitGroup, nBarriers)
	for i := range barriers {
		barriers[i].Add(nG)
	}
	startGate := make(chan struct{})
	for g := 0; g < nG; g++ {
		wg.Add(1)
		go func(g int) {
			defer wg.Done()
			<-startGate
			bi := 0
			for _, st := range progs[g] {
				if st.op == "barrier" {
					barriers[bi].Done()
					barriers[bi].Wait()
					bi++
					continue
				}
				if st.yield == 1 {
					runtime.Gosched()
				}
				call := atomic.AddInt64(&clock, 1)
				var out mapOut
				var rangeSeen map[int]int
				switch target {
				case 0:
					switch st.op {
					case "load":
						out.Val, out.Loaded = m.Load(st.key)
					case "store":
						m.Store(st.key, st.val)
					case "los":
						out.Val, out.Loaded = m.LoadOrStore(st.key, st.val)
					case "losfn":
						out.Val, out.Loaded = m.LoadOrStoreFn(st.key, func() int {
							runtime.Gosched() // caller code: widens the window between the check and the store
							return st.val
						})
					case "delete":
						m.Delete(st.key)
					case "range":
						rangeSeen = map[int]int{}
						m.Range(func(k, v int) bool { rangeSeen[k] = v; return true })
					}
				case 1:
					k := fmt.Sprint(st.key)
					switch st.op {
					case "load":
						out.Loaded = ss.Exists(k)
					case "store":
						ss.Put(k)
					case "delete":
						ss.Remove(k)
					case "range":
						rangeSeen = map[int]int{}
						for _, x := range ss.ToArray() {
							var ki int
							fmt.Sscan(x, &ki)
							rangeSeen[ki] = 0
						}
					}
				case 2:
					switch st.op {
					case "load":
						out.Loaded = gs.Exists(st.key)
					case "store":
						gs.Put(st.key)
					case "delete":
						gs.Remove(st.key)
					case "range":
						rangeSeen = map[int]int{}
						for _, x := range gs.ToArray() {
							rangeSeen[x] = 0
						}
					}
				}
				ret := atomic.AddInt64(&clock, 1)
				val := st.val
				if target != 0 {
					val = 0 // sets carry no value
				}
				if st.op == "range" {
					for k := 0; k < nKeys; k++ {
						v, ok := rangeSeen[k]
						record(recOp{g, mapIn{"rangeread", k, 0}, mapOut{v, ok}, call, ret})
					}
					continue
				}
				record(recOp{g, mapIn{st.op, st.key, val}, out, call, ret})
			}
		}(g)
	}
	close(startGate)
	if !waitOrStall(&wg, func() int64 { return atomic.LoadInt64(&clock) }) {
		c.Fail("", fmt.Sprintf("%s: operations of a concurrent history never returned (no operation completed during 3 million scheduler yields and 5 s): an operation that blocks for ever has no place in any sequential order", []string{"sync2.Map", "list.ConcurrentSets", "generic concurrent set"}[target]),
			map[string]any{"goroutines": nG, "keys": nKeys, "operations_begun": atomic.LoadInt64(&clock)})
		return
	}
	c.Count("histories", 1)
	if burst {
		c.Count("burst_histories", 1)
	}
	c.Count("operations", len(history))
	ops := make([]porcupine.Operation, 0, len(history))
	overlap := false
	byKey := map[int][]recOp{}
	for _, h := range history {
		ops = append(ops, porcupine.Operation{ClientId: h.client, Input: h.in, Call: h.call, Output: h.out, Return: h.ret})
		byKey[h.in.Key] = append(byKey[h.in.Key], h)
	}
	for _, hs := range byKey {
		for i := 0; i < len(hs) && !overlap; i++ {
			for j := i + 1; j < len(hs); j++ {
				if hs[i].client != hs[j].client && hs[i].call < hs[j].ret && hs[j].call < hs[i].ret {
					overlap = true
					break
				}
			}
		}
	}
	res, info := porcupine.CheckOperationsVerbose(mapModel, ops, 30*time.Second)
	targetName := []string{"sync2.Map", "list.ConcurrentSets", "list.GenericConcurrentSets"}[target]
	c.Count("histories_"+targetName, 1)
	switch res {
	case porcupine.Unknown:
		c.Count("porcupine_unknown", 1)
		c.Fail("", "INCONCLUSIVE: porcupine timed out on a history of "+targetName, nil)
		return
	case porcupine.Illegal:
		class := ""
		if target == 0 && usesLosfn(history) {
			class = "F-C20-loadorstorefn-not-atomic"
		}
		_ = info
		c.Fail(class, fmt.Sprintf("%s: concurrent history of %d operations from %d goroutines over %d key(s) is not linearizable", targetName, len(history), nG, nKeys),
			map[string]any{"history": renderHistory(history), "target": targetName})
		return
	}
	c.Count("porcupine_ok", 1)
	// direct invariant: one winner among LoadOrStore* callers between two writes
	if target == 0 {
		for k, hs := range byKey {
			winners := 0
			otherWrites := false
			for _, h := range hs {
				switch h.in.Op {
				case "los", "losfn":
					if !h.out.Loaded {
						winners++
					}
				case "delete":
					otherWrites = true
				}
			}
			if !otherWrites && winners > 1 {
				c.Fail("F-C20-loadorstorefn-not-atomic", fmt.Sprintf("sync2.Map key %d: %d LoadOrStore*/LoadOrStoreFn callers were told loaded=false although the key was never deleted", k, winners), map[string]any{"history": renderHistory(history)})
				return
			}
		}
	}
	if overlap {
		c.Nontrivial(historySig(history))
		if c.WantSample() {
			c.Sample(map[string]any{"target": targetName, "goroutines": nG, "keys": nKeys, "history": renderHistory(history), "porcupine": "Ok"})
		}
	}
}

func usesLosfn(h []recOp) bool {
	for _, o := range h {
		if o.in.Op == "losfn" {
			return true
		}
	}
	return false
}

func renderHistory(h []recOp) []string {
	sort.Slice(h, func(i, j int) bool { return h[i].call < h[j].call })
	var out []string
	for i, o := range h {
		if i >= 80 {
			out = append(out, "…")
			break
		}
		out = append(out, fmt.Sprintf("g%d [%d,%d] %s(k%d,%d) -> (%d,%v)", o.client, o.call, o.ret, o.in.Op, o.in.Key, o.in.Val, o.out.Val, o.out.Loaded))
	}
	return out
}

func historySig(h []recOp) string {
	sort.Slice(h, func(i, j int) bool { return h[i].call < h[j].call })
	s := ""
	for _, o := range h {
		s += fmt.Sprintf("%d%s%d:%d-%d;", o.client, o.in.Op[:2], o.in.Key, o.call, o.ret)
	}
	return s
}
