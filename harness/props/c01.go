package props

import (
	"fmt"
	"reflect"
	"strings"
	"time"

	"github.com/go-kid/ioc/container"

	"verifharness/core"
	"verifharness/mon"
	"verifharness/world"
)

// C01 One shared instance per component, seen identically by every holder.
type c01 struct{}

func init() { core.Register(c01{}) }

func (c01) ID() string    { return "C01" }
func (c01) Level() string { return "exploration" }
func (c01) Rule() string {
	return "seeded random dependency graphs over the palette (cycles of length 2..n, chords, diamonds, fan-in through by-type and qualified slices, by-name pointer/interface/any edges, by-type edges), each started under 3 (quick) / 5 (thorough) registration orders x registry enumeration orders x candidate orders; plus every digraph on 3 nodes (thorough: also 4 nodes) under every assignment of name ranks. Oracle: every injected value is pointer-identical to a registered instance, equals GetComponentByName of its name, all holders of a name agree, GetComponents agrees, every early-reference factory produced at most one reference per creation. non-trivial = successful start whose by-name graph has a cycle or a diamond; distinct = canonical graph signature + registry trace shape; graphs with failing leaves (permanent / once) reached through swallowed Init lookups, with and without the substituting post-processor: identity is judged for published holders only; locator leaves (no injection point, Init looks up the component wired with them) and concrete-typed points at components replaced by another type; objects handed to lookups issued from inside callbacks count as seen objects; components wired into a post-processor (partial chain) stay one singleton; lookups under unregistered type names fail or alias a published instance; bulkLazy family (lazy components sharing a lazy, possibly decorated dependency fetched by one GetComponents listing); every name is also listed through GetComponents (by-name option) twice and must yield exactly the published object; same-type substitutes that name themselves; post-processor-dependency family closing a cycle under a priority-ordered early substituter; concretePartner family (a cycle partner declaring the entry's concrete type while the entry is wrapped by another type); sharedSettings family (wire points whose type announces a configuration prefix all hold the registered instance)"
}
func (c01) Assumptions() []string {
	return []string{
		"identity is observed black-box by reflection over the palette slots and through App.GetComponentByName / GetComponents",
		"order control uses the verif hook (wrapped registries); Go map iteration inside Meta.GetAllProperties and scan-phase scheduling are sampled by repetition only",
		"palette graphs cannot contain two unnamed instances of one type",
	}
}

func (c01) randomCount(tier string) int { return tierN(tier, 3000, 120000) }
func (c01) enumCount(tier string) int {
	if tier == "thorough" {
		return NumDigraphs(3)*Fact(3)*5 + NumDigraphs(4)*Fact(4)
	}
	return NumDigraphs(3) * Fact(3)
}
func (p c01) NumCases(tier string) int    { return p.randomCount(tier) + p.enumCount(tier) }
func (c01) MinNontrivial(tier string) int { return tierN(tier, 300, 10000) }
func (c01) ExhaustiveNote(tier string) (bool, string) {
	if tier == "thorough" {
		return false, "sub-space enumerated completely: all 64 digraphs on 3 nodes x 6 name-rank assignments x 5 edge kinds, all 4096 digraphs on 4 nodes x 24 name-rank assignments (edge kind rotating); the random part is sampled"
	}
	return false, "sub-space enumerated completely: all 64 digraphs on 3 nodes x 6 name-rank assignments (edge kind rotating); the random part is sampled"
}

// ppDependency: a component that is wired into a post-processor is created before the refresh, while
// only part of the post-processor chain is active. It is still one singleton: what the post-processor
// holds, what ordinary holders receive later and what the by-name lookup returns are one object - also
// when a processor that joins the chain later would have wrapped it.
func (p c01) ppDependency(c *core.Ctx) {
	g := world.NewG(c.Rng)
	tgt := g.AddNode([]int{0, 1, 3}[c.Rng.Intn(3)], "np-target")
	req := g.AddNode([]int{0, 1, 3}[c.Rng.Intn(3)], "np-req")
	for x := 0; x < 1+c.Rng.Intn(3); x++ {
		h := g.AddRandomNode(plainAB, 0.2)
		g.SetTag(h, []string{"IA0", "Any0"}[c.Rng.Intn(2)], "wire", []string{"np-target", "np-req"}[c.Rng.Intn(2)])
	}
	// in a third of the cases the two components form a cycle (entered through the post-processor's own points
	// while the processors are being set up), and the substituter is a priority-ordered one that is active then
	early := c.Rng.Intn(3) == 0
	if early {
		g.EdgeByName(tgt, req, "", "iface")
		g.EdgeByName(req, tgt, "", "iface")
	}
	g.ShuffleOrders()
	plan := map[string]world.SubPlan{}
	for _, nm := range []string{"np-target", "np-req"} {
		if c.Rng.Intn(3) > 0 {
			plan[nm] = []world.SubPlan{{After: true}, {Before: true}, {Early: true}}[c.Rng.Intn(3)]
		}
	}
	pp := &world.NamePP{}
	var sub any = world.NewSubstituter(plan)
	if early {
		sub = &world.EarlySubstituter{Substituter: world.NewSubstituter(plan)}
	}
	r := world.Start(g.Sc, world.Options{Extra: []any{pp, sub}})
	c.Count("starts", 1)
	c.Count("post_processor_dependency_starts", 1)
	detail := failDetail(g.Sc, r, map[string]any{"substitution_plan": plan})
	if r.Outcome() != "ok" {
		if abnormal(r.Outcome()) {
			c.Fail("", "post-processor with dependencies: "+core.Short(r.OutcomeDetail(), 300), detail)
		}
		return
	}
	problems := r.CheckIdentity(world.Describe(r.Population()))
	for nm, held := range map[string]any{"np-target": pp.One, "np-target (any)": pp.AnyOne, "np-req": pp.Req} {
		name := strings.Fields(nm)[0]
		var got any
		var err error
		r.Guard(func() { got, err = r.App.GetComponentByName(name) })
		if err != nil || got != held {
			problems = append(problems, fmt.Sprintf("the post-processor holds %p (%T) for %q, the by-name lookup returns %p (%T) %v", held, held, name, got, got, err))
		}
	}
	_, _ = tgt, req
	if len(problems) > 0 {
		c.Fail("", problems[0], detail)
		return
	}
	c.Nontrivial("ppdep|" + g.Sc.GraphSig() + fmt.Sprint(plan))
}

// bulkLazy: several lazy components of one type share a lazy dependency (whose initialisation takes a
// moment and which a post-processor may decorate); nothing needs them during the start. They are fetched
// together with one listing (GetComponents by type) afterwards: all of them hold the one published version
// of the shared dependency.
func (p c01) bulkLazy(c *core.Ctx) {
	g := world.NewG(c.Rng)
	store := g.AddNode(8, "shared-store") // T08: IA, lazy, Init
	nW := 3 + c.Rng.Intn(8)
	var workers []int
	for i := 0; i < nW; i++ {
		w := g.AddNode(7, fmt.Sprintf("worker-%d", i)) // T07: lazy
		g.SetTag(w, []string{"IA0", "Any0"}[c.Rng.Intn(2)], "wire", "shared-store")
		workers = append(workers, w)
	}
	for x := 0; x < c.Rng.Intn(3); x++ {
		g.AddRandomNode(plainAB, 0.2)
	}
	g.ShuffleOrders()
	plan := map[string]world.SubPlan{}
	if c.Rng.Intn(3) > 0 {
		plan["shared-store"] = []world.SubPlan{{After: true}, {Before: true}}[c.Rng.Intn(2)]
	}
	pause := []time.Duration{0, 200 * time.Microsecond, 2 * time.Millisecond}[c.Rng.Intn(3)]
	hook := func(kind string, who world.Node) {
		if kind == "init" && who.DisplayName() == "shared-store" && pause > 0 {
			time.Sleep(pause)
		}
	}
	r := world.Start(g.Sc, world.Options{Extra: []any{world.NewSubstituter(plan)}, Hook: hook})
	c.Count("starts", 1)
	c.Count("bulk_listing_starts", 1)
	detail := failDetail(g.Sc, r, map[string]any{"substitution_plan": plan, "workers": nW})
	if r.Outcome() != "ok" {
		c.Fail("", "lazy workers sharing a lazy dependency: "+core.Short(r.OutcomeDetail(), 300), detail)
		return
	}
	var listed []any
	var err error
	r.Guard(func() { listed, err = r.App.GetComponents(container.Type(reflect.TypeOf(r.Nodes[workers[0]]))) })
	if r.Panic != nil || r.Diverge != nil {
		c.Fail("", "listing the lazy workers by type: "+r.OutcomeDetail(), detail)
		return
	}
	if err != nil {
		c.Fail("", "listing the lazy workers by type (GetComponents) failed: "+core.Short(err.Error(), 300), detail)
		return
	}
	nT07 := 0
	for _, ns := range g.Sc.Nodes {
		if ns.Type == 7 {
			nT07++
		}
	}
	if len(listed) != nT07 {
		c.Fail("", fmt.Sprintf("listing the lazy workers by type returns %d objects for %d components of that type", len(listed), nT07), detail)
		return
	}
	_ = store
	if problems := r.CheckIdentity(world.Describe(r.Population())); len(problems) > 0 {
		c.Fail("", "after one listing fetched all lazy workers: "+problems[0], detail)
		return
	}
	c.Nontrivial(fmt.Sprintf("bulk|%d|%v|%v", nW, plan, pause))
}

// concretePartner: a cycle partner that declares the concrete pointer type of the cycle's entry component, which a
// post-processor replaces (after initialisation) by a wrapper of another type. Whatever the start answers, two
// holders of "a-entry" - the partner, the interface-typed outsider, a lookup - never see different objects.
func (p c01) concretePartner(c *core.Ctx) {
	g := world.NewG(c.Rng)
	t := []int{0, 1, 3}[c.Rng.Intn(3)]
	a := g.AddNode(t, "a-entry")
	b := g.AddNode([]int{0, 1, 3, 2}[c.Rng.Intn(4)], "b-partner")
	g.EdgeByName(a, b, "", "iface")
	slot := fmt.Sprintf("P%02d", t)
	g.SetTag(b, slot, "wire", []string{"a-entry", ""}[c.Rng.Intn(2)])
	h := g.AddNode([]int{2, 13}[c.Rng.Intn(2)], "c-other")
	g.SetTag(h, "IA0", "wire", "a-entry")
	g.ShuffleOrders()
	plan := map[string]world.SubPlan{"a-entry": []world.SubPlan{{After: true}, {Before: true}}[c.Rng.Intn(2)]}
	r := world.Start(g.Sc, world.Options{Extra: []any{world.NewSubstituter(plan)}})
	c.Count("starts", 1)
	c.Count("concrete_partner_starts", 1)
	detail := failDetail(g.Sc, r, map[string]any{"substitution_plan": plan})
	if r.Outcome() != "ok" {
		c.Nontrivial("concretepartner-refused|" + g.Sc.GraphSig())
		return
	}
	var final any
	var err error
	r.Guard(func() { final, err = r.App.GetComponentByName("a-entry") })
	if err != nil {
		return
	}
	for _, hs := range []struct {
		n    int
		slot string
	}{{b, slot}, {h, "IA0"}} {
		refs, _ := r.SlotRefs(r.Nodes[hs.n], hs.slot)
		if len(refs) == 1 && !refs[0].Nil && refs[0].Obj != final {
			c.Fail("", fmt.Sprintf("two instances of singleton \"a-entry\": %s.%s holds %p but a lookup returns %p", g.Sc.Nodes[hs.n].DisplayName(), hs.slot, refs[0].Obj, final), detail)
			return
		}
	}
	c.Nontrivial("concretepartner-ok|" + g.Sc.GraphSig())
}

// sharedSettings: a registered component whose type also announces a configuration prefix (ConfigurationProperties)
// and that several holders declare by pointer with a wire tag: the field is a wiring point AND a bound configuration
// struct. All holders end up with the one registered component - never with a private, equally filled copy the
// binder allocated.
func (p c01) sharedSettings(c *core.Ctx) {
	w := func() string { return plainWords[c.Rng.Intn(len(plainWords))] }
	host, port := w()+"-db", 1+c.Rng.Intn(9000)
	doc := fmt.Sprintf("c11:\n  sub:\n    s: %s\n    n: %d\n", host, port)
	shared := &world.PtrPrefixed{}
	if c.Rng.Intn(2) == 0 {
		shared.Keep, shared.N = host, port // registered with the very contents the configuration holds
	}
	dt := reflect.TypeOf(shared)
	nH := 1 + c.Rng.Intn(4)
	extra := []any{shared}
	var holders []any
	for i := 0; i < nH; i++ {
		fields := []world.FieldSpec{{Name: "DB", Type: dt, Tag: `wire:""`}}
		if c.Rng.Intn(2) == 0 {
			fields = append(fields, world.FieldSpec{Name: "N", Type: reflect.TypeOf(0), Tag: `value:"${c11.sub.n}"`})
		}
		if c.Rng.Intn(3) == 0 {
			fields = append(fields, world.FieldSpec{Name: "Copy", Type: dt.Elem()}) // a by-value member: a bound copy, by design
		}
		fields = append(fields, world.FieldSpec{Name: fmt.Sprintf("Pad%d", i), Type: reflect.TypeOf("")}) // distinct holder types
		c.Rng.Shuffle(len(fields), func(a, b int) { fields[a], fields[b] = fields[b], fields[a] })
		h := world.NewHolder(world.BuildStruct(fields))
		holders = append(holders, h)
		extra = append(extra, h)
	}
	c.Rng.Shuffle(len(extra), func(a, b int) { extra[a], extra[b] = extra[b], extra[a] })
	r := world.Start(&world.Scenario{Config: doc}, world.Options{Extra: extra, NoTracer: true})
	c.Count("starts", 1)
	c.Count("shared_settings_starts", 1)
	detail := map[string]any{"document": doc, "holders": nH, "outcome": core.Short(r.OutcomeDetail(), 600)}
	if r.Outcome() != "ok" {
		c.Fail("", "holders of a registered settings component: start did not succeed: "+core.Short(r.OutcomeDetail(), 300), detail)
		return
	}
	for i, h := range holders {
		got, _ := reflect.ValueOf(h).Elem().FieldByName("DB").Interface().(*world.PtrPrefixed)
		if got != shared {
			c.Fail("", fmt.Sprintf("two instances of the singleton *PtrPrefixed: holder %d's `wire:\"\"` field holds %p (%+v) but the registered component is %p", i, got, got, shared), detail)
			return
		}
	}
	c.Nontrivial(fmt.Sprint("sharedsettings|", nH, host))
}

func (p c01) Run(c *core.Ctx) {
	if c.Index%16 == 14 && c.Index < p.randomCount(c.Tier) {
		p.sharedSettings(c)
		return
	}
	if c.Index%16 == 13 && c.Index < p.randomCount(c.Tier) {
		p.concretePartner(c)
		return
	}
	if c.Index%16 == 7 && c.Index < p.randomCount(c.Tier) {
		p.ppDependency(c)
		return
	}
	if c.Index%16 == 11 && c.Index < p.randomCount(c.Tier) {
		p.bulkLazy(c)
		return
	}
	var sc *world.Scenario
	orders := tierN(c.Tier, 3, 5)
	rc := p.randomCount(c.Tier)
	var plan map[string]world.SubPlan
	if c.Index < rc && c.Index%4 == 3 {
		// interface-only graph with a substituting post-processor: versions (wrappers) must be shared like instances
		// every third of these cases uses decorated copies of the component's own concrete type (they also fit
		// pointer-typed fields), the others wrappers of another type (interface-typed slots only)
		sameType := c.Rng.Intn(3) == 0
		gopts := GraphOpts{MinN: 2, MaxN: 9, Types: plainAB, PCycle: 0.8, Chords: 2, ByTypeSlice: 0.3, OnlyIface: true, PUnnamed: 0.3}
		if sameType {
			gopts.OnlyIface, gopts.Types = false, plainAny
		}
		sc = RandomGraph(c.Rng, gopts)
		plan = map[string]world.SubPlan{}
		for x := 0; x < 1+c.Rng.Intn(2); x++ {
			nm := sc.Nodes[c.Rng.Intn(len(sc.Nodes))].DisplayName()
			pl := []world.SubPlan{{Early: true}, {Early: true}, {After: true}, {Before: true}, {Early: true, After: true}, {Early: true, Before: true}, {Early: true, After: true, Same: true}}[c.Rng.Intn(7)]
			pl.SameType = sameType
			pl.NamedCopy = sameType && c.Rng.Intn(2) == 0 // (takes effect for unnamed components only)
			plan[nm] = pl
		}
		if c.Rng.Intn(4) == 0 {
			// a holder that declares the concrete type of a component which the post-processor replaces by a
			// wrapper of another type: the wrapper does not fit the field, so such a start cannot succeed
			g := &world.G{Rng: c.Rng, Sc: sc}
			for nm := range plan {
				if t, ok := nodeNamed(sc, nm); ok {
					h := c.Rng.Intn(len(sc.Nodes))
					if h != t && g.EdgeByName(h, t, "", "ptr") != "" {
						c.Count("concrete_typed_points_at_wrapped_components", 1)
					}
				}
				break
			}
		}
		if c.Rng.Intn(3) == 0 {
			// a component without any injection point of its own that closes a cycle through a lookup: its
			// Init asks for a component that is wired with it (entered from either side, by name order)
			g := &world.G{Rng: c.Rng, Sc: sc}
			holder := c.Rng.Intn(len(sc.Nodes))
			loc := g.AddNode([]int{0, 1, 3}[c.Rng.Intn(3)], g.FreshName(len(sc.Nodes))) // eager types with Init, implementing IA
			if g.EdgeByName(holder, loc, "", "iface") != "" {
				sc.Nodes[loc].Lookups = []string{sc.Nodes[holder].DisplayName()}
				if c.Rng.Intn(2) == 0 {
					plan[sc.Nodes[loc].DisplayName()] = []world.SubPlan{{Early: true}, {After: true}, {Early: true, After: true, Same: true}, {Before: true}}[c.Rng.Intn(4)]
				}
				c.Count("locator_leaves", 1)
			}
		}
		if c.Rng.Intn(2) == 0 {
			// service-locator lookups from inside Init; some of them hit a lazy leaf component whose Init
			// fails (the error is swallowed by the caller). A leaf hands out no early reference, so nothing
			// of the failed attempt can be held by anybody.
			AddInitLookups(c.Rng, sc, 0.4)
			g := &world.G{Rng: c.Rng, Sc: sc}
			for x := 0; x < c.Rng.Intn(3); x++ {
				leaf := g.AddNode([]int{8, 7, 14}[c.Rng.Intn(3)], g.FreshName(len(sc.Nodes))) // lazy types with Init
				if c.Rng.Intn(2) == 0 {
					sc.Nodes[leaf].Fails = []string{"init"}
				} else {
					sc.Nodes[leaf].FailOnce = []string{"init"}
				}
				for y := 0; y < 1+c.Rng.Intn(2); y++ {
					i := c.Rng.Intn(leaf)
					if ti := world.Palette[sc.Nodes[i].Type]; ti.Init || ti.Aps {
						sc.Nodes[i].Lookups = append(sc.Nodes[i].Lookups, sc.Nodes[leaf].DisplayName())
					}
				}
			}
		}
	} else if c.Index < rc {
		sc = RandomGraph(c.Rng, GraphOpts{MinN: 3, MaxN: 14, Types: world.TypesAll, PCycle: 0.7, Chords: 2,
			ByTypeSlice: 0.25, QualSlice: 0.2, ByTypeUniq: 0.2, PUnnamed: 0.3})
	} else {
		e := c.Index - rc
		n3 := NumDigraphs(3) * Fact(3)
		if c.Tier == "thorough" {
			n3 *= 5
		}
		if e < n3 {
			kind := e % 5
			if c.Tier == "thorough" {
				kind = e / (NumDigraphs(3) * Fact(3))
				e %= NumDigraphs(3) * Fact(3)
			}
			sc = EnumDigraph(3, e/Fact(3), e%Fact(3), kind, c.Rng)
		} else {
			e -= n3
			sc = EnumDigraph(4, e/Fact(4), e%Fact(4), e%5, c.Rng)
		}
		g := world.G{Rng: c.Rng, Sc: sc}
		g.ShuffleOrders()
		orders = 2
	}
	shape := shapeOf(sc)
	for o := 0; o < orders; o++ {
		if o > 0 {
			g := world.G{Rng: c.Rng, Sc: sc}
			g.ShuffleOrders()
		}
		var extra []any
		if plan != nil {
			extra = append(extra, world.NewSubstituter(plan))
			c.Count("starts_with_substituter", 1)
		}
		r := world.Start(sc, world.Options{Extra: extra})
		c.Count("starts", 1)
		switch r.Outcome() {
		case "error":
			c.Count("failed_starts_skipped", 1)
			continue
		case "panic", "diverged", "stalled":
			// not C01's claim (C02/C09 own it) but never silently dropped
			c.Count("abnormal_starts_skipped", 1)
			continue
		}
		pop := world.Describe(r.Population())
		problems := r.CheckIdentity(pop)
		if plan == nil {
			problems = append(problems, checkGetComponents(r, pop)...)
		}
		problems = append(problems, checkTypeNameLookups(c, r, sc)...)
		ev := r.Tracer.Events()
		for name, k := range EarlyRunsPerCreation(ev) {
			if k > 1 {
				problems = append(problems, fmt.Sprintf("early-reference factory of %q produced %d references during one creation", name, k))
			}
		}
		if msg, ok := r.UntaggedSlotsClean(); !ok {
			problems = append(problems, msg)
		}
		trace := mon.ShapeHash(ev)
		c.Distinct("creation_traces", trace)
		for ord := range r.Perm.Orders {
			c.Distinct("candidate_orders", ord)
		}
		injected := 0
		for ni, n := range r.Nodes {
			for _, s := range world.SortedSlots(&sc.Nodes[ni]) {
				refs, _ := r.SlotRefs(n, s)
				for _, ref := range refs {
					if !ref.Nil {
						injected++
					}
				}
			}
		}
		c.Count("injected_values_checked", injected)
		if shape != "dag" {
			c.Nontrivial(sc.GraphSig())
			c.Distinct("shapes_"+strings.ReplaceAll(shape, " ", "_"), sc.GraphSig())
		}
		if len(problems) > 0 {
			detail := failDetail(sc, r, map[string]any{"problems": problems, "substitution_plan": plan})
			classOf := func(pb string) string {
				if strings.HasPrefix(pb, world.LookupMismatch) {
					// input class of the second known finding: the object was obtained through a lookup while the
					// component was in creation, and the plan replaces that component around initialization by
					// another object (lookups record no dependent, so the container cannot refuse the start)
					rest := strings.TrimPrefix(pb, world.LookupMismatch)
					if i := strings.Index(rest[1:], "\""); i >= 0 {
						if pl, ok := plan[rest[1:1+i]]; ok && (pl.After || pl.Before) && !pl.Same {
							return "F-C01-lookup-during-creation-then-replaced"
						}
					}
					// (a reference obtained from an attempt that failed later is the other known class)
				}
				if plan != nil && earlyRefOfFailedAttemptEscaped(ev) {
					return "F-C01-dependent-of-failed-attempt"
				}
				return ""
			}
			knownMsg, knownClass := "", ""
			for _, pb := range problems {
				cl := classOf(pb)
				if cl != "" && core.IsKnown("C01", cl) {
					if knownMsg == "" {
						knownMsg, knownClass = pb, cl
					}
					continue
				}
				c.Fail(cl, pb, detail)
				return
			}
			c.Fail(knownClass, knownMsg, detail)
			return
		}
		if o == 0 && c.WantSample() && shape != "dag" {
			c.Sample(map[string]any{"scenario": describeScenario(sc), "shape": shape, "injected_values": injected, "registry_events": len(ev)})
		}
	}
}

// checkGetComponents: App.GetComponents() returns exactly the registered instances' published
// versions, each once.
func checkGetComponents(r *world.Run, pop []world.Comp) []string {
	var out []string
	var all []any
	var err error
	r.Guard(func() { all, err = r.App.GetComponents() })
	if r.Panic != nil || r.Diverge != nil {
		return []string{"GetComponents after the start: " + r.OutcomeDetail()}
	}
	if err != nil {
		return []string{"GetComponents after a successful start failed: " + err.Error()}
	}
	seen := map[any]int{}
	for _, o := range all {
		seen[o]++
	}
	for _, cmp := range pop {
		if seen[cmp.Obj] != 1 {
			out = append(out, fmt.Sprintf("GetComponents returns registered instance %q %d times", cmp.Name, seen[cmp.Obj]))
		}
	}
	if len(all) != len(pop) {
		out = append(out, fmt.Sprintf("GetComponents returns %d objects for %d registered components", len(all), len(pop)))
	}
	return out
}

// checkTypeNameLookups: a lookup under a name nothing is registered under - the default (type) name of a
// component that carries a custom name - either fails or is an alias of what is published: it never
// produces a further copy (or a further version) of a singleton.
func checkTypeNameLookups(c *core.Ctx, r *world.Run, sc *world.Scenario) []string {
	publishedObj := map[any]bool{}
	unnamedType := map[int]bool{}
	for i := range sc.Nodes {
		if sc.Nodes[i].Name == "" {
			unnamedType[sc.Nodes[i].Type] = true
		}
		var o any
		r.Guard(func() { o, _ = r.App.GetComponentByName(sc.Nodes[i].DisplayName()) })
		if o != nil {
			publishedObj[o] = true
		}
	}
	for i := range sc.Nodes {
		if sc.Nodes[i].Name == "" || unnamedType[sc.Nodes[i].Type] {
			continue
		}
		dn := world.Palette[sc.Nodes[i].Type].DefaultName
		var o any
		var err error
		r.Guard(func() { o, err = r.App.GetComponentByName(dn) })
		c.Count("lookups_under_unregistered_type_names", 1)
		if err == nil && o != nil && !publishedObj[o] {
			return []string{fmt.Sprintf("GetComponentByName(%q): nothing is registered under that name (the %s instances carry custom names), yet the lookup returned %p - an object that is not the published instance of any registered name", dn, world.Palette[sc.Nodes[i].Type].TypeName, o)}
		}
	}
	return nil
}
