package props

import (
	"fmt"
	"github.com/go-kid/ioc/container/processors"
	"math/rand"
	"reflect"
	"strings"
	p1model "verifharness/world/p1/model"
	p2model "verifharness/world/p2/model"

	"verifharness/core"
	"verifharness/world"
)

// C06 Type-directed injection is sound and complete.
type c06 struct{}

func init() { core.Register(c06{}) }

func (c06) ID() string    { return "C06" }
func (c06) Level() string { return "exploration" }
func (c06) Rule() string {
	return "seeded populations of 3..25 providers over the palette (several types per interface, several interfaces per type, named/unnamed, lazy/eager, with/without the func-tag methods) + consumers of every field kind {*T, I, []*T, []I, any, []any} carrying wire:\"\" / func:\"M\" / func:\"M,returns=a b\" / returns=* (optional or required); consumers are palette nodes (per-instance dynamic tags, may themselves be candidates) and reflect.StructOf holders (literal tags). Each scenario is started under 4 registration x enumeration x candidate orders. Oracle: reference model (set comprehension over the registered population) vs. black-box observation, per point: single point inside tied(S), slice == S exactly once each, never the holder, start fails iff a certainly-created component has a required point with S empty. non-trivial = some point with >= 2 candidates; distinct = canonical scenario signature; zero-size providers (distinct stateless components of several types) and wire tags whose placeholder resolves to the empty name (by-type points) take part; providers that are not pointers to structs take part; required slice points pre-populated before the start; funcPointers family (func points on *T / []*T over unnamed + named instances of T); contributedProviders family (definitions contributed by a factory post-processor through get-or-register / RegisterMeta); argMethods family (requested methods that take parameters); sameNamedTypes family (by-type points of types from two packages that print alike); processorHolder family (an eager component post-processor as the holder of by-type points)"
}
func (c06) Assumptions() []string {
	return []string{
		"func-tag result matching is exercised with string-valued Kind() and alphabetic values only",
		"where the statements are silent (two Primaries, several unnamed) any member of S is accepted",
	}
}
func (c06) NumCases(tier string) int      { return tierN(tier, 2500, 200000) }
func (c06) MinNontrivial(tier string) int { return tierN(tier, 500, 5000) }

// anonymous: embedded fields that carry their own tag (interface, pointer, named slice type) are by-type
// points like any other.
func (p c06) anonymous(c *core.Ctx) {
	g := world.NewG(c.Rng)
	ia := g.AddNode([]int{0, 1, 6, 8}[c.Rng.Intn(4)], g.FreshName(0)) // the only IA
	var ibs []int
	for x := 0; x < c.Rng.Intn(4); x++ {
		ibs = append(ibs, g.AddNode([]int{2, 7, 13}[c.Rng.Intn(3)], g.FreshName(x+1))) // IBs that are no IAs
	}
	g.ShuffleOrders()
	dep := &world.PlainDep{X: 7}
	h := &world.AnonTagged{}
	r := world.Start(g.Sc, world.Options{Extra: []any{h, dep}})
	c.Count("starts", 1)
	c.Count("anonymous_tagged_field_starts", 1)
	detail := failDetail(g.Sc, r, nil)
	if r.Outcome() != "ok" {
		c.Fail("", "holder with tagged anonymous fields did not start: "+core.Short(r.OutcomeDetail(), 300), detail)
		return
	}
	var bad []string
	if h.IA != any(r.Nodes[ia]) {
		bad = append(bad, fmt.Sprintf("embedded IA `wire:\"\"` holds %v, the only IA is %q", h.IA, g.Sc.Nodes[ia].DisplayName()))
	}
	if h.PlainDep != dep {
		bad = append(bad, fmt.Sprintf("embedded *PlainDep `wire:\"\"` holds %p, the registered one is %p", h.PlainDep, dep))
	}
	seen := map[any]int{}
	for _, b := range h.IBs {
		seen[b]++
	}
	for _, i := range ibs {
		if seen[any(r.Nodes[i])] != 1 {
			bad = append(bad, fmt.Sprintf("embedded IBs `wire:\",required=false\"` contains %q %d time(s)", g.Sc.Nodes[i].DisplayName(), seen[any(r.Nodes[i])]))
		}
	}
	if len(h.IBs) != len(ibs) {
		bad = append(bad, fmt.Sprintf("embedded IBs has %d elements for %d IB components", len(h.IBs), len(ibs)))
	}
	if len(bad) > 0 {
		c.Fail("", strings.Join(bad, "; "), detail)
		return
	}
	c.Nontrivial("anonymous|" + g.Sc.GraphSig())
}

// contributedProviders: providers whose definitions a factory post-processor contributes programmatically
// (get-or-register, or a definition it built itself handed over with RegisterMeta) are candidates of by-type
// points like every registered component.
func (p c06) contributedProviders(c *core.Ctx) {
	g := world.NewG(c.Rng)
	var ias []string
	for x := 0; x < 1+c.Rng.Intn(3); x++ {
		k := g.AddNode([]int{0, 1, 6, 12}[c.Rng.Intn(4)], g.FreshName(x)) // IAs that are no IBs
		ias = append(ias, g.Sc.Nodes[k].DisplayName())
	}
	for x := 0; x < c.Rng.Intn(3); x++ {
		g.AddNode([]int{2, 13}[c.Rng.Intn(2)], g.FreshName(10+x)) // IBs that are no IAs
	}
	g.ShuffleOrders()
	var contributed []world.Node
	for x := 0; x < 1+c.Rng.Intn(2); x++ {
		n := world.Palette[[]int{0, 1, 12}[c.Rng.Intn(3)]].New()
		n.Core().Name = fmt.Sprintf("contributed-%d", x)
		contributed = append(contributed, n)
		ias = append(ias, n.Core().Name)
	}
	reg := &world.RegistrarPP{Nodes: contributed, ViaRegisterMeta: c.Rng.Intn(3) > 0}
	h := world.NewHolder(world.BuildStruct([]world.FieldSpec{
		{Name: "All", Type: reflect.SliceOf(world.TypeIA), Tag: `wire:""`},
		{Name: "One", Type: world.TypeIA, Tag: `wire:"contributed-0"`},
		{Name: "Any", Type: reflect.SliceOf(world.TypeAny), Tag: `wire:",required=false"`},
	}))
	extra := []any{h, reg}
	if c.Rng.Intn(3) == 0 {
		// the library's exported by-type resolver registered next to the default resolver: a component offered
		// by two resolvers is still one candidate
		extra = append(extra, processors.NewDependencyTypeAwarePostProcessors())
		c.Count("starts_with_the_exported_by_type_resolver_registered_too", 1)
	}
	r := world.Start(g.Sc, world.Options{Extra: extra})
	c.Count("starts", 1)
	c.Count("starts_with_programmatically_contributed_providers", 1)
	detail := failDetail(g.Sc, r, map[string]any{"contributed": len(contributed), "via_register_meta": reg.ViaRegisterMeta})
	if r.Outcome() != "ok" {
		c.Fail("", "holder over registered and contributed providers did not start: "+core.Short(r.OutcomeDetail(), 300), detail)
		return
	}
	hv := reflect.ValueOf(h).Elem()
	got := map[string]int{}
	for i := 0; i < hv.Field(0).Len(); i++ {
		if n, ok := hv.Field(0).Index(i).Interface().(world.Node); ok {
			got[n.DisplayName()]++
		} else {
			got[fmt.Sprintf("%T", hv.Field(0).Index(i).Interface())]++
		}
	}
	for _, nm := range ias {
		if got[nm] != 1 {
			c.Fail("", fmt.Sprintf("[]IA `wire:\"\"` contains provider %q %d time(s) (providers: %v, received: %v); contributed via RegisterMeta: %v", nm, got[nm], ias, got, reg.ViaRegisterMeta), detail)
			return
		}
	}
	if len(got) != len(ias) {
		c.Fail("", fmt.Sprintf("[]IA `wire:\"\"` received %v, the IA providers are %v", got, ias), detail)
		return
	}
	if hv.Field(1).Interface() != any(contributed[0]) {
		c.Fail("", fmt.Sprintf("IA `wire:\"contributed-0\"` holds %v, expected the contributed provider", hv.Field(1).Interface()), detail)
		return
	}
	seen := 0
	for i := 0; i < hv.Field(2).Len(); i++ {
		for _, cn := range contributed {
			if hv.Field(2).Index(i).Interface() == any(cn) {
				seen++
			}
		}
	}
	if seen != len(contributed) {
		c.Fail("", fmt.Sprintf("[]any point contains %d of the %d contributed providers", seen, len(contributed)), detail)
		return
	}
	c.Nontrivial("contributed|" + g.Sc.GraphSig() + fmt.Sprint(len(contributed), reg.ViaRegisterMeta))
}

// argMethods: providers whose requested method takes parameters expose that method all the same: they are
// candidates of `func:"M"` points and of `returns=*` points (which only ask for the method's existence).
func (p c06) argMethods(c *core.Ctx) {
	g := world.NewG(c.Rng)
	var marks, kinds []any
	for x := 0; x < c.Rng.Intn(3); x++ {
		g.AddNode(4, g.FreshName(x)) // T04: Mark()
	}
	for x := 0; x < c.Rng.Intn(3); x++ {
		k := g.AddNode([]int{5, 13}[c.Rng.Intn(2)], g.FreshName(5+x)) // Kind() string
		g.Sc.Nodes[k].Kind = kindPool[c.Rng.Intn(len(kindPool))]
	}
	for x := 0; x < c.Rng.Intn(3); x++ {
		g.AddNode([]int{0, 2}[c.Rng.Intn(2)], g.FreshName(10+x)) // neither
	}
	g.ShuffleOrders()
	var extra []any
	if c.Rng.Intn(4) > 0 {
		a := &world.ArgMark1{Nm: "arg-mark-1"}
		extra, marks = append(extra, a), append(marks, a)
	}
	if c.Rng.Intn(2) == 0 {
		a := &world.ArgMark2{Nm: "arg-mark-2"}
		extra, marks = append(extra, a), append(marks, a)
	}
	if c.Rng.Intn(2) == 0 {
		a := &world.ArgKind{Nm: "arg-kind"}
		extra, kinds = append(extra, a), append(kinds, a)
	}
	h := world.NewHolder(world.BuildStruct([]world.FieldSpec{
		{Name: "Marked", Type: reflect.SliceOf(world.TypeAny), Tag: `func:"Mark,required=false"`},
		{Name: "Kinded", Type: reflect.SliceOf(world.TypeAny), Tag: `func:"Kind,returns=*,required=false"`},
	}))
	r := world.Start(g.Sc, world.Options{Extra: append([]any{h}, extra...)})
	c.Count("starts", 1)
	c.Count("starts_with_parameterised_func_methods", 1)
	detail := failDetail(g.Sc, r, map[string]any{"providers_with_parameterised_methods": fmt.Sprint(len(marks), len(kinds))})
	if r.Outcome() != "ok" {
		c.Fail("", "holder with func points over providers whose methods take parameters did not start: "+core.Short(r.OutcomeDetail(), 300), detail)
		return
	}
	for i, n := range r.Nodes {
		ti := world.Palette[g.Sc.Nodes[i].Type]
		if ti.Mark {
			marks = append(marks, n)
		}
		if ti.Kind {
			kinds = append(kinds, n)
		}
	}
	hv := reflect.ValueOf(h).Elem()
	for fi, want := range [][]any{marks, kinds} {
		seen := map[any]int{}
		for i := 0; i < hv.Field(fi).Len(); i++ {
			seen[hv.Field(fi).Index(i).Interface()]++
		}
		for _, w := range want {
			if seen[w] != 1 {
				c.Fail("", fmt.Sprintf("field %s `%s`: provider %T (%v) which exposes the method is contained %d time(s); the point holds %d of %d providers", hv.Type().Field(fi).Name, hv.Type().Field(fi).Tag, w, world.Describe([]any{w})[0].Name, seen[w], hv.Field(fi).Len(), len(want)), detail)
				return
			}
		}
		if hv.Field(fi).Len() != len(want) {
			c.Fail("", fmt.Sprintf("field %s `%s` holds %d objects, %d providers expose the method", hv.Type().Field(fi).Name, hv.Type().Field(fi).Tag, hv.Field(fi).Len(), len(want)), detail)
			return
		}
	}
	if len(marks)+len(kinds) >= 2 {
		c.Nontrivial("argmethods|" + g.Sc.GraphSig() + fmt.Sprint(len(marks), len(kinds)))
	}
}

// sameNamedTypes: one holder with by-type points of two types that print alike (`*model.Item`, `model.Linker`
// declared in two packages with the same base name): every point receives the components of ITS type.
func (p c06) sameNamedTypes(c *core.Ctx) {
	g := world.NewG(c.Rng)
	for x, nx := 0, c.Rng.Intn(3); x < nx; x++ {
		g.AddRandomNode(world.TypesEagerPlain, 0.2)
	}
	g.ShuffleOrders()
	i1, i2 := &p1model.Item{Tag: "p1"}, &p2model.Item{Tag: "p2"}
	la, lb := &world.LinkA{Nm: "link-a"}, &world.LinkB{Nm: "link-b"}
	fields := []world.FieldSpec{
		{Name: "A", Type: reflect.TypeOf(i1), Tag: `wire:""`},
		{Name: "B", Type: reflect.TypeOf(i2), Tag: `wire:""`},
		{Name: "SA", Type: reflect.SliceOf(reflect.TypeOf(i1)), Tag: `wire:""`},
		{Name: "SB", Type: reflect.SliceOf(reflect.TypeOf(i2)), Tag: `wire:""`},
		{Name: "LA", Type: reflect.TypeOf((*p1model.Linker)(nil)).Elem(), Tag: `wire:""`},
		{Name: "LB", Type: reflect.TypeOf((*p2model.Linker)(nil)).Elem(), Tag: `wire:""`},
	}
	c.Rng.Shuffle(len(fields), func(i, j int) { fields[i], fields[j] = fields[j], fields[i] })
	h := world.NewHolder(world.BuildStruct(fields))
	r := world.Start(g.Sc, world.Options{Extra: []any{h, i1, i2, la, lb}})
	c.Count("starts", 1)
	c.Count("starts_with_same_named_types", 1)
	detail := failDetail(g.Sc, r, map[string]any{"field_order": fmt.Sprint(fields)})
	if r.Outcome() != "ok" {
		c.Fail("", "holder with by-type points of two types that print alike did not start: "+core.Short(r.OutcomeDetail(), 300), detail)
		return
	}
	hv := reflect.ValueOf(h).Elem()
	want := map[string]any{"A": i1, "B": i2, "LA": la, "LB": lb}
	for name, w := range want {
		if got := hv.FieldByName(name).Interface(); got != w {
			c.Fail("", fmt.Sprintf("field %s (%s) holds %v, expected the registered %T", name, hv.FieldByName(name).Type(), got, w), detail)
			return
		}
	}
	for name, w := range map[string]any{"SA": i1, "SB": i2} {
		f := hv.FieldByName(name)
		if f.Len() != 1 || f.Index(0).Interface() != w {
			c.Fail("", fmt.Sprintf("slice field %s (%s) holds %d element(s), expected exactly the registered %T", name, f.Type(), f.Len(), w), detail)
			return
		}
	}
	c.Nontrivial("samenamed|" + g.Sc.GraphSig() + fmt.Sprint(fields[0].Name, fields[1].Name))
}

// funcPointers: func points on concretely typed fields (*T, []*T) over a population that mixes an unnamed
// instance of T with named ones: the slice receives every instance exposing the method (with a matching
// result), the single point one of them per the ranking.
func (p c06) funcPointers(c *core.Ctx) {
	g := world.NewG(c.Rng)
	t := []int{4, 5, 10, 12, 13}[c.Rng.Intn(5)] // types with Mark and/or Kind
	ti := world.Palette[t]
	if c.Rng.Intn(4) > 0 {
		g.AddNode(t, "")
	}
	for x := 0; x < 1+c.Rng.Intn(3); x++ {
		g.AddNode(t, g.FreshName(len(g.Sc.Nodes)))
	}
	for i := range g.Sc.Nodes {
		g.Sc.Nodes[i].Kind = kindPool[c.Rng.Intn(len(kindPool))]
	}
	for x := 0; x < c.Rng.Intn(4); x++ {
		k := g.AddRandomNode(world.TypesAll, 0.3)
		g.Sc.Nodes[k].Kind = kindPool[c.Rng.Intn(len(kindPool))]
	}
	var tags []string
	if ti.Mark {
		tags = append(tags, "Mark")
	}
	if ti.Kind {
		tags = append(tags, "Kind,returns=*", "Kind,returns="+kindPool[c.Rng.Intn(3)], "Kind,returns="+kindPool[c.Rng.Intn(3)]+" "+kindPool[c.Rng.Intn(3)])
	}
	pt := reflect.TypeOf(ti.New())
	var fields []world.FieldSpec
	for i := 0; i < 1+c.Rng.Intn(3); i++ {
		ft := reflect.SliceOf(pt)
		if c.Rng.Intn(3) == 0 {
			ft = pt
		}
		tag := tags[c.Rng.Intn(len(tags))]
		if c.Rng.Intn(2) == 0 {
			tag += ",required=false"
		}
		fields = append(fields, world.FieldSpec{Name: fmt.Sprintf("FP%d", i), Type: ft, Tag: world.WireTag("func", tag)})
	}
	holders := []any{world.NewHolder(world.BuildStruct(fields))}
	c.Count("func_points_on_concretely_typed_fields", len(fields))
	runModelCase(c, g, holders, 2, true, nil, nil)
}

// processorHolder: the holder of the unnamed points is itself an eager component post-processor (unordered, or ordered
// behind the built-in resolvers): its by-type points are resolved like any holder's.
func (p c06) processorHolder(c *core.Ctx) {
	g := world.NewG(c.Rng)
	for x, n := 0, 1+c.Rng.Intn(6); x < n; x++ {
		g.AddRandomNode(world.TypesEagerPlain, 0.3)
	}
	g.ShuffleOrders()
	class := c.Rng.Intn(2) // (a priority-ordered processor is created before the - merely ordered - built-in resolvers are active)
	pp := world.NewDepPP(class, "holder-pp", []int{50, 100, 1000}[c.Rng.Intn(3)])
	r := world.Start(g.Sc, world.Options{Extra: []any{pp}})
	c.Count("starts", 1)
	c.Count("processor_holder_starts", 1)
	detail := failDetail(g.Sc, r, map[string]any{"processor_class (0 unordered, 1 ordered)": class})
	if r.Outcome() != "ok" {
		c.Fail("", "a post-processor with optional by-type points: start did not succeed: "+core.Short(r.OutcomeDetail(), 300), detail)
		return
	}
	dep, all := world.DepPoints(pp)
	wantB := map[any]bool{}
	nA := 0
	for i, nd := range r.Nodes {
		ti := world.Palette[g.Sc.Nodes[i].Type]
		if ti.A {
			nA++
		}
		if ti.B {
			wantB[any(nd)] = true
		}
	}
	if (dep != nil) != (nA > 0) {
		c.Fail("", fmt.Sprintf("post-processor holder-pp: its point `Dep IA wire:\",required=false\"` holds %v although %d registered component(s) implement IA", dep, nA), detail)
		return
	}
	if dep != nil {
		okA := false
		for i, nd := range r.Nodes {
			if any(nd) == any(dep) && world.Palette[g.Sc.Nodes[i].Type].A {
				okA = true
			}
		}
		if !okA {
			c.Fail("", fmt.Sprintf("post-processor holder-pp: its IA point holds %T, not a registered IA component", dep), detail)
			return
		}
	}
	seen := map[any]bool{}
	for _, b := range all {
		if !wantB[any(b)] || seen[any(b)] {
			c.Fail("", fmt.Sprintf("post-processor holder-pp: its `All []IB` point holds %T %p, which is not a registered IB component or is held twice", b, b), detail)
			return
		}
		seen[any(b)] = true
	}
	if len(seen) != len(wantB) {
		c.Fail("", fmt.Sprintf("post-processor holder-pp: its `All []IB wire:\",required=false\"` point holds %d of the %d registered IB components", len(seen), len(wantB)), detail)
		return
	}
	c.Nontrivial(fmt.Sprint("processorholder|", class, nA, len(wantB)))
}

func (p c06) Run(c *core.Ctx) {
	if c.Index%20 == 17 {
		p.processorHolder(c)
		return
	}
	if c.Index%25 == 9 {
		p.anonymous(c)
		return
	}
	if c.Index%25 == 19 {
		p.funcPointers(c)
		return
	}
	if c.Index%25 == 14 {
		p.contributedProviders(c)
		return
	}
	if c.Index%25 == 4 {
		p.argMethods(c)
		return
	}
	if c.Index%25 == 24 {
		p.sameNamedTypes(c)
		return
	}
	mix := TagMix{ByType: 3, Func: 1.2, POptional: 0.45}
	g := RandomPopulation(c.Rng, PopOpts{MinP: 3, MaxP: 25, Types: world.TypesAll, PUnnamed: 0.35})
	if c.Rng.Intn(3) == 0 {
		// components whose registered NAME happens to be a method name the func tags ask for, of types that
		// do not expose that method: a func point asks for methods, names are none of its business
		used := map[string]bool{}
		for i := range g.Sc.Nodes {
			used[g.Sc.Nodes[i].DisplayName()] = true
		}
		for _, m := range []string{"Mark", "Kind", "Nosuch"} {
			i := c.Rng.Intn(len(g.Sc.Nodes))
			ti := world.Palette[g.Sc.Nodes[i].Type]
			if g.Sc.Nodes[i].Name == "" || used[m] || (m == "Mark" && ti.Mark) || (m == "Kind" && ti.Kind) {
				continue
			}
			delete(used, g.Sc.Nodes[i].Name)
			g.Sc.Nodes[i].Name = m
			used[m] = true
			c.Count("components_named_like_a_requested_method", 1)
		}
	}
	n := len(g.Sc.Nodes)
	consumers := 1 + c.Rng.Intn(4)
	for x := 0; x < consumers; x++ {
		AddRandomPoints(g, c.Rng.Intn(n), 1, 4, mix, nil)
	}
	var holders []any
	for h := 0; h < c.Rng.Intn(3); h++ {
		hm := mix
		hm.POptional = 0.9
		holders = append(holders, LiteralHolder(c.Rng, h, 1+c.Rng.Intn(4), g.Sc, hm))
	}
	lean := LeanProviders(c.Rng)
	repairUnsatisfiable(c, g, holders, 0.85, lean...)
	var pre func(r *world.Run)
	if c.Rng.Intn(4) == 0 {
		// constructors that pre-populate slice-typed points (a default element, a hand-wired registered one):
		// the point still ends up with exactly its candidates, each once
		seed := c.Rng.Int63()
		pre = func(r *world.Run) {
			rng := rand.New(rand.NewSource(seed))
			for i, n := range r.Nodes {
				if world.Palette[g.Sc.Nodes[i].Type].Lazy {
					continue // a lazy holder may never be created: its fields then stay as its constructor left them
				}
				for slot, ts := range g.Sc.Nodes[i].Tags {
					si := world.SlotByName(slot)
					if !strings.HasPrefix(si.Kind, "slice") || (ts.Tag != "wire" && ts.Tag != "func") || rng.Intn(2) == 0 {
						continue
					}
					// (an optional point without any candidate is left untouched, pre-set content included: only
					// required points are pre-populated - they either receive their candidates or fail the start)
					if _, args := world.ParseTag(ts.Val); contains(args["required"], "false") {
						continue
					}
					f := reflect.ValueOf(n.Slot()).Elem().FieldByName(slot)
					for tries := 0; tries < 6; tries++ {
						cand := reflect.ValueOf(r.Nodes[rng.Intn(len(r.Nodes))])
						if cand.Interface() != any(n) && cand.Type().AssignableTo(f.Type().Elem()) {
							f.Set(reflect.Append(f, cand))
							c.Count("pre_populated_slice_points", 1)
							break
						}
					}
				}
			}
		}
	}
	runModelCase(c, g, holders, 4, true, nil, nil, lean, pre)
}

// runModelCase starts the scenario under `orders` order settings and compares each with the model.
func runModelCase(c *core.Ctx, g *world.G, holders []any, orders int, strict bool, classify func(r *world.Run, ps []problem, exp world.Expect) string, more ...any) {
	var nontrivial []func(exp world.Expect) bool
	var providers []any
	// modelView rewrites the scenario's tags to what the reference model should assume (e.g. after a user
	// post-processor changed arguments at run time) and returns the undo
	var modelView func(sc *world.Scenario) func()
	// preStart runs after the components were instantiated and before App.Run (e.g. a constructor that
	// pre-populates fields)
	var preStart func(r *world.Run)
	for _, m := range more {
		switch x := m.(type) {
		case func(exp world.Expect) bool:
			if x != nil {
				nontrivial = append(nontrivial, x)
			}
		case []any:
			providers = x
		case func(sc *world.Scenario) func():
			modelView = x
		case func(r *world.Run):
			preStart = x
		}
	}
	sc := g.Sc
	var hdesc []string
	for _, h := range holders {
		hdesc = append(hdesc, describeHolder(h))
	}
	for o := 0; o < orders; o++ {
		g.ShuffleOrders()
		if o > 0 {
			// literal holders are single-use objects: reset their fields
			for _, h := range holders {
				resetHolder(h)
			}
		}
		r := world.Build(sc, world.Options{Extra: append(append([]any{}, holders...), providers...)})
		if preStart != nil {
			preStart(r)
		}
		r.Go()
		c.Count("starts", 1)
		c.Count("outcome_"+r.Outcome(), 1)
		undo := func() {}
		if modelView != nil {
			undo = modelView(sc)
		}
		ps, exp := evalAgainstModel(r, strict, holders...)
		undo()
		multi, pts := 0, 0
		for _, pr := range exp.Points {
			pts++
			if len(pr.Res.S) >= 2 {
				multi++
			}
		}
		c.Count("points_checked", pts)
		if len(nontrivial) > 0 {
			multi = 0
			if nontrivial[0](exp) {
				multi = 1
			}
		}
		if o == 0 {
			if multi > 0 {
				c.Nontrivial(sc.GraphSig() + fmt.Sprint(hdesc))
			}
			if exp.MustFail {
				c.Count("cases_expected_to_fail", 1)
			} else if exp.MayFail {
				c.Ambiguous()
			}
		}
		for ord := range r.Perm.Orders {
			c.Distinct("candidate_orders", ord)
		}
		if len(ps) > 0 {
			class := ""
			if classify != nil {
				class = classify(r, ps, exp)
			}
			c.Count("problem_"+ps[0].Kind, 1)
			c.Fail(class, ps[0].Msg, failDetail(sc, r, map[string]any{"problems": msgs(ps), "holders": hdesc}))
			return
		}
		if o == 0 && multi > 0 && c.WantSample() {
			c.Sample(map[string]any{"scenario": describeScenario(sc), "holders": hdesc, "points": pts, "points_with_2+_candidates": multi, "outcome": r.Outcome()})
		}
	}
}

// repairUnsatisfiable makes most required points without candidate optional (a dry start supplies
// the registered population for the model), so that the majority of starts is expected to succeed.
// The decision is a pure function of the case's PRNG.
func repairUnsatisfiable(c *core.Ctx, g *world.G, holders []any, p float64, providers ...any) {
	r := world.Start(g.Sc, world.Options{Extra: append(append([]any{}, holders...), providers...)})
	pop := world.Describe(r.Population())
	for _, pr := range r.NodePoints(pop) {
		if pr.Res.Required && len(pr.Res.S) == 0 && !pr.Res.Unsupported && c.Rng.Float64() < p {
			ts := g.Sc.Nodes[pr.Node].Tags[pr.Slot]
			ts.Val += ",required=false"
			g.Sc.Nodes[pr.Node].Tags[pr.Slot] = ts
		}
	}
	for _, h := range holders {
		resetHolder(h)
	}
}
