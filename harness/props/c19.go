package props

import (
	"fmt"
	"reflect"
	"strings"

	"github.com/go-kid/ioc/component_definition"
	"github.com/go-kid/ioc/container/processors"
	"verifharness/core"
	"verifharness/world"
)

// C19 Tag argument grammar is total and faithful.
type c19 struct{}

func init() { core.Register(c19{}) }

func (c19) ID() string    { return "C19" }
func (c19) Level() string { return "exploration" }
func (c19) Rule() string {
	return "(a) totality: component_definition.NewProperty is called under recover() on seeded arbitrary byte strings (uniform bytes; strings over the grammar's own alphabet ',= [](){}:$#\"' and letters; structured tags mutated by byte insertion / deletion / duplication / bracket unbalancing), 64 strings per case; every accessor (TagVal, Args().Find/Has/String, IsRequired) is exercised too. (b) faithfulness: structured tags 'v,n1=a b,n2=[x,y] z,...' generated from a grammar (value with optional bracketed groups / placeholders with defaults, 0..5 uniquely named arguments, items that are plain tokens or balanced bracket groups containing commas and spaces) are parsed by an independent reference parser (depth-counting scanner); TagVal must equal the text before the first top-level comma, Find(name) and Find(Title(name)) must return the items, bracketed groups must be intact; IsRequired() must be false iff an explicit required=false / Required=false item is present. (c) end-to-end: reflect.StructOf holders carrying generated wire / value / prop tags with extra arguments are started on the real container and must behave as the parsed arguments say (optional vs required unsatisfiable points; prop shorthand with bracketed defaults). non-trivial = structured tag with >= 2 arguments and a bracketed group, or a mutated string that still parses to >= 1 argument; distinct = the tag string; isolated family: a user post-processor relaxing its own tag's points via SetArg must not relax a point of another tag with the byte-identical tag value, in this or later starts; empty argument items and empty-valued known arguments end-to-end; AddArg / SetArg under either spelling of the key; empty value part followed by arguments end-to-end; formatting the property between parsing and reading; crowd family: 6..25 components with prop tags in one application, every point bound per its own tag; configuredCommas family (configured texts containing commas / name=value pieces are data); values that look like arguments; percent signs in arguments; argument names with separators; by-type points whose candidates all lack the qualifier; value parts and defaults ending in a backslash; empty segments between arguments; several values added at once through AddArg"
}
func (c19) Assumptions() []string {
	return []string{
		"argument names in the faithful part are ASCII and unique up to the case of the first letter (the statement does not say which duplicate wins)",
		"totality is decided by recover() plus the worker's wall-clock watchdog (the parser has no interface to count steps on; its loops are bounded by the input length)",
	}
}
func (c19) fuzzCount(tier string) int  { return tierN(tier, 3000, 1500000) } // x64 strings
func (c19) faithCount(tier string) int { return tierN(tier, 20000, 5000000) }
func (c19) e2eCount(tier string) int   { return tierN(tier, 600, 200000) }
func (p c19) NumCases(tier string) int {
	return p.fuzzCount(tier) + p.faithCount(tier) + p.e2eCount(tier)
}
func (c19) MinNontrivial(tier string) int { return tierN(tier, 2000, 20000) }

var dummyField = func() *component_definition.Field {
	type h struct {
		F string `value:"x"`
	}
	m := component_definition.NewMeta(&h{})
	if len(m.Fields) == 0 {
		// (must not happen; checks that need the field report it instead of the process dying at start-up)
		return nil
	}
	return m.Fields[0]
}()

const grammarAlphabet = ",,,===   [](){}:$#\"'abcXYZ019.-_\\\t\n"

func (p c19) Run(c *core.Ctx) {
	switch {
	case c.Index < p.fuzzCount(c.Tier):
		p.fuzz(c)
	case c.Index < p.fuzzCount(c.Tier)+p.faithCount(c.Tier):
		p.faithful(c)
	default:
		p.e2e(c)
	}
}

func exercise(tag string) (tagVal string, nargs int, panicked any) {
	defer func() {
		if r := recover(); r != nil {
			panicked = r
		}
	}()
	pr := component_definition.NewProperty(dummyField, component_definition.PropertyTypeComponent, "wire", tag)
	tagVal = pr.TagVal
	_ = pr.IsRequired()
	_ = pr.Args().String()
	pr.Args().ForEach(func(t component_definition.ArgType, args []string) {
		nargs++
		pr.Args().Find(t)
		pr.Args().Has(t, args...)
	})
	pr.Args().Has(component_definition.ArgQualifier, "x")
	_ = pr.String()
	return
}

func (p c19) fuzz(c *core.Ctx) {
	c.AddEvaluations(63)
	for k := 0; k < 64; k++ {
		var s string
		switch c.Rng.Intn(4) {
		case 0: // uniform bytes
			b := make([]byte, c.Rng.Intn(40))
			for i := range b {
				b[i] = byte(c.Rng.Intn(256))
			}
			s = string(b)
		case 1: // grammar alphabet
			b := make([]byte, c.Rng.Intn(60))
			for i := range b {
				b[i] = grammarAlphabet[c.Rng.Intn(len(grammarAlphabet))]
			}
			s = string(b)
		default: // mutated structured tag
			t, _ := genStructuredTag(c)
			b := []byte(t)
			for m := 0; m < 1+c.Rng.Intn(4) && len(b) > 0; m++ {
				i := c.Rng.Intn(len(b))
				switch c.Rng.Intn(5) {
				case 0:
					b = append(b[:i], b[i+1:]...)
				case 1:
					b = append(b[:i], append([]byte{grammarAlphabet[c.Rng.Intn(len(grammarAlphabet))]}, b[i:]...)...)
				case 2:
					b = append(b[:i], append([]byte{b[i]}, b[i:]...)...)
				case 3:
					b[i] = "[]{}()"[c.Rng.Intn(6)]
				case 4:
					b[i] = byte(c.Rng.Intn(256))
				}
			}
			s = string(b)
		}
		_, nargs, pan := exercise(s)
		c.Count("strings_parsed", 1)
		if pan != nil {
			c.Fail("", fmt.Sprintf("NewProperty/accessors panicked on tag %q: %v", s, pan), map[string]any{"tag_bytes": fmt.Sprintf("%x", s)})
			return
		}
		if nargs >= 1 {
			c.Count("fuzz_strings_parsed_to_arguments", 1)
			if k == 0 {
				c.Nontrivial(s)
			}
		}
	}
}

type refArg struct {
	name  string
	items []string
}

// genStructuredTag generates a tag from the grammar and returns the generator's own expectation.
type structured struct {
	val  string
	args []refArg
}

func genToken(c *core.Ctx, allowBrackets bool, depth int) string {
	letters := "abcdefgxyzABC0123456789._-:$#*/"
	n := 1 + c.Rng.Intn(6)
	var sb strings.Builder
	for i := 0; i < n; i++ {
		sb.WriteByte(letters[c.Rng.Intn(len(letters))])
	}
	if allowBrackets && depth < 3 && c.Rng.Intn(3) == 0 {
		open, close := "[", "]"
		switch c.Rng.Intn(3) {
		case 1:
			open, close = "{", "}"
		case 2:
			open, close = "(", ")"
		}
		var inner []string
		for i := 0; i < 1+c.Rng.Intn(3); i++ {
			inner = append(inner, genToken(c, true, depth+1))
		}
		sep := []string{",", " ", ", ", "=", ",="}[c.Rng.Intn(5)]
		g := open + strings.Join(inner, sep) + close
		switch c.Rng.Intn(3) {
		case 0:
			return g
		case 1:
			return sb.String() + g
		default:
			return g + sb.String()
		}
	}
	return sb.String()
}

func genStructuredTag(c *core.Ctx) (string, structured) {
	var st structured
	switch c.Rng.Intn(5) {
	case 0:
		st.val = ""
	case 1:
		st.val = "${" + genToken(c, false, 0) + ":" + genToken(c, true, 1) + "}"
	case 4:
		// a value that looks like an argument is still the value: it stands before the first top-level comma
		st.val = []string{"required=false", "Required=false", "qualifier=main", "required=", "k=v", "validate=min=1", "x=1 2"}[c.Rng.Intn(7)]
	default:
		st.val = genToken(c, true, 0)
		if c.Rng.Intn(4) == 0 {
			st.val += " " + genToken(c, true, 0)
		}
	}
	used := map[string]bool{}
	na := c.Rng.Intn(6)
	// (names with separators inside: only the FIRST letter's case is immaterial - log-level and log-Level are two names)
	names := []string{"required", "qualifier", "validate", "returns", "mapper", "embed", "x", "Zed", "q1", "Required", "Qualifier", "log-level", "log-Level", "time.layout", "time.Layout", "a/b", "a/B"}
	for i := 0; i < na; i++ {
		name := names[c.Rng.Intn(len(names))]
		if c.Rng.Intn(3) == 0 {
			name = "n" + genToken(c, false, 0)
			name = strings.NewReplacer(":", "", "$", "", "#", "", "*", "", "/", "", ".", "", "-", "").Replace(name)
		}
		key := strings.ToLower(name[:1]) + name[1:]
		if used[key] {
			continue
		}
		used[key] = true
		a := refArg{name: name}
		switch c.Rng.Intn(5) {
		case 0: // bare
			a.items = nil
		case 1: // "name=": one empty item
			a.items = []string{""}
		default:
			for k := 0; k < 1+c.Rng.Intn(3); k++ {
				if c.Rng.Intn(8) == 0 {
					a.items = append(a.items, "") // leading / trailing / doubled blank: an empty item
					continue
				}
				a.items = append(a.items, genToken(c, true, 0))
			}
		}
		if key == "required" && c.Rng.Intn(2) == 0 {
			a.items = []string{"false"}
		}
		st.args = append(st.args, a)
	}
	tag := st.val
	for _, a := range st.args {
		if c.Rng.Intn(8) == 0 {
			tag += "," // an empty segment (two commas in a row) is no argument and hides none of the following ones
		}
		if a.items == nil {
			tag += "," + a.name
		} else {
			tag += "," + a.name + "=" + strings.Join(a.items, " ")
		}
	}
	return tag, st
}

// refParse is the independent reference parser: depth-counting split at top-level separators.
func refSplit(s string, sep byte) []string {
	var parts []string
	depth, start := 0, 0
	for i := 0; i < len(s); i++ {
		switch s[i] {
		case '[', '{', '(':
			depth++
		case ']', '}', ')':
			depth--
		default:
			if s[i] == sep && depth == 0 {
				parts = append(parts, s[start:i])
				start = i + 1
			}
		}
	}
	return append(parts, s[start:])
}

func refParse(tag string) (val string, args map[string][]string) {
	segs := refSplit(tag, ',')
	val = segs[0]
	args = map[string][]string{}
	for _, seg := range segs[1:] {
		if seg == "" {
			continue
		}
		name, rest, has := strings.Cut(seg, "=")
		if name == "" {
			continue
		}
		key := strings.ToLower(name[:1]) + name[1:]
		if !has {
			args[key] = []string{""}
			continue
		}
		args[key] = refSplit(rest, ' ')
	}
	return
}

func (p c19) faithful(c *core.Ctx) {
	tag, st := genStructuredTag(c)
	var pr *component_definition.Property
	var pan any
	func() {
		defer func() { pan = recover() }()
		pr = component_definition.NewProperty(dummyField, component_definition.PropertyTypeComponent, "wire", tag)
	}()
	c.Count("structured_tags", 1)
	if pan != nil {
		c.Fail("", fmt.Sprintf("NewProperty panicked on structured tag %q: %v", tag, pan), nil)
		return
	}
	rval, rargs := refParse(tag)
	// the generator's own expectation and the reference parser must agree (self-check of the oracle)
	if rval != st.val {
		c.Fail("", fmt.Sprintf("HARNESS: reference parser and generator disagree on %q: %q vs %q", tag, rval, st.val), nil)
		return
	}
	if pr.TagVal != rval {
		c.Fail("", fmt.Sprintf("tag %q: value part is %q, expected the text before the first top-level comma %q", tag, pr.TagVal, rval), nil)
		return
	}
	brackets := strings.ContainsAny(tag, "[{(")
	for key, want := range rargs {
		for _, nm := range []string{key, strings.ToUpper(key[:1]) + key[1:]} {
			got, ok := pr.Args().Find(component_definition.ArgType(nm))
			if !ok {
				c.Fail("", fmt.Sprintf("tag %q: argument %q not found under name %q", tag, key, nm), nil)
				return
			}
			if !reflect.DeepEqual(got, want) {
				c.Fail("", fmt.Sprintf("tag %q: argument %q has items %q, expected %q", tag, nm, got, want), nil)
				return
			}
		}
	}
	// every parsed item is matched by Has (in any order of the written items), unknown items are not
	for key, want := range rargs {
		if !pr.Args().Has(component_definition.ArgType(key)) {
			c.Fail("", fmt.Sprintf("tag %q: Has(%q) is false for a present argument", tag, key), nil)
			return
		}
		for _, it := range want {
			if !pr.Args().Has(component_definition.ArgType(key), it) {
				c.Fail("", fmt.Sprintf("tag %q: Has(%q, %q) is false although %q is one of the argument's items %q", tag, key, it, it, want), nil)
				return
			}
			if !pr.Args().Has(component_definition.ArgType(key), "no-such-item", it) {
				c.Fail("", fmt.Sprintf("tag %q: Has(%q, \"no-such-item\", %q) is false although %q is one of the items", tag, key, it, it), nil)
				return
			}
		}
		if pr.Args().Has(component_definition.ArgType(key), "no-such-item-\x00") {
			c.Fail("", fmt.Sprintf("tag %q: Has(%q, <unknown item>) is true", tag, key), nil)
			return
		}
	}
	n := 0
	pr.Args().ForEach(func(t component_definition.ArgType, _ []string) { n++ })
	if n != len(rargs) {
		c.Fail("", fmt.Sprintf("tag %q: %d arguments parsed, expected %d", tag, n, len(rargs)), nil)
		return
	}
	wantOptional := false
	if r, ok := rargs["required"]; ok {
		for _, it := range r {
			if it == "false" {
				wantOptional = true
			}
		}
	}
	if pr.IsRequired() == wantOptional {
		c.Fail("", fmt.Sprintf("tag %q: IsRequired()=%v but explicit required=false present: %v", tag, pr.IsRequired(), wantOptional), nil)
		return
	}
	// formatting a property (debug logging, error messages) is an observation: the arguments read the same
	// afterwards, items in the order written
	_ = pr.Args().String()
	_ = pr.String()
	for key, want := range rargs {
		if got, _ := pr.Args().Find(component_definition.ArgType(key)); !reflect.DeepEqual(got, want) {
			c.Fail("", fmt.Sprintf("tag %q: after the property was formatted (String()), argument %q has items %q, expected %q", tag, key, got, want), nil)
			return
		}
	}
	// run-time additions through the public API address the same argument whatever the case of the first
	// letter: AddArg appends to what the tag gave, SetArg replaces it
	for _, key := range core.SortedKeys(rargs) {
		variant := key
		if c.Rng.Intn(2) == 0 {
			variant = strings.ToUpper(key[:1]) + key[1:]
		}
		if first := rargs[key]; len(first) > 0 && first[0] != "" && c.Rng.Intn(3) == 0 {
			// several values added at once, one of them already present: the new one is among the items afterwards
			// (whether the repeated one is kept twice is not judged)
			pr.AddArg(component_definition.ArgType(variant), first[0], "extra-item")
			if got, _ := pr.Args().Find(component_definition.ArgType(key)); !contains(got, "extra-item") || !pr.Args().Has(component_definition.ArgType(key), "extra-item") {
				c.Fail("", fmt.Sprintf("tag %q: after AddArg(%q, %q, \"extra-item\") argument %q has items %q - the added item is missing", tag, variant, first[0], key, got), nil)
				return
			}
		} else if c.Rng.Intn(2) == 0 {
			pr.AddArg(component_definition.ArgType(variant), "extra-item")
			want := append(append([]string{}, rargs[key]...), "extra-item")
			if got, _ := pr.Args().Find(component_definition.ArgType(key)); !reflect.DeepEqual(got, want) {
				c.Fail("", fmt.Sprintf("tag %q: after AddArg(%q, \"extra-item\") argument %q has items %q, expected %q", tag, variant, key, got, want), nil)
				return
			}
		} else {
			pr.SetArg(component_definition.ArgType(variant), "only-item")
			if got, _ := pr.Args().Find(component_definition.ArgType(key)); !reflect.DeepEqual(got, []string{"only-item"}) {
				c.Fail("", fmt.Sprintf("tag %q: after SetArg(%q, \"only-item\") argument %q has items %q", tag, variant, key, got), nil)
				return
			}
		}
		c.Count("run_time_argument_changes_checked", 1)
		break
	}
	if len(rargs) >= 2 && brackets {
		c.Nontrivial(tag)
		if c.WantSample() {
			c.Sample(map[string]any{"tag": tag, "value": rval, "args": rargs, "required": !wantOptional})
		}
	}
}

// e2e: generated tags on StructOf holders behave as the parsed arguments say.
// isolated: arguments belong to the point whose tag was parsed. A user post-processor that relaxes the
// points of its own tag at run time (Property.SetArg, as unittest/component/modified_inject does) does
// not make any other point optional - not one with a byte-identical tag value, not in a later start.
func (p c19) isolated(c *core.Ctx) {
	tv := fmt.Sprintf("ghost-%d", c.Rng.Intn(4)) + []string{"", ",x=1 2", ",qualifier=g", ",required=true", ",note=[a,b] c"}[c.Rng.Intn(5)]
	otherTag := []string{"wire", "wire", "mywire"}[c.Rng.Intn(3)]
	mk := func(tag string) any {
		return world.NewHolder(world.BuildStruct([]world.FieldSpec{{Name: "F", Type: world.TypeIA, Tag: world.WireTag(tag, tv)}}))
	}
	scan := func(tag string) any {
		return &userScanner{processors.DefaultTagScanDefinitionRegistryPostProcessor{NodeType: component_definition.PropertyTypeComponent, Tag: tag}}
	}
	steps := c.Rng.Perm(3)
	var hist []string
	for _, st := range steps {
		var comps []any
		var want string
		switch st {
		case 0: // only the relaxed point
			comps, want = []any{mk("opt"), scan("opt"), &world.RelaxPP{Tag: "opt"}}, "ok"
		case 1: // only the strict point
			comps, want = []any{mk(otherTag)}, "error"
		default: // both
			comps, want = []any{mk("opt"), mk(otherTag), scan("opt"), &world.RelaxPP{Tag: "opt"}}, "error"
		}
		if otherTag == "mywire" && st != 0 {
			comps = append(comps, &userScanner2{processors.DefaultTagScanDefinitionRegistryPostProcessor{NodeType: component_definition.PropertyTypeComponent, Tag: "mywire"}})
		}
		r := world.Start(&world.Scenario{}, world.Options{Extra: comps})
		c.Count("e2e_starts", 1)
		hist = append(hist, fmt.Sprintf("start %d -> %s", st, r.Outcome()))
		detail := map[string]any{"tag_value": tv, "strict_tag": otherTag, "starts (0: relaxed opt point only, 1: strict point only, 2: both)": hist, "outcome": core.Short(r.OutcomeDetail(), 300)}
		if abnormal(r.Outcome()) {
			c.Fail("", fmt.Sprintf("tag value %q: %s", tv, r.OutcomeDetail()), detail)
			return
		}
		if r.Outcome() != want {
			if want == "error" {
				c.Fail("", fmt.Sprintf("the required unsatisfiable point %s:%q started successfully after a post-processor relaxed another point (opt:%q) with the same tag value", otherTag, tv, tv), detail)
			} else {
				c.Fail("", fmt.Sprintf("the point opt:%q, relaxed at run time by its post-processor, still failed the start: %s", tv, core.Short(r.OutcomeDetail(), 200)), detail)
			}
			return
		}
	}
	c.Count("isolated_argument_cases", 1)
	c.Nontrivial("isolated:" + tv + otherTag + fmt.Sprint(steps))
}

type userScanner2 struct {
	processors.DefaultTagScanDefinitionRegistryPostProcessor
}

func (u *userScanner2) Naming() string { return "verif.userscanner2" }

// emptyValue: a tag whose value part is empty still has its arguments: prop:",required=false" is the prop
// shorthand for the empty key (the configuration root) with an explicit required=false.
func (p c19) emptyValue(c *core.Ctx) {
	withConfig := c.Rng.Intn(2) == 0
	doc := ""
	if withConfig {
		doc = "alpha: 1\nbeta:\n  gamma: x\n"
	}
	tagName := []string{"prop", "value", "prefix"}[c.Rng.Intn(3)]
	args := []string{",required=false", ",Required=false", ",required=false,x=1 2", ",note=[a,b],required=false"}[c.Rng.Intn(4)]
	tag := world.WireTag(tagName, args)
	h := world.NewHolder(world.BuildStruct([]world.FieldSpec{{Name: "All", Type: reflect.TypeOf(map[string]any{}), Tag: tag}}))
	r := world.Start(&world.Scenario{Config: doc}, world.Options{Extra: []any{h}, NoTracer: true})
	c.Count("e2e_starts", 1)
	detail := map[string]any{"tag": tag, "config": doc, "outcome": core.Short(r.OutcomeDetail(), 300)}
	if r.Outcome() != "ok" {
		c.Fail("", fmt.Sprintf("holder with %s (empty value part, explicit required=false) failed to start: %s", tag, core.Short(r.OutcomeDetail(), 300)), detail)
		return
	}
	got := reflect.ValueOf(h).Elem().Field(0).Interface().(map[string]any)
	if tagName != "value" && withConfig && (len(got) != 2 || fmt.Sprint(got["alpha"]) != "1") {
		c.Fail("", fmt.Sprintf("%s with an empty key addresses the configuration root, the field holds %v", tag, got), detail)
		return
	}
	c.Count("empty_value_part_cases", 1)
	c.Nontrivial("emptyvalue:" + tag + fmt.Sprint(withConfig))
}

// configuredCommas: the tag grammar applies to what is written in the tag. A configured text (or a
// placeholder default's replacement) that happens to contain commas and "name=value" pieces is data: it is
// bound as a whole, and it cannot make a point optional.
func (p c19) configuredCommas(c *core.Ctx) {
	txt := []string{"hello, world", "left,right", "x,required=false", "a,b,c=d e"}[c.Rng.Intn(4)]
	wname := []string{"no-such-component,required=false", "absent,Required=false"}[c.Rng.Intn(2)]
	doc := fmt.Sprintf("c19:\n  text: %q\n  w: %q\n", txt, wname)
	variant := c.Rng.Intn(3)
	fields := []world.FieldSpec{{Name: "S", Type: reflect.TypeOf(""), Tag: []string{`value:"${c19.text}"`, `prop:"c19.text"`}[c.Rng.Intn(2)]}}
	if variant == 1 {
		// a by-name point whose name comes from the configuration: no component carries that name, and nothing in
		// the tag says required=false
		fields = append(fields, world.FieldSpec{Name: "W", Type: world.TypeIA, Tag: `wire:"${c19.w}"`})
	}
	if variant == 2 {
		fields = append(fields, world.FieldSpec{Name: "N", Type: reflect.TypeOf(0), Tag: `value:"${c19.none:},validate=required"`})
	}
	h := world.NewHolder(world.BuildStruct(fields))
	r := world.Start(&world.Scenario{Config: doc}, world.Options{Extra: []any{h}, NoTracer: true})
	c.Count("e2e_starts", 1)
	c.Count("configured_comma_starts", 1)
	detail := map[string]any{"config": doc, "fields": fmt.Sprint(fields), "outcome": core.Short(r.OutcomeDetail(), 300)}
	if abnormal(r.Outcome()) {
		c.Fail("", "configured text with commas: "+r.OutcomeDetail(), detail)
		return
	}
	switch variant {
	case 0:
		if got := reflect.ValueOf(h).Elem().Field(0).String(); r.Outcome() != "ok" || got != txt {
			c.Fail("", fmt.Sprintf("%s with the configured text %q: outcome %s, the field holds %q", fields[0].Tag, txt, r.Outcome(), got), detail)
			return
		}
	case 1:
		if r.Outcome() != "error" {
			c.Fail("", fmt.Sprintf("`wire:\"${c19.w}\"` with c19.w=%q: no component carries that name and the tag does not say required=false, but the start succeeded", wname), detail)
			return
		}
	case 2:
		if r.Outcome() != "error" {
			c.Fail("", "`value:\"${c19.none:},validate=required\"` (nothing configured, empty default): the start succeeded", detail)
			return
		}
	}
	c.Nontrivial(fmt.Sprintf("cfgcomma|%d|%s|%s", variant, txt, wname))
}

func (p c19) e2e(c *core.Ctx) {
	if c.Index%5 == 3 && c.Index%3 == 0 {
		p.configuredCommas(c)
		return
	}
	if c.Index%5 == 1 && c.Index%3 == 0 {
		p.crowd(c)
		return
	}
	if c.Index%5 == 2 {
		p.isolated(c)
		return
	}
	if c.Index%5 == 4 && c.Index%2 == 0 {
		p.emptyValue(c)
		return
	}
	extra := func() string {
		var parts []string
		for i := 0; i < c.Rng.Intn(3); i++ {
			parts = append(parts, []string{"x=1 2", "note=[a,b] c", "Zed", "q1={k,v}", "embed", "mapper=", "timeLayout= ", "x=  y", "hint=up to 100%", "fmt=%d of %s", "pct=%"}[c.Rng.Intn(11)])
		}
		if len(parts) == 0 {
			return ""
		}
		return "," + strings.Join(parts, ",")
	}
	optional := c.Rng.Intn(2) == 0
	req := ""
	if optional {
		req = []string{",required=false", ",Required=false"}[c.Rng.Intn(2)]
	} else if c.Rng.Intn(2) == 0 {
		req = []string{",required=true", ",required=falsy", ",requiredx=false", ",required=FALSE", ",required"}[c.Rng.Intn(5)]
	}
	args := extra() + req + extra()
	if c.Rng.Intn(2) == 0 {
		args = req + extra()
	}
	var fields []world.FieldSpec
	kind := c.Rng.Intn(5)
	var tag string
	sc := &world.Scenario{}
	switch kind {
	case 4:
		// a by-type point with candidates none of which carries the requested qualifier: unsatisfiable like one
		// without candidates - optional only with an explicit required=false
		g := world.NewG(c.Rng)
		g.AddNode([]int{0, 1, 3}[c.Rng.Intn(3)], "some-ia")
		sc = g.Sc
		tag = world.WireTag("wire", ",qualifier=no-such-group"+args)
		fields = append(fields, world.FieldSpec{Name: "F", Type: world.TypeIA, Tag: tag})
	case 0:
		tag = world.WireTag("wire", "no-such-component"+args)
		fields = append(fields, world.FieldSpec{Name: "F", Type: world.TypeIA, Tag: tag})
	case 1:
		tag = world.WireTag("value", "${no.such.key}"+args)
		fields = append(fields, world.FieldSpec{Name: "F", Type: reflect.TypeOf(""), Tag: tag})
	case 2:
		key := "no.such.key"
		if c.Rng.Intn(3) == 0 {
			key += "\\" // a value part that ends in a backslash (a Windows path, an escaped separator): still the value
		}
		tag = world.WireTag("prop", key+args)
		fields = append(fields, world.FieldSpec{Name: "F", Type: reflect.TypeOf(0), Tag: tag})
	case 3:
		tag = world.WireTag("prefix", "no.such.key"+args)
		fields = append(fields, world.FieldSpec{Name: "F", Type: reflect.TypeOf(""), Tag: tag})
	}
	// a satisfiable prop with a bracketed default and further arguments must bind the default
	fields = append(fields, world.FieldSpec{Name: "L", Type: reflect.TypeOf([]int{}), Tag: world.WireTag("prop", "no.such.list:[1,2,3],required=true"+extra())})
	// a point found by a user-supplied scanner (which does not set any default of its own) is required
	// unless its tag says required=false
	custom := c.Rng.Intn(3) == 0
	var scanners []any
	if custom {
		// only this point decides the outcome: drop the other unsatisfiable point
		tag = world.WireTag("mywire", "whatever"+args)
		fields = []world.FieldSpec{{Name: "F", Type: world.TypeIA, Tag: tag}, fields[len(fields)-1]}
		scanners = append(scanners, &userScanner{processors.DefaultTagScanDefinitionRegistryPostProcessor{NodeType: component_definition.PropertyTypeComponent, Tag: "mywire"}})
	}
	h := world.NewHolder(world.BuildStruct(fields))
	r := world.Start(sc, world.Options{Extra: append([]any{h}, scanners...)})
	c.Count("e2e_starts", 1)
	if abnormal(r.Outcome()) {
		c.Fail("", fmt.Sprintf("holder with tag %s: %s", tag, r.OutcomeDetail()), map[string]any{"tag": tag})
		return
	}
	if optional && r.Outcome() != "ok" {
		c.Fail("", fmt.Sprintf("holder with optional unsatisfiable point %s failed to start: %s", tag, core.Short(r.OutcomeDetail(), 300)), map[string]any{"tag": tag})
		return
	}
	if !optional && r.Outcome() != "error" {
		c.Fail("", fmt.Sprintf("holder with required unsatisfiable point %s started successfully", tag), map[string]any{"tag": tag})
		return
	}
	if optional {
		hv := reflect.ValueOf(h).Elem()
		if !hv.FieldByName("F").IsZero() {
			c.Fail("", fmt.Sprintf("optional unsatisfiable point %s was written", tag), nil)
			return
		}
		if got := hv.FieldByName("L").Interface().([]int); !reflect.DeepEqual(got, []int{1, 2, 3}) {
			c.Fail("", fmt.Sprintf("prop shorthand with bracketed default: got %v, expected [1 2 3]", got), nil)
			return
		}
	}
	c.Nontrivial("e2e:" + tag)
}

// crowd: many components carrying prop tags in one application (their definitions are scanned side by
// side): every tag is parsed into its own value part and its own arguments.
func (p c19) crowd(c *core.Ctx) {
	n := 6 + c.Rng.Intn(20)
	type exp struct {
		holder, field int
		want          string
		tag           string
	}
	var holders []any
	var exps []exp
	doc := ""
	for i := 0; i < n; i++ {
		var fields []world.FieldSpec
		for j := 0; j < 1+c.Rng.Intn(3); j++ {
			key := fmt.Sprintf("crowd.c%dx%d", i, j)
			want := ""
			inner := key
			switch c.Rng.Intn(4) {
			case 0: // configured
				want = fmt.Sprintf("configured-%d-%d", i, j)
				doc += fmt.Sprintf("crowd.c%dx%d: %s\n", i, j, want)
			case 1: // configured, a default is stated too
				want = fmt.Sprintf("configured-%d-%d", i, j)
				doc += fmt.Sprintf("crowd.c%dx%d: %s\n", i, j, want)
				inner += fmt.Sprintf(":unused-default-%d", i)
			case 2: // default
				want = fmt.Sprintf("default-of-%d-%d", i, j)
				if c.Rng.Intn(4) == 0 {
					want = fmt.Sprintf("C:\\dir-%d-%d\\", i, j) // a default that ends in a backslash
				}
				inner += ":" + want
			default: // nothing: optional, stays empty
				inner += ",required=false"
			}
			if c.Rng.Intn(2) == 0 {
				inner += []string{",note=[a,b] c", ",x=1 2", ",Zed", ",hint=up to 100%", ",fmt=%v%%"}[c.Rng.Intn(5)]
			}
			tag := world.WireTag("prop", inner)
			fields = append(fields, world.FieldSpec{Name: fmt.Sprintf("F%dx%d", i, j), Type: reflect.TypeOf(""), Tag: tag})
			exps = append(exps, exp{i, j, want, tag})
		}
		holders = append(holders, world.NewHolder(world.BuildStruct(fields)))
	}
	sc := &world.Scenario{Config: doc}
	r := world.Start(sc, world.Options{Extra: holders, NoTracer: true})
	c.Count("e2e_starts", 1)
	c.Count("crowd_starts", 1)
	if r.Outcome() != "ok" {
		c.Fail("", fmt.Sprintf("%d components with satisfiable or optional prop tags: start %s", n, core.Short(r.OutcomeDetail(), 400)), map[string]any{"config": doc})
		return
	}
	for _, e := range exps {
		got := reflect.ValueOf(holders[e.holder]).Elem().Field(e.field).String()
		if got != e.want {
			c.Fail("", fmt.Sprintf("one of %d components with prop tags: field tagged %s holds %q, expected %q", n, e.tag, got, e.want), map[string]any{"config": doc})
			return
		}
	}
	c.Count("crowd_prop_points_checked", len(exps))
	c.Nontrivial(fmt.Sprintf("crowd:%d:%s", n, doc))
}

type userScanner struct {
	processors.DefaultTagScanDefinitionRegistryPostProcessor
}

func (u *userScanner) Naming() string { return "verif.userscanner" }
