package props

import (
	"fmt"
	"github.com/go-kid/ioc/app"
	"github.com/go-kid/ioc/container/processors"
	"github.com/go-kid/ioc/container/support"
	"math"

	"verifharness/core"
	"verifharness/mon"
	"verifharness/world"
)

// C13 Runners execute once, in order, only after the container is ready.
type c13 struct{}

func init() { core.Register(c13{}) }

func (c13) ID() string    { return "C13" }
func (c13) Level() string { return "exploration" }
func (c13) Rule() string {
	return "seeded starts with 0..10 runners (unordered, ordered, priority-ordered, priority-only, lazy, runner+closer, with their own dependencies on other components and on each other) among 0..20 other components (eager, lazy, cyclic), arbitrary Order values incl. ties; in half of the cases one or two runners are made to fail. Offline checker over the per-start event log (logical clock shared by Init/AfterPropertiesSet methods, the observing post-processor and Run methods): successful start => every runner has exactly one run event, every run event follows the last lifecycle event of every component created in the start, run events obey the ordering contract; failing runner => Run returns an error, the last run event is a failing runner, nothing ran twice, and every runner that did not run could legally be sorted after the failing one. non-trivial = >= 2 runners of >= 2 classes, or a failing runner that is not last; distinct = canonical scenario signature; zero-size runners of different types and orders take part; runners whose Order() is settled during their own initialization; a component contributed programmatically by a factory post-processor is initialised before any runner; runner errors of a field-less value type or of an application error type with a Cause() method and no cause, or context.Canceled (plain / wrapped); a component collecting runners by method name; runners exposed through decorators of a few shared decorator types (a post-processor wraps each after its initialisation); one runner replaced by a non-runner object (the others still run); ownRegistry family; a catalogue factory post-processor listing definitions before the scan; promotedRoles family (ordering roles promoted from embedded structs); AfterPropertiesSet faults on runners that also have Init"
}
func (c13) Assumptions() []string {
	return []string{"with Order ties the position of the failing runner is not unique; the set of runners that ran must be a prefix of some contract-respecting sequence"}
}
func (c13) NumCases(tier string) int      { return tierN(tier, 2000, 500000) }
func (c13) MinNontrivial(tier string) int { return tierN(tier, 400, 4000) }

func runnerPart(sc *world.Scenario, i int) part {
	ti := world.Palette[sc.Nodes[i].Type]
	cl := 2
	if ti.Ordered && ti.Priority {
		cl = 0
	} else if ti.Ordered {
		cl = 1
	}
	return part{i, cl, sc.Nodes[i].Ord}
}

// mayFollow: b may be sorted after a.
func mayFollow(a, b part) bool {
	if a.class != b.class {
		return a.class < b.class
	}
	if a.class == 2 {
		return true
	}
	return a.ord <= b.ord
}

// ownRegistry: an application assembled by hand with a registry of its own and nothing else replaced
// (app.NewApp().Run(SetRegistry(support.NewRegistry()), SetComponents(...)), as performance_analyst does): its
// runners are created and run once each, in order; a failing one makes Run fail.
func (p c13) ownRegistry(c *core.Ctx) {
	log := mon.NewLifecycle()
	n := 1 + c.Rng.Intn(5)
	failAt := -1
	if c.Rng.Intn(3) == 0 {
		failAt = c.Rng.Intn(n)
	}
	var comps []any
	ords := c.Rng.Perm(n)
	for i := 0; i < n; i++ {
		comps = append(comps, &world.TopRunner{Nm: fmt.Sprintf("top-runner-%d", i), Ord: ords[i], Log: log, Fail: ords[i] == failAt})
	}
	ops := []app.SettingOption{app.SetLogger(world.Logger), app.SetRegistry(support.NewRegistry()), app.SetComponents(comps...)}
	if c.Rng.Intn(2) == 0 {
		ops = []app.SettingOption{app.SetRegistry(support.NewRegistry()), app.SetLogger(world.Logger), app.SetComponents(comps...)}
	}
	var err error
	var pan any
	func() {
		defer func() { pan = recover() }()
		err = app.NewApp().Run(ops...)
	}()
	c.Count("starts", 1)
	c.Count("starts_with_a_registry_of_their_own", 1)
	if pan != nil {
		c.Fail("", fmt.Sprintf("application with its own registry: panic %v", pan), nil)
		return
	}
	var seq []int
	for _, e := range log.Events() {
		if e.Kind == "run" {
			var k int
			fmt.Sscanf(e.Who, "top-runner-%d", &k)
			seq = append(seq, ords[k])
		}
	}
	want := n
	if failAt >= 0 {
		want = failAt + 1
	}
	ok := len(seq) == want
	for i := range seq {
		if seq[i] != i {
			ok = false
		}
	}
	if !ok || (failAt >= 0) != (err != nil) {
		c.Fail("", fmt.Sprintf("application with its own registry and %d ordered runners (failing position: %d): the runners ran in order positions %v, Run returned %v", n, failAt, seq, err), nil)
		return
	}
	c.Nontrivial(fmt.Sprintf("ownregistry|%d|%d|%v", n, failAt, ords))
}

// promotedRoles: runners whose ordering role comes from embedded structs - Order() promoted from a shared base
// struct, the priority mark from the library's PriorityComponent helper: priority-ordered ones first (by Order), then
// the ordered ones (by Order), then the others; each once.
func (p c13) promotedRoles(c *core.Ctx) {
	log := mon.NewLifecycle()
	var comps []any
	class := map[string]int{}
	ord := map[string]int{}
	n := 2 + c.Rng.Intn(6)
	ords := c.Rng.Perm(n)
	for i := 0; i < n; i++ {
		nm := fmt.Sprintf("promoted-runner-%d", i)
		base := world.RunnerBase{Nm: nm, Ord: ords[i] - n/2, Log: log}
		switch k := c.Rng.Intn(3); k {
		case 0:
			comps = append(comps, &world.PromotedPriorityRunner{RunnerBase: base})
			class[nm] = 0
		case 1:
			comps = append(comps, &world.PromotedOrderedRunner{RunnerBase: base})
			class[nm] = 1
		default:
			comps = append(comps, &world.PromotedPlainRunner{Nm: nm, Log: log})
			class[nm] = 2
		}
		ord[nm] = base.Ord
	}
	c.Rng.Shuffle(len(comps), func(a, b int) { comps[a], comps[b] = comps[b], comps[a] })
	var err error
	var pan any
	func() {
		defer func() { pan = recover() }()
		err = app.NewApp().Run(app.SetLogger(world.Logger), app.SetComponents(comps...))
	}()
	c.Count("starts", 1)
	c.Count("starts_with_runners_of_promoted_roles", 1)
	if pan != nil || err != nil {
		c.Fail("", fmt.Sprintf("runners with promoted ordering roles: panic %v, error %v", pan, err), nil)
		return
	}
	var seq []string
	seen := map[string]int{}
	for _, e := range log.Events() {
		if e.Kind == "run" {
			seq = append(seq, fmt.Sprintf("%s(class %d, order %d)", e.Who, class[e.Who], ord[e.Who]))
			seen[e.Who]++
		}
	}
	detail := map[string]any{"run_sequence": seq, "classes": "0 priority-ordered, 1 ordered, 2 unordered"}
	for nm := range class {
		if seen[nm] != 1 {
			c.Fail("", fmt.Sprintf("runner %s ran %d time(s)", nm, seen[nm]), detail)
			return
		}
	}
	var prev string
	for _, e := range log.Events() {
		if e.Kind != "run" {
			continue
		}
		if prev != "" && (class[prev] > class[e.Who] || (class[prev] == class[e.Who] && class[prev] < 2 && ord[prev] > ord[e.Who])) {
			c.Fail("", fmt.Sprintf("runner %s (class %d, order %d) ran before %s (class %d, order %d): %v", prev, class[prev], ord[prev], e.Who, class[e.Who], ord[e.Who], seq), detail)
			return
		}
		prev = e.Who
	}
	c.Nontrivial(fmt.Sprint("promotedroles|", seq))
}

func (p c13) Run(c *core.Ctx) {
	if c.Index%40 == 27 {
		p.promotedRoles(c)
		return
	}
	if c.Index%40 == 13 {
		p.ownRegistry(c)
		return
	}
	// in a fifth of the cases a post-processor exposes (some of) the runners through decorators - a tracing
	// wrapper around each - which forward Run and the ordering role: every decorated runner still runs once
	decorate := c.Rng.Intn(5) == 0
	gopts := GraphOpts{MinN: 0, MaxN: 12, Types: world.TypesPlain, PCycle: 0.4, Chords: 2, ByTypeSlice: 0.1, QualSlice: 0.1, PUnnamed: 0.3}
	if decorate {
		gopts.ByTypeSlice, gopts.QualSlice = 0, 0 // (the decorators play no other role than runner/closer)
	}
	sc := RandomGraph(c.Rng, gopts)
	g := &world.G{Rng: c.Rng, Sc: sc}
	nOther := len(sc.Nodes)
	nr := c.Rng.Intn(11)
	var runners []int
	targeted := map[int]bool{} // runners that other runners depend on
	lateOrd := 0
	// in a third of the decorating cases the post-processor instead replaces ONE runner (one without
	// dependencies of its own, which nothing else collects), after its initialisation, by an object that is no
	// runner - a service proxy that does not forward Run: that one is no participant any more, all the others are
	replaceMode := decorate && c.Rng.Intn(3) == 0
	replaced := -1
	for i := 0; i < nr; i++ {
		k := g.AddRandomNode(world.TypesRunner, 0.25)
		sc.Nodes[k].Ord = []int{0, 0, 1, 1, -1, 3, 3, -5, 7, math.MaxInt, math.MinInt, math.MaxInt - 1, -1 << 62}[c.Rng.Intn(13)]
		runners = append(runners, k)
		if ti := world.Palette[sc.Nodes[k].Type]; (ti.Init || ti.Aps) && c.Rng.Intn(3) == 0 {
			// a runner that learns its position while it is initialised: the sequence follows the orders the
			// runners have when the container is ready, not a provisional one
			pv := []int{0, 1, -1, 3, 7, -5}[c.Rng.Intn(6)]
			sc.Nodes[k].ProvisionalOrd = &pv
			lateOrd++
		}
		if replaceMode && replaced < 0 {
			replaced = k
			continue
		}
		// dependencies of the runner
		for x := 0; x < c.Rng.Intn(3); x++ {
			if nOther > 0 && c.Rng.Intn(2) == 0 {
				g.EdgeByName(k, c.Rng.Intn(nOther), "")
			} else if len(runners) > 1 && !decorate {
				j := runners[c.Rng.Intn(len(runners))]
				if j != k {
					g.EdgeByName(k, j, "", "any")
					targeted[j] = true
				}
			}
		}
	}
	// a component that collects everything startable by method name (func:"Run,returns=*"): collecting the
	// runners is not running them
	if nOther > 0 && nr > 0 && !replaceMode && c.Rng.Intn(4) == 0 {
		i := c.Rng.Intn(nOther)
		if free := g.FreeSlots(i, func(si world.SlotInfo) bool { return si.Name == "AnyS" }); len(free) > 0 {
			g.SetTag(i, "AnyS", "func", []string{"Run,returns=*,required=false", "Run,required=false"}[c.Rng.Intn(2)])
			c.Count("components_collecting_runners_by_method_name", 1)
		}
	}
	// a runner whose own creation fails (permanently, or on the first attempt only): the start must fail
	// and no runner may run - the runner must not silently disappear from the sequence
	c.Count("runners_with_order_settled_during_initialization", lateOrd)
	creationFault := -1
	if nr > 0 && c.Rng.Intn(6) == 0 {
		var cands []int
		for _, k := range runners {
			if ti := world.Palette[sc.Nodes[k].Type]; (ti.Init || ti.Aps) && k != replaced {
				cands = append(cands, k)
			}
		}
		if len(cands) > 0 {
			creationFault = cands[c.Rng.Intn(len(cands))]
			kind := "init"
			if ti := world.Palette[sc.Nodes[creationFault].Type]; !ti.Init || (ti.Aps && c.Rng.Intn(2) == 0) {
				kind = "aps" // (also for components with both hooks: AfterPropertiesSet fails, Init would succeed)
			}
			if c.Rng.Intn(2) == 0 {
				sc.Nodes[creationFault].FailOnce = append(sc.Nodes[creationFault].FailOnce, kind)
			} else {
				sc.Nodes[creationFault].Fails = append(sc.Nodes[creationFault].Fails, kind)
			}
		}
	}
	// an eager "factory aware" component: still a component, must be initialised before any runner
	var fa *world.FactoryAware
	var extra []any
	if c.Rng.Intn(3) == 0 {
		fa = &world.FactoryAware{Nm: []string{"a-factory-aware", "z-factory-aware"}[c.Rng.Intn(2)]}
		extra = append(extra, fa)
	}
	// a component whose definition is contributed programmatically by a factory post-processor (never
	// passed to SetComponents): eager like any other, initialised before any runner
	var contributed world.Node
	if c.Rng.Intn(4) == 0 {
		contributed = world.Palette[[]int{0, 1, 3}[c.Rng.Intn(3)]].New() // eager plain types with Init
		contributed.Core().Name = []string{"a-contributed", "z-contributed"}[c.Rng.Intn(2)]
		extra = append(extra, &world.RegistrarPP{Nodes: []world.Node{contributed}})
	}
	// stateless zero-size runners: distinct components even when their addresses coincide
	var zeroRunners []string
	if c.Rng.Intn(4) == 0 {
		all := []any{&world.ZRunnerA{}, &world.ZRunnerB{}, &world.ZRunnerC{}}
		names := []string{"zero-runner-a", "zero-runner-b", "zero-runner-c"}
		k := 2 + c.Rng.Intn(2)
		extra = append(extra, all[:k]...)
		zeroRunners = names[:k]
	}
	var failing []int
	if nr > 0 && creationFault < 0 && c.Rng.Intn(2) == 0 {
		for x := 0; x < 1+c.Rng.Intn(2); x++ {
			f := runners[c.Rng.Intn(len(runners))]
			if f != replaced && !contains(sc.Nodes[f].Fails, "run") {
				sc.Nodes[f].Fails = append(sc.Nodes[f].Fails, "run")
				failing = append(failing, f)
				switch c.Rng.Intn(6) {
				case 0, 1:
					sc.Nodes[f].ZeroValueErrors = true // e.g. `type errNotLeader struct{}`: non-nil, but equal to its zero value
				case 2:
					sc.Nodes[f].CauselessErrors = true // e.g. `&StartupError{Op: "migrate"}` with a Cause() method and no cause
				case 3:
					sc.Nodes[f].CancelErrors = true // the runner gave up because its context was cancelled: an error like any other
				}
			}
		}
	}
	g.ShuffleOrders()
	if replaced >= 0 {
		extra = append(extra, world.NewSubstituter(map[string]world.SubPlan{sc.Nodes[replaced].DisplayName(): {After: true}}))
		c.Count("starts_with_a_runner_replaced_by_a_non_runner", 1)
	}
	if decorate && replaced < 0 && nr > 0 {
		var names []string
		for _, k := range runners {
			if c.Rng.Intn(4) != 0 {
				names = append(names, sc.Nodes[k].DisplayName())
			}
		}
		extra = append(extra, world.NewDecorator(names...))
		c.Count("runners_exposed_through_decorators", len(names))
	}
	if c.Rng.Intn(5) == 0 {
		// a factory post-processor that looks at the registered components and at the definitions known so far
		// when it is invoked (a module catalogue): looking changes nothing
		extra = append(extra, &world.CatalogFactoryPP{})
		c.Count("starts_with_a_catalogue_factory_post_processor", 1)
	}
	if c.Rng.Intn(6) == 0 {
		// the library's exported by-type resolver registered next to the default one: every runner is still one
		// participant
		extra = append(extra, processors.NewDependencyTypeAwarePostProcessors())
		c.Count("starts_with_the_exported_by_type_resolver_registered_too", 1)
	}
	r := world.Build(sc, world.Options{Extra: extra})
	world.SetZeroLog(r.Log)
	r.Go()
	c.Count("starts", 1)
	c.Count("outcome_"+r.Outcome(), 1)
	if abnormal(r.Outcome()) {
		c.Fail("", "abnormal start: "+r.OutcomeDetail(), failDetail(sc, r, nil))
		return
	}
	ev := r.Log.Events()
	var seq []part
	zeroRan := map[string]int{}
	ran := map[int]int{}
	firstRun := -1
	lastLifecycle := -1
	for _, e := range ev {
		switch e.Kind {
		case "run":
			i, isNode := nodeNamed(sc, e.Who)
			if !isNode {
				zeroRan[e.Who]++ // a zero-size runner (unordered class)
				if firstRun < 0 {
					firstRun = e.Seq
				}
				continue
			}
			seq = append(seq, runnerPart(sc, i))
			ran[i]++
			if firstRun < 0 {
				firstRun = e.Seq
			}
		case "before", "after", "aps", "init":
			lastLifecycle = e.Seq
		}
	}
	fail := func(msg string) {
		c.Fail("", msg, failDetail(sc, r, map[string]any{"failing_runners": failing, "runner_with_creation_fault": creationFault, "run_sequence": fmt.Sprint(seq), "events": renderEvents(ev, 150)}))
	}
	if creationFault >= 0 {
		c.Count("runner_creation_faults", 1)
		if r.Outcome() != "error" {
			fail(fmt.Sprintf("the creation of runner %s failed (Init/AfterPropertiesSet error) but App.Run returned nil", sc.Nodes[creationFault].DisplayName()))
			return
		}
		if len(seq) > 0 {
			fail(fmt.Sprintf("%d runner(s) were invoked although the creation of runner %s failed during start-up", len(seq), sc.Nodes[creationFault].DisplayName()))
			return
		}
		c.Nontrivial(sc.GraphSig())
		return
	}
	if fa != nil && r.Outcome() != "panic" {
		faInit := -1
		for _, e := range ev {
			if e.Kind == "init" && e.Who == fa.Nm {
				faInit = e.Seq
			}
		}
		if len(seq) > 0 && (faInit < 0 || faInit > firstRun) {
			fail(fmt.Sprintf("a runner ran (event %d) although the eager component %s had not been initialised (its Init: %d)", firstRun, fa.Nm, faInit))
			return
		}
		c.Count("factory_aware_components_checked", 1)
	}
	if contributed != nil && creationFault < 0 {
		ci := -1
		for _, e := range ev {
			if (e.Kind == "init" || e.Kind == "aps") && e.Who == contributed.DisplayName() {
				ci = e.Seq
			}
		}
		if len(seq)+len(zeroRan) > 0 && (ci < 0 || ci > firstRun) {
			fail(fmt.Sprintf("a runner ran (event %d) although the eager component %s, whose definition a factory post-processor contributed, had not been initialised (its Init: %d)", firstRun, contributed.DisplayName(), ci))
			return
		}
		c.Count("programmatically_contributed_components_checked", 1)
	}
	for i, k := range ran {
		if k > 1 {
			fail(fmt.Sprintf("runner %s ran %d times", sc.Nodes[i].DisplayName(), k))
			return
		}
	}
	if firstRun >= 0 && lastLifecycle > firstRun {
		fail(fmt.Sprintf("a runner ran (event %d) before component initialisation had finished (last lifecycle event %d)", firstRun, lastLifecycle))
		return
	}
	if v := contractViolation(seq); v != "" {
		fail("runner order violates the contract: " + v)
		return
	}
	classes := map[int]bool{}
	for _, k := range runners {
		classes[runnerPart(sc, k).class] = true
	}
	nontriv := len(runners) >= 2 && len(classes) >= 2
	if len(failing) == 0 {
		if r.Outcome() != "ok" {
			fail("start without any fault failed: " + core.Short(r.OutcomeDetail(), 300))
			return
		}
		for _, k := range runners {
			if k == replaced {
				if ran[k] > 1 {
					fail(fmt.Sprintf("runner %s (replaced by a non-runner) has %d run events", sc.Nodes[k].DisplayName(), ran[k]))
					return
				}
				continue
			}
			if ran[k] != 1 {
				fail(fmt.Sprintf("runner %s has %d run events in a successful start", sc.Nodes[k].DisplayName(), ran[k]))
				return
			}
		}
		for _, zn := range zeroRunners {
			if zeroRan[zn] != 1 {
				fail(fmt.Sprintf("zero-size runner %s has %d run events in a successful start", zn, zeroRan[zn]))
				return
			}
		}
		c.Count("zero_size_runners_checked", len(zeroRunners))
	} else {
		if r.Outcome() != "error" {
			fail("a runner returned an error but App.Run returned nil")
			return
		}
		if len(seq) == 0 {
			fail("a runner fails but no runner was invoked and Run failed for another reason: " + core.Short(r.OutcomeDetail(), 300))
			return
		}
		last := seq[len(seq)-1]
		if !contains(sc.Nodes[last.id].Fails, "run") {
			fail(fmt.Sprintf("Run failed but the last runner invoked (%s) is not a failing one", sc.Nodes[last.id].DisplayName()))
			return
		}
		for _, pt := range seq[:len(seq)-1] {
			if contains(sc.Nodes[pt.id].Fails, "run") {
				fail(fmt.Sprintf("runner %s failed but later runners were still invoked", sc.Nodes[pt.id].DisplayName()))
				return
			}
		}
		for _, k := range runners {
			if ran[k] == 0 && k != replaced && !mayFollow(last, runnerPart(sc, k)) {
				fail(fmt.Sprintf("runner %s was skipped although it sorts before the failing runner %s", sc.Nodes[k].DisplayName(), sc.Nodes[last.id].DisplayName()))
				return
			}
		}
		if len(seq) < len(runners) {
			nontriv = true
			c.Count("failing_runner_not_last", 1)
		}
	}
	c.Count("run_events", len(seq))
	c.Distinct("run_sequences", fmt.Sprint(seq))
	if nontriv {
		c.Nontrivial(sc.GraphSig())
		if c.WantSample() {
			c.Sample(map[string]any{"scenario": describeScenario(sc), "failing": failing, "run_sequence_id_class_order": fmt.Sprint(seq), "outcome": r.Outcome()})
		}
	}
	_ = mon.Event{}
}
