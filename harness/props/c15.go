package props

import (
	"bytes"
	"encoding/json"
	"fmt"
	"os"
	"path/filepath"
	"reflect"
	"sort"
	"strings"

	"github.com/go-kid/ioc/app"
	"github.com/go-kid/ioc/configure"
	"github.com/go-kid/ioc/configure/binder"
	"github.com/go-kid/ioc/configure/loader"
	"gopkg.in/yaml.v3"
	"verifharness/core"
	"verifharness/mon"
	"verifharness/world"
)

// C15 Configuration sources merge in loader order; adding a source drops nothing.
type c15 struct{}

func init() { core.Register(c15{}) }

func (c15) ID() string    { return "C15" }
func (c15) Level() string { return "exploration" }
func (c15) Rule() string {
	return "seeded sets of 1..5 configuration sources of the kinds raw document, file (written under .work), command-line arguments (loader.NewArgsLoader with generated --app.config=k=v), and harness loaders of the classes ordered / priority-ordered, over key trees (depth <= 3, lower-case keys without dots) with overlapping and disjoint keys and type changes on overlap (scalar<->scalar of another type, scalar<->list, scalar->mapping, mapping->scalar); the sources are installed through every kind of option sequence (SetConfigLoader, AddConfigLoader, SetConfig, singly and combined, in seeded orders). Oracle: an independent deep-merge model (mappings merge recursively, scalars and lists replace) applied in the contract order (priority-ordered by Order, then ordered by Order, then the rest in the order added; SetConfigLoader replaces the list, the adding options append) is compared with App.Get for every leaf path and every subtree, and with prefix-bound fields of a reflect.StructOf holder. non-trivial = >= 2 effective sources with at least one overlapping path; distinct = canonical (sources, option sequence) signature; every sixth case drives a Configure through 2-3 rounds of AddLoaders+Initialize and checks, after each round, every path on which merge-on-top and merge-from-scratch agree; command-line sources address nested sections with dotted keys; every sixth case has 13-32 sources; file sources with lines longer than 64 KiB; empty values, '=' inside values, a missing configured file; command-line values containing commas; bare flag lists (no program name in front); profile family (a loader whose document depends on what the sources before it contributed); file sources fed through a pipe (/proc/self/fd/N); binder replaced between initializations; a source that yields its document only later; a JSON store; TAB characters as content of values; stateless loaders registered by value; preloaded family (a configure that already holds settings); argsOverlap family (overlapping pairs of one command line)"
}
func (c15) Assumptions() []string {
	return []string{
		"at most one loader per (class, Order) pair is generated, because the contract does not fix the relative order of equally ranked priority-ordered / ordered loaders",
		"keys are lower-case and free of dots; scalar strings are plain alphanumerics (YAML / argument quoting is not what this property is about)",
	}
}
func (c15) NumCases(tier string) int      { return tierN(tier, 2500, 500000) }
func (c15) MinNontrivial(tier string) int { return tierN(tier, 500, 5000) }

var c15Keys = []string{"a", "b", "c", "srv", "db"}

// marshalDoc renders a tree as a YAML document; TAB characters inside values are written literally (inside the
// double quotes the encoder puts around such a value) - content of a hand-written document, not indentation.
func marshalDoc(v any) ([]byte, error) {
	b, err := yaml.Marshal(v)
	return bytes.ReplaceAll(b, []byte(`\t`), []byte("\t")), err
}

func genTree(c *core.Ctx, depth int, scalarsOnly bool) map[string]any {
	m := map[string]any{}
	n := 1 + c.Rng.Intn(3)
	for i := 0; i < n; i++ {
		k := c15Keys[c.Rng.Intn(len(c15Keys))]
		switch x := c.Rng.Intn(7); {
		case x < 2 && depth < 3:
			// command-line sources (scalarsOnly) address nested keys with dotted paths: sections yes, lists no
			m[k] = genTree(c, depth+1, scalarsOnly)
		case x == 2:
			m[k] = c.Rng.Intn(1000)
		case x == 3:
			m[k] = []string{"alpha", "beta", "gamma", "delta"}[c.Rng.Intn(4)] + fmt.Sprint(c.Rng.Intn(50))
		case x == 4:
			m[k] = c.Rng.Intn(2) == 0
		case x == 5 && !scalarsOnly:
			m[k] = []any{c.Rng.Intn(9), c.Rng.Intn(9)}
		case x == 6 && !scalarsOnly && c.Rng.Intn(3) == 0:
			m[k] = []string{"id\tname", "\tindented", "a\t\tb "}[c.Rng.Intn(3)] + fmt.Sprint(c.Rng.Intn(100)) // TAB-separated content
		case x == 6 && c.Rng.Intn(3) == 0:
			m[k] = "" // an empty value is a value: it overrides (clears) what an earlier source supplied
		default:
			// command-line values may contain '=' themselves (DSNs, base64 padding)
			// ... and commas (a plain text with a comma is one value)
			m[k] = []string{"w", "w", "w", "q=", "a==b", "x?y=1&z=", "c,d", "one, two and ", "k=v,l=w"}[c.Rng.Intn(9)] + fmt.Sprint(c.Rng.Intn(100))
		}
	}
	return m
}

func deepCopy(v any) any {
	switch x := v.(type) {
	case map[string]any:
		o := map[string]any{}
		for k, e := range x {
			o[k] = deepCopy(e)
		}
		return o
	case []any:
		o := make([]any, len(x))
		for i, e := range x {
			o[i] = deepCopy(e)
		}
		return o
	}
	return v
}

func modelMerge(dst, src map[string]any) {
	for k, v := range src {
		if sm, ok := v.(map[string]any); ok {
			if dm, ok := dst[k].(map[string]any); ok {
				modelMerge(dm, sm)
				continue
			}
			dst[k] = deepCopy(sm)
			continue
		}
		dst[k] = deepCopy(v)
	}
}

func flatten(prefix string, m map[string]any, out map[string]any) {
	for k, v := range m {
		p := k
		if prefix != "" {
			p = prefix + "." + k
		}
		out[p] = v
		if sm, ok := v.(map[string]any); ok {
			flatten(p, sm, out)
		}
	}
}

func canon(v any) string {
	b, err := json.Marshal(normalize(v))
	if err != nil {
		return fmt.Sprintf("%#v", v)
	}
	return string(b)
}

func normalize(v any) any {
	switch x := v.(type) {
	case map[string]any:
		o := map[string]any{}
		for k, e := range x {
			o[k] = normalize(e)
		}
		return o
	case map[any]any:
		o := map[string]any{}
		for k, e := range x {
			o[fmt.Sprint(k)] = normalize(e)
		}
		return o
	case []any:
		o := make([]any, len(x))
		for i, e := range x {
			o[i] = normalize(e)
		}
		return o
	case int:
		return float64(x)
	case int64:
		return float64(x)
	case uint64:
		return float64(x)
	}
	return v
}

type c15Source struct {
	kind  string // raw | file | args | ordered | priority
	ord   int
	tree  map[string]any
	ld    configure.Loader
	via   string // set | add | config
	label string
}

// profile: a loader whose document depends on what the sources before it in the sequence contributed (a
// profile / import style source that reads `app.profile` from the configuration while it is loading): sources
// are merged one after the other, so it sees them.
func (p c15) profile(c *core.Ctx) {
	prof := []string{"prod", "dev", "qa"}[c.Rng.Intn(3)]
	port := 1 + c.Rng.Intn(9000)
	cfg := configure.NewConfigure()
	cfg.SetBinder(binder.NewViperBinder("yaml"))
	log := mon.NewLifecycle()
	base := loader.NewRawLoader([]byte(fmt.Sprintf("app:\n  profile: %s\nserver:\n  port: 80\n", prof)))
	pl := world.NewLoader([]int{0, 0, 1}[c.Rng.Intn(3)], "profile-source", 5, nil, log)
	pc := pl.Core()
	pc.Probe = func() {
		if got := fmt.Sprint(cfg.Get("app.profile")); got == prof {
			pc.Doc = []byte(fmt.Sprintf("server:\n  port: %d\n  tls: true\n", port))
		} else {
			pc.Doc = nil
		}
	}
	var lds []configure.Loader
	if pl.Core().Ord == 5 && c.Rng.Intn(2) == 0 {
		// (an ordered profile source precedes the un-ordered base: it cannot see it; keep the base priority-ordered then)
		lds = []configure.Loader{world.NewLoader(2, "base", 0, []byte(fmt.Sprintf("app:\n  profile: %s\nserver:\n  port: 80\n", prof)), log).(configure.Loader), pl.(configure.Loader)}
	} else if _, ordered := pl.(interface{ Order() int }); ordered {
		lds = []configure.Loader{world.NewLoader(2, "base", 0, []byte(fmt.Sprintf("app:\n  profile: %s\nserver:\n  port: 80\n", prof)), log).(configure.Loader), pl.(configure.Loader)}
	} else {
		lds = []configure.Loader{base, pl.(configure.Loader)}
	}
	cfg.AddLoaders(lds...)
	var err error
	func() {
		defer func() {
			if r := recover(); r != nil {
				err = fmt.Errorf("panic: %v", r)
			}
		}()
		err = cfg.Initialize()
	}()
	c.AddEvaluations(1)
	c.Count("profile_source_cases", 1)
	if err != nil {
		c.Fail("", fmt.Sprintf("Initialize with a profile source failed: %v", err), nil)
		return
	}
	if got, tls := fmt.Sprint(cfg.Get("server.port")), fmt.Sprint(cfg.Get("server.tls")); got != fmt.Sprint(port) || tls != "true" {
		c.Fail("", fmt.Sprintf("a source that reads app.profile (supplied by the source before it) while loading contributes server.port=%d / server.tls=true for that profile; the effective configuration has server.port=%s server.tls=%s", port, got, tls), map[string]any{"profile": prof})
		return
	}
	c.Nontrivial(fmt.Sprintf("profile|%s|%d|%T", prof, port, pl))
}

// preloaded: the application is handed a configure that its owner has already initialised with a first source (to read
// bootstrap settings) - or that merely holds a value stored with Set; sources added through the application's options
// are merged on top like for a fresh configure: exclusive keys visible, later values win.
func (p c15) preloaded(c *core.Ctx) {
	port, port2 := 8000+c.Rng.Intn(100), 9000+c.Rng.Intn(100)
	mode := []string{"fast", "safe", "dry"}[c.Rng.Intn(3)]
	cfg := configure.NewConfigure()
	cfg.SetBinder(binder.NewViperBinder("yaml"))
	how := c.Rng.Intn(3)
	var err error
	guard := func(f func() error) {
		defer func() {
			if r := recover(); r != nil {
				err = fmt.Errorf("panic: %v", r)
			}
		}()
		err = f()
	}
	switch how {
	case 0, 1:
		cfg.AddLoaders(loader.NewRawLoader([]byte(fmt.Sprintf("server:\n  port: %d\n  host: base-host\n", port))))
		guard(cfg.Initialize)
	default:
		cfg.Set("boot.flag", "on")
		cfg.AddLoaders(loader.NewRawLoader([]byte(fmt.Sprintf("server:\n  port: %d\n  host: base-host\n", port))))
	}
	if err != nil {
		c.Fail("", fmt.Sprintf("the owner's Initialize failed: %v", err), nil)
		return
	}
	added := loader.NewRawLoader([]byte(fmt.Sprintf("server:\n  port: %d\n  mode: %s\nextra:\n  only: x\n", port2, mode)))
	ops := []app.SettingOption{app.SetLogger(world.Logger), app.SetConfigure(cfg)}
	if how == 1 {
		ops = append(ops, app.AddConfigLoader(added), app.AddConfigLoader(loader.NewArgsLoader([]string{"prog", "--app.config=cli.k=v"})))
	} else {
		ops = append(ops, app.AddConfigLoader(added))
	}
	a := app.NewApp()
	guard(func() error { return a.Run(ops...) })
	c.AddEvaluations(1)
	c.Count("starts", 1)
	c.Count("starts_with_a_preloaded_configure", 1)
	detail := map[string]any{"how (0/1 initialised by its owner, 2 a value stored with Set)": how}
	if err != nil {
		c.Fail("", fmt.Sprintf("application with a pre-loaded configure: %v", err), detail)
		return
	}
	got := fmt.Sprint(cfg.Get("server.port"), cfg.Get("server.host"), cfg.Get("server.mode"), cfg.Get("extra.only"))
	want := fmt.Sprint(port2, "base-host", mode, "x")
	if how == 1 {
		got += fmt.Sprint(cfg.Get("cli.k"))
		want += "v"
	}
	if got != want {
		c.Fail("", fmt.Sprintf("sources added to a configure that already held settings: effective server.port/host/mode, extra.only = %s, the merge in loader order gives %s", got, want), detail)
		return
	}
	c.Nontrivial(fmt.Sprint("preloaded|", how, mode))
}

// argsOverlap: the pairs of one command line that address overlapping parts of the key tree under different written
// keys (a section literal followed by refinements of single entries, or an entry followed by a replacement of its
// section) are applied in the order written: within one source too, the later one wins.
func (p c15) argsOverlap(c *core.Ctx) {
	p1, p2, size := 5000+c.Rng.Intn(100), 6000+c.Rng.Intn(100), 1+c.Rng.Intn(50)
	var args []string
	var want string
	form := c.Rng.Intn(3)
	switch form {
	case 0:
		args = []string{fmt.Sprintf("--app.config=db=map[host:cli-db port:%d]", p1), fmt.Sprintf("--app.config=db.port=%d", p2), fmt.Sprintf("--app.config=db.pool.size=%d", size)}
		want = fmt.Sprint("cli-db ", p2, " ", size)
	case 1:
		args = []string{fmt.Sprintf("--app.config=db.port=%d", p1), fmt.Sprintf("--app.config=db.pool.size=%d", size), "--app.config=db=map[host:other-db]"}
		want = "other-db <nil> <nil>"
	default:
		args = []string{fmt.Sprintf("--app.config=db.port=%d", p1), "--app.config=db.host=h1", fmt.Sprintf("--app.config=db.pool=map[size:%d]", size), fmt.Sprintf("--app.config=db.pool.size=%d", size+1)}
		want = fmt.Sprint("h1 ", p1, " ", size+1)
	}
	if c.Rng.Intn(2) == 0 {
		args = append([]string{"prog", "--verbose"}, args...)
	}
	cfg := configure.NewConfigure()
	cfg.SetBinder(binder.NewViperBinder("yaml"))
	if c.Rng.Intn(2) == 0 {
		// (an earlier source: what the command line's own document does not contain stays visible - deep merge)
		cfg.AddLoaders(loader.NewRawLoader([]byte("db:\n  host: file-db\n  port: 1\n")))
		if form == 1 {
			want = "other-db 1 <nil>"
		}
	}
	cfg.AddLoaders(loader.NewArgsLoader(args))
	var err error
	func() {
		defer func() {
			if r := recover(); r != nil {
				err = fmt.Errorf("panic: %v", r)
			}
		}()
		err = cfg.Initialize()
	}()
	c.AddEvaluations(1)
	c.Count("overlapping_command_lines", 1)
	if err != nil {
		c.Fail("", fmt.Sprintf("command line %v: %v", args, err), nil)
		return
	}
	got := fmt.Sprint(cfg.Get("db.host"), " ", cfg.Get("db.port"), " ", cfg.Get("db.pool.size"))
	if got != want {
		c.Fail("", fmt.Sprintf("command line %v applied in the order written gives db.host / db.port / db.pool.size = %s; the effective configuration has %s", args, want, got), nil)
		return
	}
	c.Nontrivial(fmt.Sprint("argsoverlap|", form, want))
}

func (p c15) Run(c *core.Ctx) {
	if c.Index%12 == 2 {
		p.argsOverlap(c)
		return
	}
	if c.Index%12 == 10 {
		p.preloaded(c)
		return
	}
	if c.Index%12 == 4 {
		p.profile(c)
		return
	}
	if c.Index%6 == 5 {
		p.reinit(c)
		return
	}
	ns := 1 + c.Rng.Intn(5)
	many := c.Index%6 == 1
	if many {
		ns = 13 + c.Rng.Intn(20) // more sources than a small-slice sort special-cases
	}
	var srcs []*c15Source
	usedOrd := map[string]bool{}
	haveFile := false
	tmpDir := filepath.Join(os.Getenv("VERIF_DIR"), ".work", "tmp")
	if os.Getenv("VERIF_DIR") == "" {
		tmpDir = "/verif/.work/tmp"
	}
	os.MkdirAll(tmpDir, 0o755)
	var files []string
	var pipes []*os.File
	defer func() {
		for _, f := range files {
			os.Remove(f)
		}
		for _, p := range pipes {
			p.Close()
		}
	}()
	for i := 0; i < ns; i++ {
		s := &c15Source{label: fmt.Sprintf("s%d", i)}
		kinds := []string{"raw", "raw", "args", "ordered", "priority", "file"}
		s.kind = kinds[c.Rng.Intn(len(kinds))]
		if c.Rng.Intn(10) == 0 {
			s.kind = "value" // a stateless loader registered by value (its value is the zero value of its type)
		}
		if s.kind == "file" && haveFile {
			s.kind = "raw"
		}
		s.tree = genTree(c, 0, s.kind == "args")
		if many && s.kind != "file" && c.Rng.Intn(4) > 0 {
			s.kind = "raw"                // mostly plain sources, applied in the order they were added
			s.tree = genTree(c, 3, false) // flat: scalars and lists only
		}
		if s.kind == "file" && c.Rng.Intn(4) == 0 {
			// a very long single-line value somewhere in the middle of the file
			s.tree["longline"] = strings.Repeat("x", 64*1024+c.Rng.Intn(9000))
			s.tree["zafter"] = "after-the-long-line"
		}
		switch s.kind {
		case "value":
			s.ld = []configure.Loader{world.BuiltinDefaults{}, world.TenantLoader{}, world.LevelLoader(0), world.TenantLoader{Tenant: "t1"}}[c.Rng.Intn(4)]
			doc, _ := s.ld.LoadConfig()
			s.tree = map[string]any{}
			yaml.Unmarshal(doc, &s.tree)
			c.Count("stateless_loaders_registered_by_value", 1)
		case "raw":
			b, _ := marshalDoc(s.tree)
			s.ld = loader.NewRawLoader(b)
		case "file":
			haveFile = true
			b, _ := marshalDoc(s.tree)
			f := filepath.Join(tmpDir, fmt.Sprintf("c15-%d-%d-%d.yaml", os.Getpid(), c.Index, i))
			if c.Rng.Intn(4) == 0 {
				// the file is a pipe (--config <(render), /dev/stdin, /proc/self/fd/N): readable, but its
				// reported size is 0
				if pr, pw, err := os.Pipe(); err == nil {
					pipes = append(pipes, pr)
					go func() { pw.Write(b); pw.Close() }()
					f = fmt.Sprintf("/proc/self/fd/%d", pr.Fd())
					c.Count("file_sources_fed_through_a_pipe", 1)
				}
			}
			if !strings.HasPrefix(f, "/proc/") {
				os.WriteFile(f, b, 0o644)
				files = append(files, f)
			}
			s.ld = loader.NewFileLoader(f)
			s.ord = 0
			usedOrd["priority0"] = true
		case "args":
			flat := map[string]any{}
			flatten("", s.tree, flat)
			args := []string{"prog", "--other=1"}
			if c.Rng.Intn(3) == 0 {
				args = nil // a bare flag list (os.Args[1:], or flags assembled by the caller): every element counts
			}
			keys := make([]string, 0, len(flat))
			for k := range flat {
				keys = append(keys, k)
			}
			sort.Strings(keys)
			for _, k := range keys {
				if _, isMap := flat[k].(map[string]any); isMap {
					continue
				}
				args = append(args, fmt.Sprintf("--app.config=%s=%v", k, flat[k]))
			}
			s.ld = loader.NewArgsLoader(args)
		case "ordered", "priority":
			for {
				s.ord = c.Rng.Intn(9) - 4
				if !usedOrd[fmt.Sprint(s.kind, s.ord)] {
					break
				}
			}
			usedOrd[fmt.Sprint(s.kind, s.ord)] = true
			b, _ := marshalDoc(s.tree)
			cl := 1
			if s.kind == "priority" {
				cl = 2
			}
			s.ld = world.NewLoader(cl, s.label, s.ord, b, nil)
		}
		srcs = append(srcs, s)
	}
	// the same source may be added again later (e.g. re-adding the command-line loader so that it
	// overrides defaults added in between): it then takes part in the merge a second time
	if len(srcs) >= 2 && c.Rng.Intn(4) == 0 {
		again := *srcs[c.Rng.Intn(len(srcs)-1)]
		if again.kind == "raw" || again.kind == "args" {
			again.label += "(again)"
			srcs = append(srcs, &again)
		}
	}
	// option sequence
	var opts []app.SettingOption
	var effective []*c15Source
	var seqDesc []string
	i := 0
	for i < len(srcs) {
		s := srcs[i]
		if s.kind == "file" {
			f := string(s.ld.(loader.FileLoader))
			if c.Rng.Intn(2) == 0 {
				opts = append(opts, app.SetConfig(f))
				s.via = "config"
				effective = append(effective, s)
				seqDesc = append(seqDesc, "SetConfig("+s.label+")")
				i++
				continue
			}
		}
		group := []*c15Source{s}
		for i+len(group) < len(srcs) && c.Rng.Intn(3) == 0 && srcs[i+len(group)].kind != "file" {
			group = append(group, srcs[i+len(group)])
		}
		var lds []configure.Loader
		var labels []string
		for _, gsrc := range group {
			lds = append(lds, gsrc.ld)
			labels = append(labels, gsrc.label)
		}
		if c.Rng.Intn(4) == 0 && !(many && i > 0) { // (with many sources the list is replaced at most at the very beginning)
			opts = append(opts, app.SetConfigLoader(lds...))
			effective = append([]*c15Source(nil), group...)
			seqDesc = append(seqDesc, "SetConfigLoader("+strings.Join(labels, ",")+")")
			for _, gsrc := range group {
				gsrc.via = "set"
			}
		} else {
			opts = append(opts, app.AddConfigLoader(lds...))
			effective = append(effective, group...)
			seqDesc = append(seqDesc, "AddConfigLoader("+strings.Join(labels, ",")+")")
			for _, gsrc := range group {
				gsrc.via = "add"
			}
		}
		i += len(group)
	}
	// contract order
	rank := func(s *c15Source) int {
		switch s.kind {
		case "file", "priority":
			return 0
		case "ordered":
			return 1
		}
		return 2
	}
	ordered := append([]*c15Source(nil), effective...)
	sort.SliceStable(ordered, func(a, b int) bool {
		ra, rb := rank(ordered[a]), rank(ordered[b])
		if ra != rb {
			return ra < rb
		}
		if ra < 2 {
			return ordered[a].ord < ordered[b].ord
		}
		return false
	})
	expected := map[string]any{}
	for _, s := range ordered {
		modelMerge(expected, s.tree)
	}
	// holder with prefix-bound fields for up to 4 leaf paths
	flat := map[string]any{}
	flatten("", expected, flat)
	paths := make([]string, 0, len(flat))
	for k := range flat {
		paths = append(paths, k)
	}
	sort.Strings(paths)
	var fields []world.FieldSpec
	bound := map[string]string{}
	for _, pth := range paths {
		if len(fields) >= 4 {
			break
		}
		var ft reflect.Type
		switch flat[pth].(type) {
		case int:
			ft = reflect.TypeOf(0)
		case string:
			ft = reflect.TypeOf("")
		case bool:
			ft = reflect.TypeOf(false)
		default:
			continue
		}
		fn := fmt.Sprintf("F%d", len(fields))
		fields = append(fields, world.FieldSpec{Name: fn, Type: ft, Tag: fmt.Sprintf(`prefix:"%s"`, pth)})
		bound[fn] = pth
	}
	var extra []any
	var holder any
	if len(fields) > 0 {
		holder = world.NewHolder(world.BuildStruct(fields))
		extra = append(extra, holder)
	}
	// a configured file that does not exist: either the start fails loudly, or - if the container chooses to
	// tolerate it - every other source is still applied
	missingFile := !many && c.Rng.Intn(10) == 0
	if missingFile {
		at := c.Rng.Intn(len(opts) + 1)
		opts = append(opts[:at:at], append([]app.SettingOption{app.SetConfig(filepath.Join(tmpDir, fmt.Sprintf("c15-missing-%d.yaml", c.Index)))}, opts[at:]...)...)
		seqDesc = append(seqDesc, fmt.Sprintf("SetConfig(<missing file>) at position %d", at))
		c.Count("cases_with_a_missing_config_file", 1)
	}
	r := world.Build(&world.Scenario{}, world.Options{Extra: extra, AppOptions: opts})
	probes := 0
	for _, s := range srcs {
		if ll, ok := s.ld.(world.LoggedLoader); ok {
			ll.Core().Log = r.Log
			if c.Rng.Intn(2) == 0 {
				// this loader inspects the configuration loaded so far (reads every path of the final model)
				probePaths := append([]string(nil), paths...)
				ll.Core().Probe = func() {
					for _, pth := range probePaths {
						r.App.Get(pth)
					}
				}
				probes++
			}
		}
	}
	c.Count("probing_loaders", probes)
	r.Go()
	c.Count("starts", 1)
	desc := func() map[string]any {
		var sd []string
		for _, s := range srcs {
			sd = append(sd, fmt.Sprintf("%s kind=%s order=%d via=%s tree=%s", s.label, s.kind, s.ord, s.via, canon(s.tree)))
		}
		var eo []string
		for _, s := range ordered {
			eo = append(eo, s.label)
		}
		return map[string]any{"sources": sd, "options": seqDesc, "model_order": eo, "expected": canon(expected), "outcome": core.Short(r.OutcomeDetail(), 400)}
	}
	knownSeen := false
	report := func(path, msg string) (stop bool) {
		class := classifyC15(srcs, ordered, effective, path)
		if class != "" && core.IsKnown("C15", class) {
			if !knownSeen {
				c.Fail(class, msg, desc())
				knownSeen = true
			}
			return false
		}
		c.Fail(class, msg, desc())
		return true
	}
	if missingFile && r.Outcome() == "error" {
		return // failing loudly is fine
	}
	if r.Outcome() != "ok" {
		// a prefix-bound field may fail to decode when the merge left a value of another type there
		report("", "start with mergeable sources failed: "+core.Short(r.OutcomeDetail(), 300))
		return
	}
	overlap := false
	seenPath := map[string]int{}
	for _, s := range ordered {
		f := map[string]any{}
		flatten("", s.tree, f)
		for k := range f {
			seenPath[k]++
			if seenPath[k] > 1 {
				overlap = true
			}
		}
	}
	for _, pth := range paths {
		var got any
		r.Guard(func() { got = r.App.Get(pth) })
		c.Count("paths_checked", 1)
		if canon(got) != canon(flat[pth]) {
			if report(pth, fmt.Sprintf("path %q: App.Get returns %s, deep merge in contract order gives %s", pth, canon(got), canon(flat[pth]))) {
				return
			}
		}
	}
	var all any
	r.Guard(func() { all = r.App.Get("") })
	if canon(all) != canon(expected) {
		if report("", fmt.Sprintf("whole configuration is %s, expected %s", canon(all), canon(expected))) {
			return
		}
	}
	if holder != nil {
		hv := reflect.ValueOf(holder).Elem()
		for fn, pth := range bound {
			got := hv.FieldByName(fn).Interface()
			if canon(got) != canon(flat[pth]) {
				if report(pth, fmt.Sprintf("prefix-bound field for %q holds %s, expected %s", pth, canon(got), canon(flat[pth]))) {
					return
				}
			}
			c.Count("bound_fields_checked", 1)
		}
	}
	if len(ordered) >= 2 && overlap {
		c.Nontrivial(fmt.Sprint(seqDesc) + canon(expected))
		if c.WantSample() {
			c.Sample(desc())
		}
	}
}

// contractOrder sorts sources the way the statement prescribes (stable for what it leaves open; the
// generator never produces equal orders inside a class).
func contractOrder(eff []*c15Source) []*c15Source {
	rank := func(s *c15Source) int {
		switch s.kind {
		case "file", "priority":
			return 0
		case "ordered":
			return 1
		}
		return 2
	}
	ordered := append([]*c15Source(nil), eff...)
	sort.SliceStable(ordered, func(a, b int) bool {
		ra, rb := rank(ordered[a]), rank(ordered[b])
		if ra != rb {
			return ra < rb
		}
		if ra < 2 {
			return ordered[a].ord < ordered[b].ord
		}
		return false
	})
	return ordered
}

// reinit drives a Configure directly through several rounds of "add sources, Initialize": sources are
// added between initializations (a file found later, a loader contributed by a plug-in). After every
// Initialize the effective configuration must contain every source added so far. The statement does
// not say whether a repeated Initialize starts from scratch or merges on top of what is there, so only
// paths on which both readings agree are asserted.
func (p c15) reinit(c *core.Ctx) {
	tmpDir := filepath.Join(os.Getenv("VERIF_DIR"), ".work", "tmp")
	if os.Getenv("VERIF_DIR") == "" {
		tmpDir = "/verif/.work/tmp"
	}
	os.MkdirAll(tmpDir, 0o755)
	var files []string
	defer func() {
		for _, f := range files {
			os.Remove(f)
		}
	}()
	usedOrd := map[string]bool{}
	haveFile := false
	n := 0
	// every fifth case keeps its configuration in a JSON store (binder.NewViperBinder("json")) fed with JSON
	// documents: sources merge there as they do in the default YAML store
	useJSON := c.Rng.Intn(5) == 0
	storeType := "yaml"
	if useJSON {
		storeType = "json"
		c.Count("cases_with_a_json_store", 1)
	}
	newSource := func() *c15Source {
		s := &c15Source{label: fmt.Sprintf("s%d", n), via: "add"}
		n++
		kinds := []string{"raw", "raw", "args", "ordered", "priority", "file", "file"}
		if useJSON {
			kinds = []string{"raw", "raw", "ordered", "priority"} // (documents in the store's format)
		}
		s.kind = kinds[c.Rng.Intn(len(kinds))]
		if s.kind == "file" && haveFile {
			s.kind = "raw"
		}
		s.tree = genTree(c, 0, s.kind == "args")
		b, _ := marshalDoc(s.tree)
		if useJSON {
			b, _ = json.Marshal(s.tree)
		}
		switch s.kind {
		case "raw":
			s.ld = loader.NewRawLoader(b)
		case "file":
			haveFile = true
			f := filepath.Join(tmpDir, fmt.Sprintf("c15r-%d-%d-%d.yaml", os.Getpid(), c.Index, n))
			os.WriteFile(f, b, 0o644)
			files = append(files, f)
			s.ld = loader.NewFileLoader(f)
			usedOrd["priority0"] = true
		case "args":
			flat := map[string]any{}
			flatten("", s.tree, flat)
			args := []string{"prog"}
			for _, k := range core.SortedKeys(flat) {
				if _, isMap := flat[k].(map[string]any); !isMap {
					args = append(args, fmt.Sprintf("--app.config=%s=%v", k, flat[k]))
				}
			}
			s.ld = loader.NewArgsLoader(args)
		default:
			for {
				s.ord = c.Rng.Intn(9) - 4
				if !usedOrd[fmt.Sprint(s.kind, s.ord)] {
					break
				}
			}
			usedOrd[fmt.Sprint(s.kind, s.ord)] = true
			cl := 1
			if s.kind == "priority" {
				cl = 2
			}
			s.ld = world.NewLoader(cl, s.label, s.ord, b, nil)
		}
		return s
	}
	cfg := configure.NewConfigure()
	cfg.SetBinder(binder.NewViperBinder(storeType))
	var all, applied []*c15Source
	onTop := map[string]any{} // reading 1: every Initialize merges the whole sequence on top of the state
	rounds := 2 + c.Rng.Intn(2)
	var desc []string
	overlap := false
	// a source that has nothing to contribute yet when it is added (its backend is not ready, its file is not
	// written yet) and yields its document from the last round on: it is asked again at every Initialize
	var late *c15Source
	var lateDoc []byte
	if c.Rng.Intn(3) == 0 {
		late = &c15Source{label: "late", via: "add", kind: "ordered", tree: genTree(c, 0, false)}
		for {
			late.ord = c.Rng.Intn(9) - 4
			if !usedOrd[fmt.Sprint(late.kind, late.ord)] {
				break
			}
		}
		usedOrd[fmt.Sprint(late.kind, late.ord)] = true
		lateDoc, _ = marshalDoc(late.tree)
		if useJSON {
			lateDoc, _ = json.Marshal(late.tree)
		}
		late.ld = world.NewLoader(1, "late", late.ord, nil, mon.NewLifecycle()).(configure.Loader)
		cfg.AddLoaders(late.ld)
		c.Count("cases_with_a_source_that_yields_its_document_later", 1)
	}
	for round := 0; round < rounds; round++ {
		if late != nil && round == rounds-1 {
			late.ld.(world.LoggedLoader).Core().Doc = lateDoc
			all = append(all, late)
			desc = append(desc, fmt.Sprintf("round %d: the source added empty before round 0 (order=%d) now yields %s", round, late.ord, canon(late.tree)))
		}
		k := 1 + c.Rng.Intn(3)
		if round == 0 {
			k = c.Rng.Intn(3) // possibly nothing before the first Initialize
		}
		var lds []configure.Loader
		for i := 0; i < k; i++ {
			s := newSource()
			all = append(all, s)
			lds = append(lds, s.ld)
			desc = append(desc, fmt.Sprintf("round %d: %s kind=%s order=%d tree=%s", round, s.label, s.kind, s.ord, canon(s.tree)))
		}
		cfg.AddLoaders(lds...)
		if round > 0 && c.Rng.Intn(3) == 0 {
			// the binder is replaced at run time (another store): the next Initialize fills it from all sources in
			// the loader sequence - nothing of the old store's content is owed to it
			cfg.SetBinder(binder.NewViperBinder(storeType))
			onTop, applied = map[string]any{}, nil
			desc = append(desc, fmt.Sprintf("round %d: binder replaced before Initialize", round))
			c.Count("rounds_with_a_replaced_binder", 1)
		}
		var err error
		func() {
			defer func() {
				if r := recover(); r != nil {
					err = fmt.Errorf("panic: %v", r)
				}
			}()
			err = cfg.Initialize()
		}()
		c.AddEvaluations(1)
		ordered := contractOrder(all)
		applied = append(applied, ordered...)
		fresh := map[string]any{} // reading 2: every Initialize starts from scratch
		for _, s := range ordered {
			modelMerge(fresh, s.tree)
			modelMerge(onTop, s.tree)
		}
		detail := map[string]any{"rounds": desc, "after_round": round, "expected_from_scratch": canon(fresh), "expected_on_top": canon(onTop)}
		if err != nil {
			if class := classifyC15(nil, applied, nil, ""); class != "" {
				c.Fail(class, fmt.Sprintf("Initialize #%d failed: %v", round+1, err), detail)
			} else {
				c.Fail("", fmt.Sprintf("Initialize #%d with mergeable sources failed: %v", round+1, err), detail)
			}
			return
		}
		f1, f2 := map[string]any{}, map[string]any{}
		flatten("", fresh, f1)
		flatten("", onTop, f2)
		seen := map[string]int{}
		for _, s := range ordered {
			fs := map[string]any{}
			flatten("", s.tree, fs)
			for pth := range fs {
				seen[pth]++
				if seen[pth] > 1 {
					overlap = true
				}
			}
		}
		for _, pth := range core.SortedKeys(f1) {
			if v2, ok := f2[pth]; !ok || canon(v2) != canon(f1[pth]) {
				c.Count("reinit_paths_left_open_by_the_statement", 1)
				continue
			}
			got := cfg.Get(pth)
			c.Count("reinit_paths_checked", 1)
			if canon(got) != canon(f1[pth]) {
				class := classifyC15(nil, applied, nil, pth)
				c.Fail(class, fmt.Sprintf("after Initialize #%d: path %q is %s, the merge of all %d sources added so far gives %s", round+1, pth, canon(got), len(all), canon(f1[pth])), detail)
				if class == "" || !core.IsKnown("C15", class) {
					return
				}
			}
		}
	}
	c.Count("reinitialized_configurations", 1)
	if len(all) >= 2 && overlap {
		c.Nontrivial("reinit:" + strings.Join(desc, ";"))
	}
}

// classifyC15 decides on the input: (a) sources installed with AddConfigLoader after earlier
// sources existed; (b) a path where an earlier source (contract order) supplies a mapping and a
// later one a non-mapping.
func classifyC15(srcs, ordered, effective []*c15Source, path string) string {
	for i, a := range ordered {
		fa := map[string]any{}
		flatten("", a.tree, fa)
		for j := i + 1; j < len(ordered); j++ {
			fb := map[string]any{}
			flatten("", ordered[j].tree, fb)
			for k, va := range fa {
				vb, ok := fb[k]
				if !ok {
					continue
				}
				_, am := va.(map[string]any)
				_, bm := vb.(map[string]any)
				if am && !bm && (path == "" || path == k || strings.HasPrefix(path, k+".") || strings.HasPrefix(k, path+".")) {
					return "F-C15-mapping-then-scalar"
				}
			}
		}
	}
	return ""
}
