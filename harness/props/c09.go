package props

import (
	"fmt"
	"reflect"
	"strings"

	"github.com/go-kid/ioc/configure"
	"github.com/go-kid/ioc/configure/loader"
	"verifharness/core"
	"verifharness/world"
)

// C09 Unsatisfied required points fail start-up cleanly; optional ones never do.
type c09 struct{}

func init() { core.Register(c09{}) }

func (c09) ID() string    { return "C09" }
func (c09) Level() string { return "fault_enumeration" }
func (c09) Rule() string {
	return "per seeded scenario (satisfiable graph with cycles, lazy components, config-bound fields, optional unsatisfiable component and config points, 1-2 logging user post-processors, runners, 1-2 loaders, a harness scanner and a harness factory post-processor): the fault-free baseline must start, leave every optional unsatisfiable field at its zero value and run every runner; then EVERY single fault site of the scenario is injected, one start each: each required component point (retargeted to an absent name / impossible qualifier), each required value/prefix (key removed), each Init, each AfterPropertiesSet, each callback kind {before-instantiation, after-instantiation, properties, early-reference, before-init, after-init} of each user post-processor x component, the factory post-processor, the scanner x component (and the scanner failing for two / for all components in one pass), each loader (error / invalid YAML), each runner; plus seeded pairs. Oracle per faulted start: reached fault (model: the component is certainly created; for early-reference callbacks: the callback was observed) => App.Run returns an error, no panic, no divergence (step budgets), and no runner event for faults before the runner phase (runner faults: exactly the runners sorted before it ran); unreached fault (component certainly not created) => the start succeeds. distinct_nontrivial = distinct (site kind, component palette type, depth of the component in the creation stack when the fault fired); faults inside components reached only through swallowed Init lookups; optional unconfigured configuration points of pointer / duration / map / struct types stay untouched; misfit family (component replaced by another type vs. concrete-typed points: error / untouched, never a panic); mix-in family; arrays family (array-typed points: error / untouched, never a panic); cyclicConfig family; required points spelled out (required, required=TRUE/1/yes) under faults; fault error kinds (ordinary, value-typed, Cause()-less application error, context.Canceled); (nil, err) answers of post-processor callbacks; namedMisfit family; suppliedFault family (an after-initialization fault on a component supplied before instantiation); oddKinds family (wiring tags on fields of kinds nothing fits); needyProcessor family (an eager component post-processor with a required point of its own)"
}
func (c09) Assumptions() []string {
	return []string{
		"reachedness of a component-located fault comes from the reference model (certainly created / certainly not created); faults in components that only a tie may reach are counted as ambiguous and not judged",
		"every single site of each scenario is injected; pairs are sampled (seeded)",
	}
}
func (c09) NumCases(tier string) int      { return tierN(tier, 400, 12000) }
func (c09) MinNontrivial(tier string) int { return tierN(tier, 20, 40) }
func (c09) ExhaustiveNote(tier string) (bool, string) {
	return false, "per scenario every single fault site is injected (complete enumeration of single faults); scenarios and fault pairs are sampled"
}

type fault struct {
	Kind string // point | cfg | init | aps | pp | factorypp | scanner | loader-err | loader-yaml | runner
	Node int
	Slot string
	PP   int
	CB   string
}

func (f fault) String() string {
	return fmt.Sprintf("%s(node=%d slot=%s pp=%d cb=%s)", f.Kind, f.Node, f.Slot, f.PP, f.CB)
}

type c09World struct {
	sc      *world.Scenario
	npp     int
	nld     int
	optComp map[int][]string // node -> optional unsatisfiable component slots
	optCfg  map[int][]string
}

var ppKinds = []string{"before-inst", "after-inst", "properties", "early", "before", "after"}

// misfit: a post-processor replaces a component by an object of another type; a point that declares the
// component's concrete type (by name or by type, single or slice) can then not be satisfied by it. Run
// must not panic: a required point fails the start with an error and no runner runs, an optional point
// stays at its zero value.
func (p c09) misfit(c *core.Ctx) {
	g := world.NewG(c.Rng)
	tt := []int{0, 1, 3, 6}[c.Rng.Intn(4)] // eager plain types implementing IA
	target := g.AddNode(tt, g.FreshName(0))
	holder := g.AddNode(world.TypesEagerPlain[c.Rng.Intn(len(world.TypesEagerPlain))], g.FreshName(1))
	runner := g.AddNode(world.TypesRunner[c.Rng.Intn(len(world.TypesRunner))], g.FreshName(2))
	_ = runner
	optional := c.Rng.Intn(2) == 0
	args := ""
	if optional {
		args = ",required=false"
	}
	slot := fmt.Sprintf("P%02d", tt)
	kind := c.Rng.Intn(3)
	switch kind {
	case 0: // by name, concrete pointer type
		g.SetTag(holder, slot, "wire", g.Sc.Nodes[target].DisplayName()+args)
	case 1: // by type, concrete pointer type
		g.SetTag(holder, slot, "wire", args)
	default: // slice of the concrete pointer type
		slot = fmt.Sprintf("SP%02d", tt)
		if world.SlotByName(slot).Name == "" {
			slot = fmt.Sprintf("P%02d", tt)
			g.SetTag(holder, slot, "wire", args)
		} else {
			g.SetTag(holder, slot, "wire", args)
		}
	}
	// an interface-typed point at the same component is fine with the wrapper
	other := g.AddNode(world.TypesEagerPlain[c.Rng.Intn(len(world.TypesEagerPlain))], g.FreshName(3))
	g.SetTag(other, "IA0", "wire", g.Sc.Nodes[target].DisplayName())
	g.ShuffleOrders()
	plan := map[string]world.SubPlan{g.Sc.Nodes[target].DisplayName(): []world.SubPlan{{After: true}, {Before: true}, {Early: true, After: true, Same: true}}[c.Rng.Intn(3)]}
	r := world.Start(g.Sc, world.Options{Extra: []any{world.NewSubstituter(plan)}})
	c.Count("starts", 1)
	c.Count("misfit_starts", 1)
	detail := failDetail(g.Sc, r, map[string]any{"plan": plan, "point": slot, "optional": optional})
	if abnormal(r.Outcome()) {
		c.Fail("", fmt.Sprintf("a point of concrete type %s cannot hold the wrapper a post-processor put in the component's place: %s", slot, core.Short(r.OutcomeDetail(), 300)), detail)
		return
	}
	runs := countEvents(r, "run")
	if r.Outcome() == "error" {
		if runs != 0 {
			c.Fail("", fmt.Sprintf("Run returned an error but %d runner(s) were invoked", runs), detail)
			return
		}
	} else {
		refs, _ := r.SlotRefs(r.Nodes[holder], slot)
		for _, ref := range refs {
			if !ref.Nil && ref.Wrap != nil {
				c.Fail("", "a wrapper of another type was stored in a field of the concrete type", detail)
				return
			}
		}
		if !optional {
			// a required point may legitimately be satisfied when the holder received the component before
			// it was replaced (then the start fails later with the stale-version error) - a successful start
			// with a required concrete point needs a value in it
			empty := len(refs) == 0
			for _, ref := range refs {
				if ref.Nil {
					empty = true
				}
			}
			if empty {
				c.Fail("", "start succeeded although the required point of concrete type is empty", detail)
				return
			}
		}
	}
	c.Nontrivial(fmt.Sprintf("misfit|%d|%v|%v|%s", kind, optional, plan, r.Outcome()))
}

// namedMisfit: a by-name point names a registered component whose type does not fit the field, while other
// components that would fit are registered under other names: the point is unsatisfiable (it asked for that
// name) - required: the start fails and no runner runs; optional: it stays empty.
func (p c09) namedMisfit(c *core.Ctx) {
	g := world.NewG(c.Rng)
	g.AddNode([]int{2, 13}[c.Rng.Intn(2)], "b-thing") // an IB that is no IA
	for x, nx := 0, 1+c.Rng.Intn(3); x < nx; x++ {
		g.AddNode([]int{0, 1, 3, 6}[c.Rng.Intn(4)], g.FreshName(x)) // IAs under other names
	}
	h := g.AddNode(world.TypesEagerPlain[c.Rng.Intn(len(world.TypesEagerPlain))], g.FreshName(8))
	g.AddNode(world.TypesRunner[c.Rng.Intn(len(world.TypesRunner))], g.FreshName(9))
	optional := c.Rng.Intn(2) == 0
	slot := []string{"IA0", "IA1", "P00"}[c.Rng.Intn(3)]
	tag := "b-thing"
	if optional {
		tag += ",required=false"
	}
	g.SetTag(h, slot, "wire", tag)
	g.ShuffleOrders()
	r := world.Start(g.Sc, world.Options{})
	c.Count("starts", 1)
	c.Count("named_misfit_starts", 1)
	detail := failDetail(g.Sc, r, map[string]any{"slot": slot, "optional": optional})
	if abnormal(r.Outcome()) {
		c.Fail("", "by-name point naming a component of an unfit type: "+core.Short(r.OutcomeDetail(), 300), detail)
		return
	}
	refs, _ := r.SlotRefs(r.Nodes[h], slot)
	filled := len(refs) == 1 && !refs[0].Nil
	runs := countEvents(r, "run")
	if optional {
		if r.Outcome() != "ok" || filled {
			c.Fail("", fmt.Sprintf("optional point %s `wire:%q`: the named component does not fit the field; outcome %s, field filled: %v (expected a successful start and an empty field)", slot, tag, r.Outcome(), filled), detail)
			return
		}
	} else if r.Outcome() != "error" || runs != 0 {
		c.Fail("", fmt.Sprintf("required point %s `wire:%q`: the named component does not fit the field (others that would fit carry other names), but App.Run returned %s, %d runner(s) ran, field filled: %v", slot, tag, r.Outcome(), runs, filled), detail)
		return
	}
	c.Nontrivial(fmt.Sprintf("namedmisfit|%s|%v|%s", slot, optional, g.Sc.GraphSig()))
}

// mixin: required points that a component takes from a package-private embedded mix-in fail the start
// like any other required point.
func (p c09) mixin(c *core.Ctx) {
	g := world.NewG(c.Rng)
	variant := c.Rng.Intn(3) // 0: everything present, 1: the named component is missing, 2: the key is missing
	if variant != 1 {
		g.AddNode([]int{8, 1, 0}[c.Rng.Intn(3)], "mix-dep")
	}
	g.AddNode(world.TypesRunner[c.Rng.Intn(len(world.TypesRunner))], g.FreshName(1))
	g.ShuffleOrders()
	if variant != 2 {
		g.Sc.Config = "mix:\n  key: v\n"
	} else {
		g.Sc.Config = "mix:\n  other: v\n"
	}
	h := &world.MixinHolder{}
	r := world.Start(g.Sc, world.Options{Extra: []any{h}})
	c.Count("starts", 1)
	c.Count("mixin_starts", 1)
	detail := failDetail(g.Sc, r, map[string]any{"variant (0 satisfiable, 1 component missing, 2 key missing)": variant})
	if abnormal(r.Outcome()) {
		c.Fail("", "component with an embedded package-private mix-in: "+core.Short(r.OutcomeDetail(), 300), detail)
		return
	}
	runs := countEvents(r, "run")
	if variant == 0 {
		if r.Outcome() != "ok" || h.Dep == nil || h.Cfg != "v" || h.Opt != nil {
			c.Fail("", fmt.Sprintf("satisfiable mix-in points: outcome %s, Dep set=%v Cfg=%q Opt nil=%v", r.Outcome(), h.Dep != nil, h.Cfg, h.Opt == nil), detail)
			return
		}
	} else if r.Outcome() != "error" || runs != 0 {
		c.Fail("", fmt.Sprintf("a required point inside an embedded package-private mix-in cannot be satisfied, but App.Run returned %s and %d runner(s) ran", r.Outcome(), runs), detail)
		return
	}
	c.Nontrivial(fmt.Sprintf("mixin|%d|%s", variant, g.Sc.GraphSig()))
}

// factoryAware: an ordinary eager component that additionally implements ComponentFactoryPostProcessor or
// DefinitionRegistryPostProcessor is a component like any other: an unsatisfiable required point, a missing
// required value or a failing Init of it fails the start, and no runner runs.
func (p c09) factoryAware(c *core.Ctx) {
	g := world.NewG(c.Rng)
	variant := c.Rng.Intn(4) // 0: satisfiable, 1: the named component is missing, 2: the key is missing, 3: Init fails
	if variant != 1 {
		g.AddNode([]int{8, 1, 0}[c.Rng.Intn(3)], "needy-dep")
	}
	g.AddNode(world.TypesRunner[c.Rng.Intn(len(world.TypesRunner))], g.FreshName(len(g.Sc.Nodes)))
	for x := 0; x < c.Rng.Intn(3); x++ {
		g.AddRandomNode(world.TypesEagerPlain, 0.2)
	}
	g.ShuffleOrders()
	if variant != 2 {
		g.Sc.Config = "needy:\n  key: v\n"
	} else {
		g.Sc.Config = "needy:\n  other: v\n"
	}
	var h any
	var core_ *world.NeedyCore
	if c.Rng.Intn(2) == 0 {
		x := &world.NeedyFactoryAware{}
		h, core_ = x, &x.NeedyCore
	} else {
		x := &world.NeedyRegistryAware{}
		h, core_ = x, &x.NeedyCore
	}
	core_.FailInit = variant == 3
	r := world.Start(g.Sc, world.Options{Extra: []any{h}})
	c.Count("starts", 1)
	c.Count("factory_aware_component_starts", 1)
	detail := failDetail(g.Sc, r, map[string]any{"variant (0 satisfiable, 1 component missing, 2 key missing, 3 Init fails)": variant, "component": fmt.Sprintf("%T", h)})
	if abnormal(r.Outcome()) {
		c.Fail("", fmt.Sprintf("%T: %s", h, core.Short(r.OutcomeDetail(), 300)), detail)
		return
	}
	runs := countEvents(r, "run")
	if variant == 0 {
		if r.Outcome() != "ok" || core_.Req == nil || core_.Cfg != "v" || core_.Inits != 1 {
			c.Fail("", fmt.Sprintf("%T with satisfiable points: outcome %s, Req set=%v Cfg=%q Init ran %d time(s)", h, r.Outcome(), core_.Req != nil, core_.Cfg, core_.Inits), detail)
			return
		}
	} else if r.Outcome() != "error" || runs != 0 {
		c.Fail("", fmt.Sprintf("%T (an eager component) has an unsatisfiable required point / missing required value / failing Init (variant %d), but App.Run returned %s and %d runner(s) ran", h, variant, r.Outcome(), runs), detail)
		return
	}
	c.Nontrivial(fmt.Sprintf("factoryaware|%d|%T|%s", variant, h, g.Sc.GraphSig()))
}

// optionalSelectors: optional points whose key (or name) is assembled with a placeholder that resolves to
// nothing - the key then has an empty segment and cannot be found: the fields stay zero and the start
// succeeds; with the selector configured the same points are bound.
func (p c09) optionalSelectors(c *core.Ctx) {
	g := world.NewG(c.Rng)
	g.AddNode([]int{0, 1, 3}[c.Rng.Intn(3)], "mailer-dev")
	g.AddNode(world.TypesRunner[c.Rng.Intn(len(world.TypesRunner))], g.FreshName(1))
	g.ShuffleOrders()
	configured := c.Rng.Intn(3) == 0
	g.Sc.Config = "svc:\n  dev:\n    url: u-dev\n    timeout: 30\nmailer:\n  dev: mailer-dev\n"
	if configured {
		g.Sc.Config += "sel: dev\n"
	}
	forms := [][3]string{
		{`value:"${svc.${sel}.url},required=false"`, `prop:"svc.${sel}.timeout,required=false"`, `wire:"${mailer.${sel}},required=false"`},
		{`value:"${svc.${sel}.url:},required=false"`, `value:"${svc.${sel}.timeout},required=false"`, `wire:"${mailer.${sel}:},required=false"`},
		{`prop:"svc.${sel}.url,required=false"`, `prefix:"svc.${sel}.timeout,required=false"`, `wire:"${mailer.${sel}},required=false"`},
		{`value:"${${sel}.url},required=false"`, `prop:"${sel}.timeout,required=false"`, `wire:"${mailer.${sel}},required=false"`},
	}
	f := forms[c.Rng.Intn(len(forms))]
	if f[0] == forms[3][0] && configured {
		g.Sc.Config += "dev:\n  url: u-dev\n  timeout: 30\n"
	}
	h := world.NewHolder(world.BuildStruct([]world.FieldSpec{
		{Name: "URL", Type: reflect.TypeOf(""), Tag: f[0]},
		{Name: "Timeout", Type: reflect.TypeOf(0), Tag: f[1]},
		{Name: "Mailer", Type: world.TypeIA, Tag: f[2]},
	}))
	r := world.Start(g.Sc, world.Options{Extra: []any{h}})
	c.Count("starts", 1)
	c.Count("optional_selector_starts", 1)
	hv := reflect.ValueOf(h).Elem()
	detail := failDetail(g.Sc, r, map[string]any{"tags": f, "selector_configured": configured, "fields": fmt.Sprintf("%+v", hv.Interface())})
	if r.Outcome() != "ok" {
		c.Fail("", fmt.Sprintf("optional points %v (selector configured: %v): App.Run %s", f, configured, core.Short(r.OutcomeDetail(), 300)), detail)
		return
	}
	if runs := countEvents(r, "run"); runs != 1 {
		c.Fail("", fmt.Sprintf("optional points %v: start succeeded but %d runner(s) ran", f, runs), detail)
		return
	}
	if !configured {
		// (the wire point's name resolves to the empty name: it is then a by-type point and may be satisfied)
		if !hv.Field(0).IsZero() || !hv.Field(1).IsZero() {
			c.Fail("", fmt.Sprintf("optional points %v with an unconfigured selector: fields were written: %+v", f, hv.Interface()), detail)
			return
		}
	} else if hv.Field(0).String() != "u-dev" || hv.Field(1).Int() != 30 || hv.Field(2).IsNil() {
		c.Fail("", fmt.Sprintf("optional points %v with the selector configured: fields hold %+v", f, hv.Interface()), detail)
		return
	}
	c.Nontrivial(fmt.Sprintf("optsel|%v|%v|%s", f, configured, g.Sc.GraphSig()))
}

// arrays: an array-typed point ([2]I, [3]*T) can never be satisfied - the container fills slices, pointers
// and interfaces. Required: Run returns an error; optional: the array stays zero. Never a panic, whether
// matching components are registered or not.
func (p c09) arrays(c *core.Ctx) {
	g := world.NewG(c.Rng)
	for x := 0; x < c.Rng.Intn(4); x++ { // 0..3 components that would fit the element type
		g.AddNode([]int{0, 1, 3}[c.Rng.Intn(3)], g.FreshName(x))
	}
	g.AddNode(world.TypesRunner[c.Rng.Intn(len(world.TypesRunner))], g.FreshName(9))
	g.ShuffleOrders()
	optional := c.Rng.Intn(2) == 0
	args := ""
	if optional {
		args = ",required=false"
	}
	var ft reflect.Type
	switch c.Rng.Intn(3) {
	case 0:
		ft = reflect.ArrayOf(2, world.TypeIA)
	case 1:
		ft = reflect.ArrayOf(3, reflect.TypeOf(world.Palette[0].New()))
	default:
		ft = reflect.ArrayOf(1, world.TypeAny)
	}
	tag := world.WireTag("wire", args)
	if c.Rng.Intn(4) == 0 {
		tag = world.WireTag("func", "A"+args)
	}
	h := world.NewHolder(world.BuildStruct([]world.FieldSpec{{Name: "Arr", Type: ft, Tag: tag}, {Name: "Ok", Type: world.TypeAny, Tag: world.WireTag("wire", ",required=false")}}))
	r := world.Start(g.Sc, world.Options{Extra: []any{h}})
	c.Count("starts", 1)
	c.Count("array_point_starts", 1)
	detail := failDetail(g.Sc, r, map[string]any{"field": ft.String() + " `" + tag + "`"})
	if abnormal(r.Outcome()) {
		c.Fail("", fmt.Sprintf("array-typed point %s `%s`: %s", ft, tag, core.Short(r.OutcomeDetail(), 300)), detail)
		return
	}
	runs := countEvents(r, "run")
	if optional {
		if r.Outcome() != "ok" || !reflect.ValueOf(h).Elem().Field(0).IsZero() {
			c.Fail("", fmt.Sprintf("optional array-typed point %s `%s`: outcome %s, field zero=%v", ft, tag, r.Outcome(), reflect.ValueOf(h).Elem().Field(0).IsZero()), detail)
			return
		}
	} else if r.Outcome() != "error" || runs != 0 {
		c.Fail("", fmt.Sprintf("required array-typed point %s `%s` cannot be satisfied, but App.Run returned %s and %d runner(s) ran", ft, tag, r.Outcome(), runs), detail)
		return
	}
	c.Nontrivial(fmt.Sprintf("arrays|%s|%s|%d", ft, tag, len(g.Sc.Nodes)))
}

// cyclicConfig: a required configuration value that cannot be resolved because its key sits on a cycle
// of placeholders - of any shape, also one that passes through a plain value on every round - makes Run
// return an error; it does not hang and no runner runs.
func (p c09) cyclicConfig(c *core.Ctx) {
	docs := []string{
		"a: \"${b}\"\nb: \"${a}\"\n",
		"a: \"${scheme}${fallback}\"\nfallback: \"${a}\"\nscheme: \"tcp:\"\n",
		"a: \"x${b}\"\nb: \"${c}y\"\nc: \"${a}\"\n",
		"a: \"${plain}${a}\"\nplain: p\n",
		"a: \"${b}\"\nb: \"${p1}${c}\"\nc: \"${p2}${a}\"\np1: one\np2: 2\n",
		"a: \"${a}\"\n",
	}
	doc := docs[c.Rng.Intn(len(docs))]
	tag := []string{`value:"${a}"`, `value:"pre-${a}"`, `prop:"a"`, `value:"${plain:q}${a}"`}[c.Rng.Intn(4)]
	g := world.NewG(c.Rng)
	g.AddNode(world.TypesRunner[c.Rng.Intn(len(world.TypesRunner))], g.FreshName(0))
	g.Sc.Config = doc
	h := world.NewHolder(world.BuildStruct([]world.FieldSpec{{Name: "F", Type: reflect.TypeOf(""), Tag: tag}}))
	r := world.Start(g.Sc, world.Options{Extra: []any{h}, NoTracer: true, BinderBudget: 20000})
	c.Count("starts", 1)
	c.Count("cyclic_config_starts", 1)
	detail := map[string]any{"config": doc, "tag": tag, "outcome": core.Short(r.OutcomeDetail(), 300)}
	switch r.Outcome() {
	case "diverged", "stalled":
		c.Fail("", fmt.Sprintf("required value %s over a circular configuration: App.Run does not return (%s)", tag, core.Short(r.OutcomeDetail(), 200)), detail)
		return
	case "panic":
		c.Fail("", fmt.Sprintf("required value %s over a circular configuration: panic escaped App.Run: %v", tag, r.Panic), detail)
		return
	case "ok":
		c.Fail("", fmt.Sprintf("required value %s over a circular configuration cannot be resolved, but App.Run returned nil (field %q)", tag, reflect.ValueOf(h).Elem().Field(0).String()), detail)
		return
	}
	if runs := countEvents(r, "run"); runs != 0 {
		c.Fail("", fmt.Sprintf("Run returned an error but %d runner(s) were invoked", runs), detail)
		return
	}
	c.Nontrivial("cyclic|" + doc + tag)
}

// suppliedFault: a component that a post-processor supplies ready-made before instantiation still passes the
// after-initialization callbacks; when one of them reports an error for it, the start fails like for any
// component - and no runner runs.
func (p c09) suppliedFault(c *core.Ctx) {
	g := world.NewG(c.Rng)
	t := g.AddNode([]int{0, 1, 3, 6, 12}[c.Rng.Intn(5)], g.FreshName(0))
	g.AddNode(world.TypesRunner[c.Rng.Intn(len(world.TypesRunner))], g.FreshName(1))
	for x := 0; x < 1+c.Rng.Intn(3); x++ {
		k := g.AddRandomNode(world.TypesEagerPlain, 0.2)
		if c.Rng.Intn(2) == 0 {
			g.EdgeByName(k, t, "", "iface")
		}
	}
	g.ShuffleOrders()
	tn := g.Sc.Nodes[t].DisplayName()
	npp := 1 + c.Rng.Intn(3)
	var extra []any
	for k := 0; k < npp; k++ {
		extra = append(extra, world.NewPP(c.Rng.Intn(4), fmt.Sprintf("pp%d", k), c.Rng.Intn(5)-2))
	}
	world.PPCoreOf(extra[c.Rng.Intn(npp)]).Supply = tn
	faulty := c.Rng.Intn(3) != 0
	if faulty {
		fp := world.PPCoreOf(extra[c.Rng.Intn(npp)])
		fp.FailOn["after:"+tn] = true
		fp.NilOnFail = c.Rng.Intn(2) == 0
	}
	r := world.Start(g.Sc, world.Options{Extra: extra})
	c.Count("starts", 1)
	c.Count("supplied_component_starts", 1)
	detail := failDetail(g.Sc, r, map[string]any{"supplied": tn, "after_initialization_fault": faulty})
	if abnormal(r.Outcome()) {
		c.Fail("", "supplied component: "+core.Short(r.OutcomeDetail(), 300), detail)
		return
	}
	runs := countEvents(r, "run")
	if !faulty {
		if r.Outcome() != "ok" {
			c.Fail("", "supplied component without any fault: "+core.Short(r.OutcomeDetail(), 300), detail)
			return
		}
	} else if r.Outcome() != "error" || runs != 0 {
		c.Fail("", fmt.Sprintf("an after-initialization callback reported an error for %q (a component supplied by a post-processor before instantiation), but App.Run returned %s and %d runner(s) ran", tn, r.Outcome(), runs), detail)
		return
	}
	c.Nontrivial(fmt.Sprintf("suppliedfault|%v|%s", faulty, g.Sc.GraphSig()))
}

// oddKinds: wiring tags on fields that no component can ever fit - a struct held by value, a func, an int, a map:
// a required one is an unsatisfied required point (a clean error, no panic), an optional one stays at its zero
// value and the start succeeds.
func (p c09) oddKinds(c *core.Ctx) {
	g := world.NewG(c.Rng)
	g.AddNode(world.TypesRunner[c.Rng.Intn(len(world.TypesRunner))], g.FreshName(0))
	for x := 0; x < 1+c.Rng.Intn(3); x++ {
		g.AddRandomNode(world.TypesEagerPlain, 0.2)
	}
	g.ShuffleOrders()
	kinds := []struct {
		label string
		t     reflect.Type
	}{
		{"struct held by value", reflect.TypeOf(world.PoolCfg{})},
		{"func", reflect.TypeOf(func() {})},
		{"int", reflect.TypeOf(0)},
		{"string", reflect.TypeOf("")},
		{"map", reflect.TypeOf(map[string]world.IA{})},
		{"pointer to pointer", reflect.TypeOf((**world.PoolCfg)(nil))},
		{"channel", reflect.TypeOf((chan world.IA)(nil))},
	}
	k := kinds[c.Rng.Intn(len(kinds))]
	required := c.Rng.Intn(2) == 0
	name := []string{"", "", "no-such-component", g.Sc.Nodes[len(g.Sc.Nodes)-1].DisplayName()}[c.Rng.Intn(4)]
	tagName := []string{"wire", "wire", "func"}[c.Rng.Intn(3)]
	tag := name
	if !required {
		tag += ",required=false"
	}
	fields := []world.FieldSpec{{Name: "Odd", Type: k.t, Tag: world.WireTag(tagName, tag)}, {Name: "Fine", Type: world.TypeAny, Tag: `wire:",required=false"`}}
	if c.Rng.Intn(2) == 0 {
		fields[0], fields[1] = fields[1], fields[0]
	}
	h := world.NewHolder(world.BuildStruct(fields))
	r := world.Start(g.Sc, world.Options{Extra: []any{h}})
	c.Count("starts", 1)
	c.Count("odd_kind_point_starts", 1)
	detail := failDetail(g.Sc, r, map[string]any{"field": fmt.Sprintf("Odd %s `%s`", k.t, world.WireTag(tagName, tag))})
	if abnormal(r.Outcome()) {
		c.Fail("", fmt.Sprintf("a %s point on a field of kind %s (required=%v): %s", tagName, k.label, required, core.Short(r.OutcomeDetail(), 300)), detail)
		return
	}
	runs := countEvents(r, "run")
	odd := reflect.ValueOf(h).Elem().FieldByName("Odd")
	if required {
		if r.Outcome() != "error" || runs != 0 {
			c.Fail("", fmt.Sprintf("required %s point on a field of kind %s that nothing fits: App.Run returned %s, %d runner(s) ran", tagName, k.label, r.Outcome(), runs), detail)
			return
		}
	} else if r.Outcome() != "ok" || !odd.IsZero() {
		c.Fail("", fmt.Sprintf("optional %s point on a field of kind %s that nothing fits: App.Run returned %s, field zero=%v: %s", tagName, k.label, r.Outcome(), odd.IsZero(), core.Short(r.OutcomeDetail(), 200)), detail)
		return
	}
	c.Nontrivial(fmt.Sprintf("oddkind|%s|%s|%v|%s", k.label, tagName, required, name))
}

// needyProcessor: an eager component post-processor with a required point of its own: unsatisfiable -> the start
// fails and no runner runs, whatever order the registry lists the processors in.
func (p c09) needyProcessor(c *core.Ctx) {
	g := world.NewG(c.Rng)
	present := c.Rng.Intn(3) == 0
	if present {
		g.AddNode([]int{0, 1, 3}[c.Rng.Intn(3)], "needy-dep")
	}
	g.AddNode(world.TypesRunner[c.Rng.Intn(len(world.TypesRunner))], g.FreshName(len(g.Sc.Nodes)))
	for x := 0; x < c.Rng.Intn(3); x++ {
		g.AddRandomNode(world.TypesEagerPlain, 0.2)
	}
	g.ShuffleOrders()
	var pp any
	var core_ *world.NeedyPP
	if c.Rng.Intn(2) == 0 {
		x := &world.NeedyPP{Nm: "needy-pp"}
		pp, core_ = x, x
	} else {
		x := &world.NeedyPPOrdered{NeedyPP: world.NeedyPP{Nm: "needy-pp"}}
		pp, core_ = x, &x.NeedyPP
	}
	extra := []any{pp}
	for k, n := 0, c.Rng.Intn(3); k < n; k++ {
		extra = append(extra, world.NewPP(c.Rng.Intn(4), fmt.Sprintf("pp%d", k), c.Rng.Intn(5)-2))
	}
	c.Rng.Shuffle(len(extra), func(a, b int) { extra[a], extra[b] = extra[b], extra[a] })
	opts := world.Options{Extra: extra}
	if c.Rng.Intn(2) == 0 {
		opts = world.Options{ExtraFirst: extra}
	}
	r := world.Start(g.Sc, opts)
	c.Count("starts", 1)
	c.Count("needy_processor_starts", 1)
	detail := failDetail(g.Sc, r, map[string]any{"needy-dep registered": present, "processor": fmt.Sprintf("%T", pp)})
	if abnormal(r.Outcome()) {
		c.Fail("", fmt.Sprintf("%T: %s", pp, core.Short(r.OutcomeDetail(), 300)), detail)
		return
	}
	runs := countEvents(r, "run")
	if present {
		if r.Outcome() != "ok" || core_.Req == nil {
			c.Fail("", fmt.Sprintf("%T with a satisfiable required point: outcome %s, point set: %v", pp, r.Outcome(), core_.Req != nil), detail)
			return
		}
	} else if r.Outcome() != "error" || runs != 0 {
		c.Fail("", fmt.Sprintf("%T (an eager component post-processor) has an unsatisfiable required point `wire:\"needy-dep\"`, but App.Run returned %s and %d runner(s) ran", pp, r.Outcome(), runs), detail)
		return
	}
	c.Nontrivial(fmt.Sprintf("needyprocessor|%v|%T|%s", present, pp, g.Sc.GraphSig()))
}

func (p c09) Run(c *core.Ctx) {
	if c.Index%20 == 18 {
		p.needyProcessor(c)
		return
	}
	if c.Index%20 == 6 {
		p.suppliedFault(c)
		return
	}
	if c.Index%20 == 13 {
		p.oddKinds(c)
		return
	}
	if c.Index%20 == 11 {
		p.factoryAware(c)
		return
	}
	if c.Index%20 == 1 {
		p.optionalSelectors(c)
		return
	}
	if c.Index%20 == 16 {
		p.namedMisfit(c)
		return
	}
	if c.Index%5 == 4 {
		p.misfit(c)
		return
	}
	if c.Index%5 == 2 && c.Index%2 == 0 {
		p.mixin(c)
		return
	}
	if c.Index%5 == 2 && c.Index%4 == 1 {
		p.arrays(c)
		return
	}
	if c.Index%5 == 2 && c.Index%4 == 3 {
		p.cyclicConfig(c)
		return
	}
	sc := RandomGraph(c.Rng, GraphOpts{MinN: 2, MaxN: 9, Types: world.TypesAll, PCycle: 0.6, Chords: 2,
		ByTypeSlice: 0.15, QualSlice: 0.15, ByTypeUniq: 0.2, PUnnamed: 0.3})
	w := &c09World{sc: sc, npp: 1 + c.Rng.Intn(2), nld: 1 + c.Rng.Intn(2), optComp: map[int][]string{}, optCfg: map[int][]string{}}
	g := &world.G{Rng: c.Rng, Sc: sc}
	for i := range sc.Nodes {
		if c.Rng.Intn(2) == 0 {
			sc.Nodes[i].Cfg = map[string]world.TagSpec{}
			switch c.Rng.Intn(3) {
			case 0:
				sc.Nodes[i].Cfg["CfgS"] = world.TagSpec{Tag: "value", Val: "${f.s}"}
			case 1:
				sc.Nodes[i].Cfg["CfgI"] = world.TagSpec{Tag: "prefix", Val: "f.i"}
			case 2:
				sc.Nodes[i].Cfg["CfgS"] = world.TagSpec{Tag: "value", Val: "${f.s}"}
				sc.Nodes[i].Cfg["CfgL"] = world.TagSpec{Tag: "prefix", Val: "f.l"}
			}
		}
		// optional points that cannot be satisfied
		if c.Rng.Intn(3) == 0 {
			free := g.FreeSlots(i, func(si world.SlotInfo) bool { return true })
			if len(free) > 0 {
				s := free[c.Rng.Intn(len(free))]
				si := world.SlotByName(s)
				val := "no-such-component,required=false"
				if strings.HasPrefix(si.Kind, "slice") {
					val = ",qualifier=no-such-group,required=false"
				}
				g.SetTag(i, s, "wire", val)
				w.optComp[i] = append(w.optComp[i], s)
			}
		}
		if c.Rng.Intn(3) == 0 {
			if sc.Nodes[i].Cfg == nil {
				sc.Nodes[i].Cfg = map[string]world.TagSpec{}
			}
			// an optional configuration point whose key is not configured, on every kind of target
			// (int, list, duration, pointer, map, struct): the field must stay at its zero value
			cf := []string{"CfgI", "CfgL", "CfgD", "CfgP", "CfgM", "CfgT"}[c.Rng.Intn(6)]
			if _, used := sc.Nodes[i].Cfg[cf]; !used {
				switch c.Rng.Intn(3) {
				case 0:
					sc.Nodes[i].Cfg[cf] = world.TagSpec{Tag: "value", Val: "${f.absent},required=false"}
				case 1:
					sc.Nodes[i].Cfg[cf] = world.TagSpec{Tag: "value", Val: "${f.absent:},Required=false"}
				default:
					sc.Nodes[i].Cfg[cf] = world.TagSpec{Tag: "prefix", Val: "f.absent,required=false"}
				}
				w.optCfg[i] = append(w.optCfg[i], cf)
			}
		}
	}
	// required points spelled out in the ways that do not say "false": still required
	spelled := 0
	variants := []string{",required", ",required=true", ",required=TRUE", ",required=1", ",required=yes", ",Required"}
	for i := range sc.Nodes {
		for slot, ts := range sc.Nodes[i].Tags {
			if !strings.Contains(strings.ToLower(ts.Val), "required") && c.Rng.Intn(4) == 0 {
				ts.Val += variants[c.Rng.Intn(len(variants))]
				sc.Nodes[i].Tags[slot] = ts
				spelled++
			}
		}
		for slot, ts := range sc.Nodes[i].Cfg {
			if !strings.Contains(strings.ToLower(ts.Val), "required") && c.Rng.Intn(4) == 0 {
				ts.Val += variants[c.Rng.Intn(len(variants))]
				sc.Nodes[i].Cfg[slot] = ts
				spelled++
			}
		}
	}
	c.Count("required_points_spelled_out", spelled)
	// service-locator lookups from inside Init (errors swallowed): a failing component may be requested
	// more than once during one start
	c.Count("init_lookups", AddInitLookups(c.Rng, sc, 0.3))
	// baseline
	base, bexp := w.start(nil)
	c.Count("starts", 1)
	if base.Outcome() != "ok" {
		c.Fail(classifyC09(w, nil), "fault-free baseline (only optional points are unsatisfiable) did not start: "+core.Short(base.OutcomeDetail(), 400), failDetail(sc, base, nil))
		return
	}
	for i, slots := range w.optComp {
		for _, s := range slots {
			refs, isSlice := base.SlotRefs(base.Nodes[i], s)
			for _, ref := range refs {
				if !ref.Nil || isSlice {
					c.Fail("", fmt.Sprintf("optional unsatisfiable point %s.%s was written", sc.Nodes[i].DisplayName(), s), failDetail(sc, base, nil))
					return
				}
			}
		}
	}
	for i, cfs := range w.optCfg {
		for _, cf := range cfs {
			if v := reflect.ValueOf(base.Nodes[i].Slot()).Elem().FieldByName(cf); !v.IsZero() {
				c.Fail("", fmt.Sprintf("optional unconfigured config field %s.%s (%s:%q) was written: %#v", sc.Nodes[i].DisplayName(), cf, sc.Nodes[i].Cfg[cf].Tag, sc.Nodes[i].Cfg[cf].Val, v.Interface()), failDetail(sc, base, nil))
				return
			}
			c.Count("optional_config_points_checked", 1)
		}
	}
	nRunners := 0
	for i := range sc.Nodes {
		if world.Palette[sc.Nodes[i].Type].Runner {
			nRunners++
		}
	}
	if got := countEvents(base, "run"); got != nRunners {
		c.Fail("", fmt.Sprintf("baseline: %d run events for %d runners", got, nRunners), failDetail(sc, base, nil))
		return
	}
	// enumerate every single site
	sites := w.sites()
	c.Count("fault_sites", len(sites))
	for _, f := range sites {
		if !p.inject(c, w, []fault{f}, bexp, base) {
			return
		}
	}
	// seeded pairs
	for x := 0; x < 8 && len(sites) > 1; x++ {
		a, b := sites[c.Rng.Intn(len(sites))], sites[c.Rng.Intn(len(sites))]
		if a == b {
			continue
		}
		if !p.inject(c, w, []fault{a, b}, bexp, base) {
			return
		}
		c.Count("fault_pairs", 1)
	}
	if c.WantSample() {
		var ss []string
		for i, f := range sites {
			if i < 12 {
				ss = append(ss, f.String())
			}
		}
		c.Sample(map[string]any{"scenario": describeScenario(sc), "single_sites": len(sites), "first_sites": ss})
	}
}

func countEvents(r *world.Run, kind string, who ...string) int {
	n := 0
	for _, e := range r.Log.Events() {
		if e.Kind == kind && (len(who) == 0 || e.Who == who[0]) {
			n++
		}
	}
	return n
}

func (w *c09World) sites() []fault {
	var out []fault
	for i := range w.sc.Nodes {
		n := &w.sc.Nodes[i]
		ti := world.Palette[n.Type]
		for _, s := range world.SortedSlots(n) {
			if !strings.Contains(strings.ToLower(n.Tags[s].Val), "required=false") {
				out = append(out, fault{Kind: "point", Node: i, Slot: s})
			}
		}
		for _, cf := range world.CfgFields {
			if t, ok := n.Cfg[cf]; ok && !strings.Contains(strings.ToLower(t.Val), "required=false") {
				out = append(out, fault{Kind: "cfg", Node: i, Slot: cf})
			}
		}
		if ti.Init {
			out = append(out, fault{Kind: "init", Node: i})
		}
		if ti.Aps {
			out = append(out, fault{Kind: "aps", Node: i})
		}
		if ti.Runner {
			out = append(out, fault{Kind: "runner", Node: i})
		}
		for p := 0; p < w.npp; p++ {
			for _, k := range ppKinds {
				out = append(out, fault{Kind: "pp", Node: i, PP: p, CB: k})
			}
		}
		out = append(out, fault{Kind: "scanner", Node: i})
	}
	out = append(out, fault{Kind: "factorypp"})
	// the scanner failing for several components in the same pass (its goroutines overlap)
	out = append(out, fault{Kind: "scanner-all"})
	if len(w.sc.Nodes) >= 2 {
		out = append(out, fault{Kind: "scanner-two", Node: 0, PP: 1})
	}
	for l := 0; l < w.nld; l++ {
		out = append(out, fault{Kind: "loader-err", PP: l}, fault{Kind: "loader-yaml", PP: l})
	}
	return out
}

// errorKind: the failing callbacks report, by node index, an ordinary error, a field-less value-typed error,
// an application error type with a Cause() method and no cause, or context.Canceled (plain / wrapped).
func errorKind(ns *world.NodeSpec, i int) {
	switch i % 4 {
	case 1:
		ns.ZeroValueErrors = true
	case 2:
		ns.CauselessErrors = true
	case 3:
		ns.CancelErrors = true
	}
}

// start runs the scenario with the given faults injected.
func (w *c09World) start(faults []fault) (*world.Run, world.Expect) {
	sc := w.sc.Clone()
	var pps []any
	for k := 0; k < w.npp; k++ {
		pps = append(pps, world.NewPP(k%3, fmt.Sprintf("pp%d", k), k))
	}
	scanner := &world.FaultScanner{Nm: "verif.faultscanner", FailFor: map[string]bool{}}
	fpp := &world.FaultFactoryPP{Nm: "verif.faultfactorypp"}
	docs := [][]byte{[]byte("f:\n  s: text\n  i: 5\n  l: [a, b]\n"), []byte("g:\n  x: 1\n")}
	loaderFail := map[int]string{}
	for _, f := range faults {
		switch f.Kind {
		case "point":
			t := sc.Nodes[f.Node].Tags[f.Slot]
			sfx := requiredSuffix(t.Val) // a spelled-out "required" stays on the point
			if strings.HasPrefix(world.SlotByName(f.Slot).Kind, "slice") {
				t = world.TagSpec{Tag: "wire", Val: ",qualifier=no-such-group" + sfx}
			} else {
				t = world.TagSpec{Tag: "wire", Val: "no-such-component" + sfx}
			}
			sc.Nodes[f.Node].Tags[f.Slot] = t
		case "cfg":
			t := sc.Nodes[f.Node].Cfg[f.Slot]
			sfx := requiredSuffix(t.Val)
			if t.Tag == "value" {
				t.Val = "${f.removed}" + sfx
			} else {
				t.Val = "f.removed" + sfx
			}
			sc.Nodes[f.Node].Cfg[f.Slot] = t
		case "init", "aps":
			sc.Nodes[f.Node].Fails = append(sc.Nodes[f.Node].Fails, f.Kind)
			errorKind(&sc.Nodes[f.Node], f.Node)
		case "runner":
			sc.Nodes[f.Node].Fails = append(sc.Nodes[f.Node].Fails, "run")
			errorKind(&sc.Nodes[f.Node], f.Node)
		case "pp":
			world.PPCoreOf(pps[f.PP]).FailOn[f.CB+":"+sc.Nodes[f.Node].DisplayName()] = true
			// every other failing callback answers the usual Go way, (nil, err), instead of (component, err)
			world.PPCoreOf(pps[f.PP]).NilOnFail = (f.Node+f.PP)%2 == 1
		case "scanner":
			scanner.FailFor[sc.Nodes[f.Node].DisplayName()] = true
		case "scanner-all":
			scanner.FailFor["*"] = true
		case "scanner-two":
			scanner.FailFor[sc.Nodes[f.Node].DisplayName()] = true
			scanner.FailFor[sc.Nodes[f.PP].DisplayName()] = true
		case "factorypp":
			fpp.Fail = true
		case "loader-err", "loader-yaml":
			loaderFail[f.PP] = f.Kind
		}
	}
	var loaders []configure.Loader
	var logged []world.LoggedLoader
	for l := 0; l < w.nld; l++ {
		switch loaderFail[l] {
		case "loader-yaml":
			loaders = append(loaders, loader.NewRawLoader([]byte("f:\n  s: [unclosed\n   x: : :\n")))
		default:
			ld := world.NewLoader(l%3, fmt.Sprintf("ld%d", l), l, docs[l], nil)
			ld.Core().Err = loaderFail[l] == "loader-err"
			loaders = append(loaders, ld)
			logged = append(logged, ld)
		}
	}
	extra := append([]any{scanner, fpp}, pps...)
	r := world.Build(sc, world.Options{Extra: extra, Loaders: loaders})
	for _, ld := range logged {
		ld.Core().Log = r.Log
	}
	r.Go()
	pop := world.Describe(r.Population())
	points := r.NodePoints(pop)
	exp := r.ExpectFor(pop, points, world.ExtraEdges(pop))
	return r, exp
}

func (p c09) inject(c *core.Ctx, w *c09World, faults []fault, bexp world.Expect, base *world.Run) bool {
	r, _ := w.start(faults)
	c.Count("starts", 1)
	c.Count("faulted_starts", 1)
	c.AddEvaluations(1)
	sc := w.sc
	idx := base.PopIndex()
	// reachedness per fault (on the fault-free model: the fault itself does not change who is created before it)
	// attemptedOutside: the creation of the named component was started outside every lookup issued by user
	// code (inside one, a failure goes to that code, which may swallow it - nothing to judge then)
	attemptedOutside := func(name string) bool {
		depth := 0
		for _, e := range r.Log.Events() {
			switch {
			case e.Kind == "lookup":
				depth++
			case e.Kind == "lookup-end":
				depth--
			case depth == 0 && e.Kind == "pp-before-inst" && e.Who == name:
				return true
			}
		}
		return false
	}
	anyReached, allUnreached := false, true
	earlyOnly := true
	for _, f := range faults {
		reached, unreached := false, false
		switch f.Kind {
		case "factorypp", "loader-err", "loader-yaml", "scanner", "scanner-all", "scanner-two":
			reached = true
		case "runner":
			reached = true
		default:
			pi := idx[base.Nodes[f.Node]]
			// (an eager component is attempted by the refresh itself sooner or later: only for a lazy one does it
			// matter whether anybody outside a swallowed lookup asked for it)
			reached, unreached = bexp.Must[pi] && (!world.Palette[sc.Nodes[f.Node].Type].Lazy || attemptedOutside(sc.Nodes[f.Node].DisplayName())), !bexp.May[pi]
			if f.Kind == "pp" && f.CB == "early" {
				// only reached when an early reference of that component is actually requested
				// reached = the callback fired outside any service-locator lookup (inside one, the error goes
				// to the user code that swallows it); fired only inside lookups = not judged
				hit, hitInLookup := false, false
				depth := 0
				for _, e := range r.Log.Events() {
					switch {
					case e.Kind == "lookup":
						depth++
					case e.Kind == "lookup-end":
						depth--
					case e.Kind == "pp-early" && e.Who == sc.Nodes[f.Node].DisplayName() && e.By == fmt.Sprintf("pp%d", f.PP):
						if depth == 0 {
							hit = true
						} else {
							hitInLookup = true
						}
					}
				}
				reached, unreached = hit, !hit && !hitInLookup
			}
		}
		if f.Kind != "pp" || f.CB != "early" {
			earlyOnly = false
		}
		if reached {
			anyReached = true
		}
		if !unreached {
			allUnreached = false
		}
	}
	_ = earlyOnly
	detail := func() map[string]any {
		return failDetail(sc, r, map[string]any{"faults": fmt.Sprint(faults), "events": renderEvents(r.Log.Events(), 100)})
	}
	switch r.Outcome() {
	case "panic":
		c.Fail(classifyC09(w, faults), fmt.Sprintf("fault %v: panic escaped App.Run: %v", faults, r.Panic), detail())
		return false
	case "diverged":
		c.Fail(classifyC09(w, faults), fmt.Sprintf("fault %v: start-up did not terminate: %s", faults, r.Diverge.Error()), detail())
		return false
	case "stalled":
		c.Fail(classifyC09(w, faults), fmt.Sprintf("fault %v: App.Run hangs instead of returning an error (%s)", faults, r.OutcomeDetail()), detail())
		return false
	}
	runs := countEvents(r, "run")
	if anyReached {
		c.Count("reached_faults", 1)
		if r.Outcome() != "error" {
			class := classifyC09(w, faults)
			if r.Tracer != nil && earlyRefOfFailedAttemptEscaped(r.Tracer.Events()) {
				class = "F-C09-dependent-of-failed-attempt"
			}
			c.Fail(class, fmt.Sprintf("fault %v was reached but App.Run returned nil", faults), detail())
			return core.IsKnown("C09", class)
		}
		onlyRunner := hasRunnerFaultOnly(faults)
		reachedNonRunner := false
		for _, f := range faults {
			if f.Kind == "runner" {
				continue
			}
			switch f.Kind {
			case "factorypp", "loader-err", "loader-yaml", "scanner", "scanner-all", "scanner-two":
				reachedNonRunner = true
			default:
				if f.Kind == "pp" && f.CB == "early" {
					depth := 0
					for _, e := range r.Log.Events() {
						switch {
						case e.Kind == "lookup":
							depth++
						case e.Kind == "lookup-end":
							depth--
						case depth == 0 && e.Kind == "pp-early" && e.Who == sc.Nodes[f.Node].DisplayName() && e.By == fmt.Sprintf("pp%d", f.PP):
							reachedNonRunner = true
						}
					}
				} else if bexp.Must[idx[base.Nodes[f.Node]]] && (!world.Palette[sc.Nodes[f.Node].Type].Lazy || attemptedOutside(sc.Nodes[f.Node].DisplayName())) {
					reachedNonRunner = true
				}
			}
		}
		if reachedNonRunner && runs > 0 {
			c.Fail(classifyC09(w, faults), fmt.Sprintf("fault %v: %d runner(s) were invoked although start-up failed before the runner phase", faults, runs), detail())
			return false
		}
		if onlyRunner {
			// exactly the failing runner is the last one invoked
			var last string
			for _, e := range r.Log.Events() {
				if e.Kind == "run" {
					last = e.Who
				}
			}
			ok := false
			for _, f := range faults {
				if sc.Nodes[f.Node].DisplayName() == last {
					ok = true
				}
			}
			if !ok {
				c.Fail("", fmt.Sprintf("fault %v: the last runner invoked (%q) is not a failing one", faults, last), detail())
				return false
			}
		}
		for _, f := range faults {
			depth := 0
			ty := -1
			if f.Kind != "factorypp" && f.Kind != "scanner-all" && !strings.HasPrefix(f.Kind, "loader") {
				ty = sc.Nodes[f.Node].Type
				depth = creationDepthAtFailure(r)
			}
			c.Nontrivial(fmt.Sprintf("%s/%s/t%d/d%d", f.Kind, f.CB, ty, depth))
		}
	} else if allUnreached {
		c.Count("unreached_faults", 1)
		if r.Outcome() != "ok" {
			c.Fail(classifyC09(w, faults), fmt.Sprintf("fault %v sits in a component that is never created, yet the start failed: %s", faults, core.Short(r.OutcomeDetail(), 300)), detail())
			return false
		}
	} else {
		c.Count("ambiguous_faults", 1)
		// a fault that fired only inside lookups issued by user code is that code's to handle - with one
		// recorded exception: a component created during the failed attempt stays alive holding the
		// half-built one although Run returns nil (the D14 history class, a known finding)
		if r.Outcome() == "ok" && r.Tracer != nil && earlyRefOfFailedAttemptEscaped(r.Tracer.Events()) {
			for _, f := range faults {
				if (f.Kind == "init" || f.Kind == "aps") && countEvents(r, f.Kind, sc.Nodes[f.Node].DisplayName()) > 0 && core.IsKnown("C09", "F-C09-dependent-of-failed-attempt") {
					c.Fail("F-C09-dependent-of-failed-attempt", fmt.Sprintf("fault %v fired inside a swallowed lookup only; App.Run returned nil while a component created during the failed attempt survives", faults), detail())
					break
				}
			}
		}
	}
	return true
}

func hasRunnerFaultOnly(fs []fault) bool {
	for _, f := range fs {
		if f.Kind != "runner" {
			return false
		}
	}
	return true
}

// creationDepthAtFailure: nesting depth of creations when the first creation failed.
func creationDepthAtFailure(r *world.Run) int {
	if r.Tracer == nil {
		return 0
	}
	depth := 0
	for _, e := range r.Tracer.Events() {
		if e.Op != "create-fn" {
			continue
		}
		if e.Phase == "call" {
			depth++
		} else {
			if e.Err != "" {
				return depth
			}
			depth--
		}
	}
	return 0
}

// classifyC09: known-finding classes by input.
func classifyC09(w *c09World, faults []fault) string { return "" }

// requiredSuffix returns the ",required…" argument of a tag value as written ("" when there is none).
func requiredSuffix(val string) string {
	for _, seg := range strings.Split(val, ",")[1:] {
		if strings.HasPrefix(strings.ToLower(seg), "required") {
			return "," + seg
		}
	}
	return ""
}
