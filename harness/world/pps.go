package world

import (
	"errors"
	"reflect"
	"sync"

	"github.com/go-kid/ioc/component_definition"
	"github.com/go-kid/ioc/container"
	"github.com/go-kid/ioc/container/processors"
)

// Logging post-processors of the three ordering classes. Each callback is logged as
// "pp-<kind>" with By = the processor's name; FailOn injects a fault into one callback for one
// component ("<kind>:<component>").

type ppCore struct {
	processors.DefaultInstantiationAwareComponentPostProcessor
	Nm     string
	Ord    int
	run    *Run
	FailOn map[string]bool
	// Supply names a component for which PostProcessBeforeInstantiation hands back the registered
	// instance itself, short-circuiting its creation.
	Supply string
	// NilOnFail: a failing callback answers the usual Go way, (nil, err), instead of (component, err)
	NilOnFail bool
}

func (p *ppCore) Naming() string { return p.Nm }
func (p *ppCore) Bind(r *Run)    { p.run = r }

func (p *ppCore) hit(kind, comp string) error {
	if p.run != nil {
		p.run.Log.AddBy("pp-"+kind, comp, p.Nm, nil)
	}
	if p.FailOn[kind+":"+comp] || p.FailOn[kind+":*"] {
		return errors.New("injected fault: " + p.Nm + "." + kind + " for " + comp)
	}
	return nil
}

func (p *ppCore) PostProcessBeforeInitialization(c any, name string) (any, error) {
	if err := p.hit("before", name); err != nil && p.NilOnFail {
		return nil, err
	} else if err != nil {
		return c, err
	}
	return c, nil
}
func (p *ppCore) PostProcessAfterInitialization(c any, name string) (any, error) {
	if err := p.hit("after", name); err != nil && p.NilOnFail {
		return nil, err
	} else if err != nil {
		return c, err
	}
	return c, nil
}
func (p *ppCore) PostProcessBeforeInstantiation(m *component_definition.Meta, name string) (any, error) {
	if err := p.hit("before-inst", name); err != nil {
		return nil, err
	}
	if p.Supply != "" && name == p.Supply {
		return m.Raw, nil
	}
	return nil, nil
}
func (p *ppCore) PostProcessAfterInstantiation(c any, name string) (bool, error) {
	return true, p.hit("after-inst", name)
}
func (p *ppCore) PostProcessProperties(props []*component_definition.Property, c any, name string) ([]*component_definition.Property, error) {
	return nil, p.hit("properties", name)
}
func (p *ppCore) GetEarlyBeanReference(c any, name string) (any, error) {
	if err := p.hit("early", name); err != nil {
		if p.NilOnFail {
			return nil, err
		}
		return c, err
	}
	return c, nil
}

type Binder interface{ Bind(r *Run) }

// PPUnordered has no Order(): sorted after all ordered processors, in registration-dependent order.
type PPUnordered struct{ ppCore }

// PPOrdered implements Ordered.
type PPOrdered struct{ ppCore }

func (p *PPOrdered) Order() int { return p.Ord }

// PPPriority implements PriorityOrdered.
type PPPriority struct{ ppCore }

func (p *PPPriority) Order() int { return p.Ord }
func (p *PPPriority) Priority()  {}

// PPPriorityOnly implements Priority but not Ordered (counts as unordered).
type PPPriorityOnly struct{ ppCore }

func (p *PPPriorityOnly) Priority() {}

// Lazy variants: the container uses the registered instance directly instead of creating it first.
type PPLazyUnordered struct{ PPUnordered }
type PPLazyOrdered struct{ PPOrdered }
type PPLazyPriority struct{ PPPriority }
type PPLazyPriorityOnly struct{ PPPriorityOnly }

func (*PPLazyUnordered) LazyInit()    {}
func (*PPLazyOrdered) LazyInit()      {}
func (*PPLazyPriority) LazyInit()     {}
func (*PPLazyPriorityOnly) LazyInit() {}

func NewLazyPP(class int, name string, ord int) any {
	c := ppCore{Nm: name, Ord: ord, FailOn: map[string]bool{}}
	switch class {
	case 0:
		return &PPLazyUnordered{PPUnordered{c}}
	case 1:
		return &PPLazyOrdered{PPOrdered{c}}
	case 2:
		return &PPLazyPriority{PPPriority{c}}
	}
	return &PPLazyPriorityOnly{PPPriorityOnly{c}}
}

// Processors whose order is only settled while the factory is being prepared (they read it from the
// factory's configuration, as the built-in processors do with their settings): until then Order()
// answers a provisional value.
type PPLateOrdered struct {
	PPOrdered
	Final int
}
type PPLatePriority struct {
	PPPriority
	Final int
}

func (p *PPLateOrdered) PostProcessComponentFactory(f container.Factory) error {
	p.Ord = p.Final
	return nil
}
func (p *PPLatePriority) PostProcessComponentFactory(f container.Factory) error {
	p.Ord = p.Final
	return nil
}

// NewLatePP: class 1 (ordered) or 2 (priority-ordered); provisional order first, final order later.
func NewLatePP(class int, name string, provisional, final int) any {
	c := ppCore{Nm: name, Ord: provisional, FailOn: map[string]bool{}}
	if class == 2 {
		return &PPLatePriority{PPPriority{c}, final}
	}
	return &PPLateOrdered{PPOrdered{c}, final}
}

func NewPP(class int, name string, ord int) any {
	c := ppCore{Nm: name, Ord: ord, FailOn: map[string]bool{}}
	switch class {
	case 0:
		return &PPUnordered{c}
	case 1:
		return &PPOrdered{c}
	case 2:
		return &PPPriority{c}
	}
	return &PPPriorityOnly{c}
}

func PPCoreOf(p any) *ppCore {
	switch x := p.(type) {
	case *PPUnordered:
		return &x.ppCore
	case *PPOrdered:
		return &x.ppCore
	case *PPPriority:
		return &x.ppCore
	case *PPPriorityOnly:
		return &x.ppCore
	case *PPLateOrdered:
		return &x.ppCore
	case *PPLatePriority:
		return &x.ppCore
	case *PPLazyUnordered:
		return &x.ppCore
	case *PPLazyOrdered:
		return &x.ppCore
	case *PPLazyPriority:
		return &x.ppCore
	case *PPLazyPriorityOnly:
		return &x.ppCore
	}
	return nil
}

// LifePP is a plain component post-processor that is itself a component with a lifecycle (Init /
// AfterPropertiesSet are logged under its name) and can be a dependency of ordinary components.
type LifePP struct {
	processors.DefaultComponentPostProcessor
	Nm  string
	run *Run
}

func (p *LifePP) Naming() string { return p.Nm }
func (p *LifePP) Bind(r *Run)    { p.run = r }
func (p *LifePP) A()             {}
func (p *LifePP) Init() error {
	p.run.Log.Add("init", p.Nm)
	return nil
}
func (p *LifePP) AfterPropertiesSet() error {
	p.run.Log.Add("aps", p.Nm)
	return nil
}

// PrioLifePP: the same, priority-ordered: with a small Order it is created before the built-in processors are
// active (while the chain is still empty or short).
type PrioLifePP struct {
	LifePP
	Ord int
}

func (p *PrioLifePP) Order() int { return p.Ord }
func (p *PrioLifePP) Priority()  {}

// LazyLifePP: the same, marked LazyInit.
type LazyLifePP struct{ LifePP }

func (p *LazyLifePP) LazyInit() {}

// DepPP: user post-processors that have injection points and config values of their own (they are
// created while the post-processor chain is being built, in the chain's sorted order).
type depCore struct {
	processors.DefaultInstantiationAwareComponentPostProcessor
	Nm  string
	Ord int
	Dep IA     `wire:",required=false"`
	All []IB   `wire:",required=false"`
	V   string `value:"${dep.v:none}"`
}

func (p *depCore) Naming() string { return p.Nm }

// Describe renders what the processor received.
func (p *depCore) Describe() string {
	dep := "nil" // which of several tied candidates arrives may vary; whether one arrives may not
	if p.Dep != nil {
		dep = "set"
	}
	return p.Nm + ":dep=" + dep + ",all=" + itoa(len(p.All)) + ",v=" + p.V
}

func itoa(i int) string {
	if i == 0 {
		return "0"
	}
	s := ""
	for i > 0 {
		s = string(rune('0'+i%10)) + s
		i /= 10
	}
	return s
}

type DepPPUnordered struct{ depCore }
type DepPPOrdered struct{ depCore }

func (p *DepPPOrdered) Order() int { return p.Ord }

type DepPPPriority struct{ depCore }

func (p *DepPPPriority) Order() int { return p.Ord }
func (p *DepPPPriority) Priority()  {}

type Describer interface{ Describe() string }

// DepPoints returns what a DepPP's own by-type points hold.
func DepPoints(p any) (IA, []IB) {
	switch x := p.(type) {
	case *DepPPUnordered:
		return x.Dep, x.All
	case *DepPPOrdered:
		return x.Dep, x.All
	case *DepPPPriority:
		return x.Dep, x.All
	}
	return nil, nil
}

func NewDepPP(class int, name string, ord int) any {
	c := depCore{Nm: name, Ord: ord}
	switch class {
	case 1:
		return &DepPPOrdered{c}
	case 2:
		return &DepPPPriority{c}
	}
	return &DepPPUnordered{c}
}

// Zero-size component types with custom names (two distinct zero-size values may share an address).
type ZeroA struct{}
type ZeroB struct{}

func (*ZeroA) Naming() string { return "zero-name" }
func (*ZeroB) Naming() string { return "zero-name" }
func (*ZeroA) A()             {}
func (*ZeroB) A()             {}

// Logging post-processors that have an injection point of their own (created while the chain is
// being built; what they depend on is created with a partial chain).
type PPDepUnordered struct {
	ppCore
	Dep IA `wire:",required=false"`
}
type PPDepOrdered struct {
	ppCore
	Dep IA `wire:",required=false"`
}

func (p *PPDepOrdered) Order() int { return p.Ord }

type PPDepPriority struct {
	ppCore
	Dep IA `wire:",required=false"`
}

func (p *PPDepPriority) Order() int { return p.Ord }
func (p *PPDepPriority) Priority()  {}

func NewPPDep(class int, name string, ord int) any {
	c := ppCore{Nm: name, Ord: ord, FailOn: map[string]bool{}}
	switch class {
	case 1:
		return &PPDepOrdered{ppCore: c}
	case 2:
		return &PPDepPriority{ppCore: c}
	}
	return &PPDepUnordered{ppCore: c}
}

// LookupPP is an instantiation-aware post-processor that, for chosen components, resolves a
// collaborator through the factory (GetComponentByName) from inside its callbacks - before the
// component's own dependencies are populated - and ignores the result.
type LookupPP struct {
	processors.DefaultInstantiationAwareComponentPostProcessor
	Plan map[string]string // component name -> name to look up
	When string            // "after-inst" | "properties" | "before"
	run  *Run
	done map[string]bool
	// Always: the lookup is repeated every time the callback runs for the component (not only the first time)
	Always bool
}

func (p *LookupPP) Naming() string { return "verif.lookuppp" }
func (p *LookupPP) Bind(r *Run)    { p.run, p.done = r, map[string]bool{} }
func (p *LookupPP) look(when, name string) {
	if t, ok := p.Plan[name]; ok && p.When == when && (!p.done[name] || p.Always) {
		p.done[name] = true
		p.run.UserLookup(t)
	}
}
func (p *LookupPP) PostProcessAfterInstantiation(c any, name string) (bool, error) {
	p.look("after-inst", name)
	return true, nil
}
func (p *LookupPP) PostProcessProperties(props []*component_definition.Property, c any, name string) ([]*component_definition.Property, error) {
	p.look("properties", name)
	return nil, nil
}
func (p *LookupPP) PostProcessBeforeInitialization(c any, name string) (any, error) {
	p.look("before", name)
	return c, nil
}

// (When == "early": the lookup is issued while the component's early reference is being produced)
func (p *LookupPP) GetEarlyBeanReference(c any, name string) (any, error) {
	p.look("early", name)
	return c, nil
}

// RelaxPP is a user post-processor in the style of unittest/component/modified_inject: it declares the
// points of its own tag optional at run time through Property.SetArg.
type RelaxPP struct {
	processors.DefaultInstantiationAwareComponentPostProcessor
	Tag     string
	Relaxed int
}

func (p *RelaxPP) Naming() string { return "verif.relaxpp" }
func (p *RelaxPP) Order() int     { return -1000 } // ahead of the built-in processors that enforce "required"
func (p *RelaxPP) Priority()      {}
func (p *RelaxPP) PostProcessAfterInstantiation(c any, name string) (bool, error) {
	return true, nil
}
func (p *RelaxPP) PostProcessProperties(props []*component_definition.Property, c any, name string) ([]*component_definition.Property, error) {
	for _, pr := range props {
		if pr.Tag == p.Tag {
			pr.SetArg(component_definition.ArgRequired, "false")
			p.Relaxed++
		}
	}
	return nil, nil
}

// QualPP is a user post-processor (merely ordered, behind the built-in processors, created before the
// refresh) whose own injection points need narrowing like anybody else's.
type QualPP struct {
	processors.DefaultComponentPostProcessor
	One  IA   `wire:",qualifier=G1,required=false"`
	Prim IA   `wire:",required=false"`
	Many []IA `wire:",qualifier=G1 g2,required=false"`
	OneB IB   `wire:",required=false"`
	AllC []IC `wire:",required=false"`
}

func (p *QualPP) Naming() string { return "verif.qualpp" }
func (p *QualPP) Order() int     { return 100 }

// LabelPP is a user tag processor with a tag and a property type of its own ("label"): it stores the
// tag's (resolved) text in the string field.
type LabelPP struct {
	processors.DefaultTagScanDefinitionRegistryPostProcessor
	processors.DefaultInstantiationAwareComponentPostProcessor
}

func NewLabelPP() *LabelPP {
	p := &LabelPP{}
	p.NodeType = "label"
	p.Tag = "label"
	return p
}
func (p *LabelPP) Naming() string { return "verif.labelpp" }
func (p *LabelPP) PostProcessAfterInstantiation(c any, name string) (bool, error) {
	return true, nil
}
func (p *LabelPP) PostProcessProperties(props []*component_definition.Property, c any, name string) ([]*component_definition.Property, error) {
	for _, pr := range props {
		if pr.Tag == "label" && pr.Value.Kind() == reflect.String {
			pr.Value.SetString(pr.TagVal)
		}
	}
	return nil, nil
}

// NamePP is a user post-processor (merely ordered, behind the built-ins, created before the refresh)
// with by-name injection points of its own.
type NamePP struct {
	processors.DefaultComponentPostProcessor
	One    IA  `wire:"np-target"`
	AnyOne any `wire:"np-target"`
	Absent IA  `wire:"np-absent,required=false"`
	Req    IA  `wire:"np-req"`
}

func (p *NamePP) Naming() string { return "verif.namepp" }
func (p *NamePP) Order() int     { return 100 }

// SubsetPP is a user post-processor that answers PostProcessProperties with only the properties it
// handled itself (those of its own tag - usually none): what it returns says nothing about which
// properties the processors after it get to see.
type SubsetPP struct {
	processors.DefaultInstantiationAwareComponentPostProcessor
	Ord  int
	Tag  string
	Seen int
}

func (p *SubsetPP) Naming() string { return "verif.subsetpp" }
func (p *SubsetPP) Order() int     { return p.Ord }
func (p *SubsetPP) PostProcessAfterInstantiation(c any, name string) (bool, error) {
	return true, nil
}
func (p *SubsetPP) PostProcessProperties(props []*component_definition.Property, c any, name string) ([]*component_definition.Property, error) {
	handled := []*component_definition.Property{}
	for _, pr := range props {
		if pr.Tag == p.Tag {
			handled = append(handled, pr)
			p.Seen++
		}
	}
	return handled, nil
}

// WidenPP is a user post-processor that widens the qualifier set of every qualified wire point at run
// time through Property.AddArg, spelling the argument the way tags do ("qualifier").
type WidenPP struct {
	processors.DefaultInstantiationAwareComponentPostProcessor
	Add     string
	Widened int
	// ViaArgsMap: the argument is added through the map Property.Args() hands out (TagArg.Add) instead of
	// Property.AddArg
	ViaArgsMap bool
}

func (p *WidenPP) Naming() string { return "verif.widenpp" }
func (p *WidenPP) Order() int     { return -500 } // ahead of the built-in processors
func (p *WidenPP) Priority()      {}
func (p *WidenPP) PostProcessAfterInstantiation(c any, name string) (bool, error) {
	return true, nil
}
func (p *WidenPP) PostProcessProperties(props []*component_definition.Property, c any, name string) ([]*component_definition.Property, error) {
	for _, pr := range props {
		if pr.Tag == "wire" && pr.Args().Has(component_definition.ArgQualifier) {
			if vals, _ := pr.Args().Find(component_definition.ArgQualifier); len(vals) == 1 && vals[0] == "" {
				continue // a bare "qualifier" argument is left alone
			}
			if p.ViaArgsMap {
				pr.Args().Add("qualifier", p.Add)
			} else {
				pr.AddArg("qualifier", p.Add)
			}
			p.Widened++
		}
	}
	return nil, nil
}

// AliasScanner is a user-defined scanner written like the one in unittest/component/modified_inject: it
// embeds the public tag scanner without setting Required and maps its own tag (inject:"name") to the
// wire tag through the ExtractHandler. Points found this way are required unless their tag says otherwise.
type AliasScanner struct {
	processors.DefaultTagScanDefinitionRegistryPostProcessor
}

func NewAliasScanner() *AliasScanner {
	s := &AliasScanner{}
	s.NodeType = component_definition.PropertyTypeComponent
	s.ExtractHandler = func(meta *component_definition.Meta, field *component_definition.Field) (string, string, bool) {
		if v, ok := field.StructField.Tag.Lookup("inject"); ok {
			return "wire", v, true
		}
		return "", "", false
	}
	return s
}
func (s *AliasScanner) Naming() string { return "verif.aliasscanner" }

// PlainPP is a component post-processor of the plain kind (no instantiation-aware callbacks) that changes
// nothing: its presence must not influence what the other processors do.
type PlainPP struct {
	processors.DefaultComponentPostProcessor
	Nm string
}

func (p *PlainPP) Naming() string { return p.Nm }

// DestructionPP is a destruction-aware post-processor that is interested in components of one marker kind
// only (RequireDestruction answers false for everything else), the natural way to write one.
type DestructionPP struct {
	processors.DefaultComponentPostProcessor
	mu   sync.Mutex
	Hits map[string]int
}

func (p *DestructionPP) Naming() string { return "verif.destructionpp" }
func (p *DestructionPP) PostProcessBeforeDestruction(c any, name string) error {
	p.mu.Lock()
	defer p.mu.Unlock()
	if p.Hits == nil {
		p.Hits = map[string]int{}
	}
	p.Hits[name]++
	return nil
}
func (p *DestructionPP) RequireDestruction(c any) bool {
	_, ok := c.(interface{ NeedsDestructionCallback() })
	return ok
}

// NeedyPP: an eager component post-processor (unordered) with a REQUIRED injection point of its own.
type NeedyPP struct {
	processors.DefaultComponentPostProcessor
	Nm  string
	Req IA `wire:"needy-dep"`
}

func (p *NeedyPP) Naming() string { return p.Nm }

// NeedyPPOrdered: the same, ordered behind the built-in resolvers.
type NeedyPPOrdered struct{ NeedyPP }

func (p *NeedyPPOrdered) Order() int { return 1000 }
