package world

import (
	"errors"

	"github.com/go-kid/ioc/component_definition"
	"github.com/go-kid/ioc/container/processors"
)

// Logging post-processors of the three ordering classes. Each callback is logged as
// "pp-<kind>" with By = the processor's name; FailOn injects a fault into one callback for one
// component ("<kind>:<component>").

type ppCore struct {
	processors.DefaultInstantiationAwareComponentPostProcessor
	Nm     string
	Ord    int
	run    *Run
	FailOn map[string]bool
}

func (p *ppCore) Naming() string { return p.Nm }
func (p *ppCore) Bind(r *Run)    { p.run = r }

func (p *ppCore) hit(kind, comp string) error {
	if p.run != nil {
		p.run.Log.AddBy("pp-"+kind, comp, p.Nm, nil)
	}
	if p.FailOn[kind+":"+comp] || p.FailOn[kind+":*"] {
		return errors.New("injected fault: " + p.Nm + "." + kind + " for " + comp)
	}
	return nil
}

func (p *ppCore) PostProcessBeforeInitialization(c any, name string) (any, error) {
	return c, p.hit("before", name)
}
func (p *ppCore) PostProcessAfterInitialization(c any, name string) (any, error) {
	return c, p.hit("after", name)
}
func (p *ppCore) PostProcessBeforeInstantiation(m *component_definition.Meta, name string) (any, error) {
	return nil, p.hit("before-inst", name)
}
func (p *ppCore) PostProcessAfterInstantiation(c any, name string) (bool, error) {
	return true, p.hit("after-inst", name)
}
func (p *ppCore) PostProcessProperties(props []*component_definition.Property, c any, name string) ([]*component_definition.Property, error) {
	return nil, p.hit("properties", name)
}
func (p *ppCore) GetEarlyBeanReference(c any, name string) (any, error) {
	return c, p.hit("early", name)
}

type Binder interface{ Bind(r *Run) }

// PPUnordered has no Order(): sorted after all ordered processors, in registration-dependent order.
type PPUnordered struct{ ppCore }

// PPOrdered implements Ordered.
type PPOrdered struct{ ppCore }

func (p *PPOrdered) Order() int { return p.Ord }

// PPPriority implements PriorityOrdered.
type PPPriority struct{ ppCore }

func (p *PPPriority) Order() int { return p.Ord }
func (p *PPPriority) Priority()  {}

// PPPriorityOnly implements Priority but not Ordered (counts as unordered).
type PPPriorityOnly struct{ ppCore }

func (p *PPPriorityOnly) Priority() {}

func NewPP(class int, name string, ord int) any {
	c := ppCore{Nm: name, Ord: ord, FailOn: map[string]bool{}}
	switch class {
	case 0:
		return &PPUnordered{c}
	case 1:
		return &PPOrdered{c}
	case 2:
		return &PPPriority{c}
	}
	return &PPPriorityOnly{c}
}

func PPCoreOf(p any) *ppCore {
	switch x := p.(type) {
	case *PPUnordered:
		return &x.ppCore
	case *PPOrdered:
		return &x.ppCore
	case *PPPriority:
		return &x.ppCore
	case *PPPriorityOnly:
		return &x.ppCore
	}
	return nil
}
