// Package model: two packages share this base name and the type name Item on purpose; their default
// component names (package path + type name) differ.
package model

type Item struct{ Tag string }

func (*Item) A() {}
