package world

import (
	"fmt"
	"reflect"
)

// FieldSpec describes one field of a run-time built struct type.
type FieldSpec struct {
	Name       string
	Type       reflect.Type
	Tag        string // complete struct tag literal, e.g. `wire:"x,required=false"`
	Unexported bool
	Anonymous  bool        // embedded (Type must then be a struct type built from Sub, or any struct type)
	Sub        []FieldSpec // when non-nil, Type is built from these fields
}

// BuildStruct builds the struct type with reflect.StructOf.
func BuildStruct(fields []FieldSpec) reflect.Type {
	var sf []reflect.StructField
	for _, f := range fields {
		t := f.Type
		if f.Sub != nil {
			t = BuildStruct(f.Sub)
		}
		s := reflect.StructField{Name: f.Name, Type: t, Tag: reflect.StructTag(f.Tag), Anonymous: f.Anonymous}
		if f.Unexported {
			s.PkgPath = PkgPath
		}
		sf = append(sf, s)
	}
	return reflect.StructOf(sf)
}

// NewHolder returns a pointer to a fresh zero value of the struct type.
func NewHolder(t reflect.Type) any { return reflect.New(t).Interface() }

// WireTag renders `<tag>:"<val>"`.
func WireTag(tag, val string) string { return fmt.Sprintf("%s:%q", tag, val) }

var (
	TypeIA  = reflect.TypeOf((*IA)(nil)).Elem()
	TypeIB  = reflect.TypeOf((*IB)(nil)).Elem()
	TypeIC  = reflect.TypeOf((*IC)(nil)).Elem()
	TypeIAB = reflect.TypeOf((*IAB)(nil)).Elem()
	TypeAny = reflect.TypeOf((*any)(nil)).Elem()
	TypeIH  = reflect.TypeOf((*IHidden)(nil)).Elem()
)

// PaletteFieldTypes lists the field types a literal-tag holder can use for component points.
func PaletteFieldTypes() []reflect.Type {
	ts := []reflect.Type{TypeIA, TypeIB, TypeIC, TypeIAB, TypeAny,
		reflect.SliceOf(TypeIA), reflect.SliceOf(TypeIB), reflect.SliceOf(TypeIC), reflect.SliceOf(TypeAny),
		TypeIH, reflect.SliceOf(TypeIH), reflect.TypeOf(&LeanH{})}
	for _, ti := range Palette {
		pt := reflect.TypeOf(ti.New())
		ts = append(ts, pt)
		if ti.Idx < 12 {
			ts = append(ts, reflect.SliceOf(pt))
		}
	}
	return ts
}
