package world

import (
	"errors"
	"sort"
	"strings"
	"sync"
	"sync/atomic"

	"github.com/go-kid/ioc/component_definition"
	"github.com/go-kid/ioc/configure"
	"github.com/go-kid/ioc/container"
	"github.com/go-kid/ioc/container/processors"
	"github.com/go-kid/ioc/definition"
	"verifharness/mon"
)

// FaultScanner is a harness definition-registry post-processor (scanner) that fails for chosen
// component names. Gate, when set, is called before returning (used to overlap failing
// goroutines of the parallel scan phase).
type FaultScanner struct {
	Nm      string
	FailFor map[string]bool
	Gate    func(name string, failing bool)
	mu      sync.Mutex
	Seen    map[string]int
	// InFlight counts the invocations that have been entered and have not returned yet.
	InFlight atomic.Int32
	// Touch makes every non-failing invocation read its definition like the built-in tag scanners do.
	Touch bool
}

func (s *FaultScanner) Naming() string { return s.Nm }
func (s *FaultScanner) LazyInit()      {}

func (s *FaultScanner) PostProcessDefinitionRegistry(reg container.DefinitionRegistry, component any, name string) error {
	s.InFlight.Add(1)
	defer s.InFlight.Add(-1)
	s.mu.Lock()
	if s.Seen == nil {
		s.Seen = map[string]int{}
	}
	s.Seen[name]++
	s.mu.Unlock()
	failing := s.FailFor[name] || s.FailFor["*"]
	if s.Gate != nil {
		s.Gate(name, failing)
	}
	if s.Touch && !failing {
		reg.GetMetaOrRegister(name, component)
	}
	if failing {
		return errors.New("injected fault: scanner " + s.Nm + " for " + name)
	}
	return nil
}

// FaultFactoryPP is a harness component-factory post-processor that can fail.
type FaultFactoryPP struct {
	Nm   string
	Fail bool
	Hits int
}

func (f *FaultFactoryPP) Naming() string { return f.Nm }
func (f *FaultFactoryPP) LazyInit()      {}
func (f *FaultFactoryPP) PostProcessComponentFactory(factory container.Factory) error {
	f.Hits++
	if f.Fail {
		return errors.New("injected fault: factory post-processor " + f.Nm)
	}
	return nil
}

// Clone deep-copies a scenario.
func (sc *Scenario) Clone() *Scenario {
	out := &Scenario{RegOrder: append([]int(nil), sc.RegOrder...), Order: sc.Order, Config: sc.Config}
	for _, n := range sc.Nodes {
		m := n
		m.Tags = map[string]TagSpec{}
		for k, v := range n.Tags {
			m.Tags[k] = v
		}
		if n.Cfg != nil {
			m.Cfg = map[string]TagSpec{}
			for k, v := range n.Cfg {
				m.Cfg[k] = v
			}
		}
		m.Fails = append([]string(nil), n.Fails...)
		m.FailOnce = append([]string(nil), n.FailOnce...)
		m.Lookups = append([]string(nil), n.Lookups...)
		out.Nodes = append(out.Nodes, m)
	}
	return out
}

// FactoryAware is an ordinary eager component (it has an Init) that also implements
// ComponentFactoryPostProcessor and DefinitionRegistryPostProcessor - "factory aware" components are
// still components: they must be wired and initialised before runners run.
type FactoryAware struct {
	Nm   string
	Dep  IA `wire:",required=false"`
	Log  *mon.Lifecycle
	Seen int
}

func (f *FactoryAware) Naming() string                                      { return f.Nm }
func (f *FactoryAware) Bind(r *Run)                                         { f.Log = r.Log }
func (f *FactoryAware) PostProcessComponentFactory(container.Factory) error { return nil }
func (f *FactoryAware) PostProcessDefinitionRegistry(container.DefinitionRegistry, any, string) error {
	return nil
}
func (f *FactoryAware) Init() error {
	f.Log.Add("init", f.Nm)
	return nil
}

// Zero-size closer components (stateless hooks). All pointers to zero-size values may share one
// address; they are still distinct components. Their events go to the log installed by SetZeroLog.
var zeroLog atomic.Pointer[mon.Lifecycle]

func SetZeroLog(l *mon.Lifecycle) { zeroLog.Store(l) }

type ZeroCloserA struct{}
type ZeroCloserB struct{}
type ZeroCloserC struct{}

func zeroClose(name string) error {
	l := zeroLog.Load()
	l.Add("close-begin", name)
	l.Add("close-end", name)
	return nil
}
func (*ZeroCloserA) Naming() string { return "zero-closer-a" }
func (*ZeroCloserB) Naming() string { return "zero-closer-b" }
func (*ZeroCloserC) Naming() string { return "zero-closer-c" }
func (*ZeroCloserA) Close() error   { return zeroClose("zero-closer-a") }
func (*ZeroCloserB) Close() error   { return zeroClose("zero-closer-b") }
func (*ZeroCloserC) Close() error   { return zeroClose("zero-closer-c") }

// Closers that are post-processors at the same time, written like the built-in ones (lazy: used as
// registered). They hold a resource that App.Close must release like any other closer's.
type ClosingPP struct {
	processors.DefaultInstantiationAwareComponentPostProcessor
	definition.LazyInitComponent
	Nm   string
	Seen int
}

func (p *ClosingPP) Naming() string { return p.Nm }
func (p *ClosingPP) PostProcessAfterInitialization(c any, name string) (any, error) {
	p.Seen++
	return c, nil
}
func (p *ClosingPP) Close() error { return zeroClose(p.Nm) }

// ClosingTagPP additionally is a tag-scanning definition-registry post-processor (custom tag "vclose").
type ClosingTagPP struct {
	processors.DefaultTagScanDefinitionRegistryPostProcessor
	processors.DefaultInstantiationAwareComponentPostProcessor
	Nm string
}

func NewClosingTagPP(name string) *ClosingTagPP {
	p := &ClosingTagPP{Nm: name}
	p.NodeType = "vclose"
	p.Tag = "vclose"
	return p
}
func (p *ClosingTagPP) Naming() string { return p.Nm }
func (p *ClosingTagPP) Close() error   { return zeroClose(p.Nm) }

// RegistrarPP is a component-factory post-processor that contributes component definitions
// programmatically (not through SetComponents): eager components like any other.
type RegistrarPP struct {
	Nodes []Node
	// Names, when set, are the names the definitions are registered under (instead of the nodes' own)
	Names []string
	// ViaRegisterMeta: the definitions are built by the contributor and handed over with RegisterMeta
	// (instead of get-or-register)
	ViaRegisterMeta bool
}

func (f *RegistrarPP) Naming() string { return "verif.registrar" }
func (f *RegistrarPP) LazyInit()      {}
func (f *RegistrarPP) Bind(r *Run) {
	for _, n := range f.Nodes {
		n.Core().Log = r.Log
	}
}
func (f *RegistrarPP) PostProcessComponentFactory(factory container.Factory) error {
	for i, n := range f.Nodes {
		name := n.DisplayName()
		if i < len(f.Names) {
			name = f.Names[i]
		}
		if f.ViaRegisterMeta {
			m := component_definition.NewMeta(n)
			m.SetName(name)
			factory.GetDefinitionRegistry().RegisterMeta(m)
			continue
		}
		factory.GetDefinitionRegistry().GetMetaOrRegister(name, n)
	}
	return nil
}

// CatalogFactoryPP is a component-factory post-processor that looks at the registered components when it
// is invoked (a module catalogue): what it sees does not depend on the order of anything.
type CatalogFactoryPP struct {
	Seen  int
	Names string
	Defs  int
}

func (f *CatalogFactoryPP) Naming() string { return "verif.catalog" }
func (f *CatalogFactoryPP) LazyInit()      {}
func (f *CatalogFactoryPP) PostProcessComponentFactory(factory container.Factory) error {
	// (a catalogue also looks at the definitions known so far - usually none yet: the definition scan runs later)
	f.Defs = len(factory.GetDefinitionRegistry().GetMetas())
	comps := factory.GetRegisteredComponents()
	names := make([]string, 0, len(comps))
	for n := range comps {
		names = append(names, n)
	}
	sort.Strings(names)
	f.Seen, f.Names = len(names), strings.Join(names, ",")
	return nil
}

// NeedyFactoryAware / NeedyRegistryAware are ordinary eager components with required points and an Init of
// their own that additionally implement ComponentFactoryPostProcessor resp. DefinitionRegistryPostProcessor
// (a "factory aware" service). They are components like any other: their points must be satisfiable and
// their Init must succeed for the start to succeed.
type NeedyCore struct {
	Req      IA     `wire:"needy-dep"`
	Cfg      string `value:"${needy.key}"`
	FailInit bool
	Inits    int
}

func (n *NeedyCore) Init() error {
	n.Inits++
	if n.FailInit {
		return errors.New("needy component: Init failed")
	}
	return nil
}

type NeedyFactoryAware struct{ NeedyCore }
type NeedyRegistryAware struct{ NeedyCore }

func (*NeedyFactoryAware) Naming() string                                      { return "needy-factory-aware" }
func (*NeedyFactoryAware) PostProcessComponentFactory(container.Factory) error { return nil }
func (*NeedyRegistryAware) Naming() string                                     { return "needy-registry-aware" }
func (*NeedyRegistryAware) PostProcessDefinitionRegistry(container.DefinitionRegistry, any, string) error {
	return nil
}

// TopCloser is a self-contained closer (its events go to its own log) for applications that are started
// through the package-level ioc.Run / ioc.Register.
type TopCloser struct {
	Nm   string
	Log  *mon.Lifecycle
	Fail bool
}

func (t *TopCloser) Naming() string { return t.Nm }
func (t *TopCloser) Close() error {
	t.Log.Add("close-begin", t.Nm)
	t.Log.Add("close-end", t.Nm)
	if t.Fail {
		return errors.New("injected fault: close of " + t.Nm)
	}
	return nil
}

// FactoryAwareBare: like FactoryAware, without injection points of its own.
type FactoryAwareBare struct {
	Nm  string
	Log *mon.Lifecycle
}

func (f *FactoryAwareBare) Naming() string                                      { return f.Nm }
func (f *FactoryAwareBare) Bind(r *Run)                                         { f.Log = r.Log }
func (f *FactoryAwareBare) PostProcessComponentFactory(container.Factory) error { return nil }
func (f *FactoryAwareBare) PostProcessDefinitionRegistry(container.DefinitionRegistry, any, string) error {
	return nil
}
func (f *FactoryAwareBare) Init() error {
	f.Log.Add("init", f.Nm)
	return nil
}

func (t *TopCloser) Bind(r *Run) {
	if t.Log == nil {
		t.Log = r.Log
	}
}

// CachingCloser is a decorator-style closer: it embeds the interface it decorates (wired by name) and has a
// Close of its own. It is a closer in its own right, whenever it is created.
type CachingCloser struct {
	definition.CloserComponent `wire:"inner-closer"`
	Nm                         string
	Log                        *mon.Lifecycle
}

func (c *CachingCloser) Naming() string { return c.Nm }
func (c *CachingCloser) Bind(r *Run)    { c.Log = r.Log }
func (c *CachingCloser) Close() error {
	c.Log.Add("close-begin", c.Nm)
	c.Log.Add("close-end", c.Nm)
	return nil
}

// RunningPP is a lazy component post-processor that is an (ordered) application runner as well: one
// participant of the post-processor sequence and one of the runner sequence.
type RunningPP struct {
	processors.DefaultInstantiationAwareComponentPostProcessor
	definition.LazyInitComponent
	Nm  string
	Ord int
	Log *mon.Lifecycle
}

func (p *RunningPP) Naming() string { return p.Nm }
func (p *RunningPP) Order() int     { return p.Ord }
func (p *RunningPP) Bind(r *Run)    { p.Log = r.Log }
func (p *RunningPP) Run() error {
	p.Log.Add("run", p.Nm)
	return nil
}

// TopRunner is a self-contained ordered runner (its events go to its own log) for applications that are
// assembled by hand: app.NewApp().Run(SetRegistry(...), SetComponents(...)).
type TopRunner struct {
	Nm   string
	Ord  int
	Log  *mon.Lifecycle
	Fail bool
}

func (t *TopRunner) Naming() string { return t.Nm }
func (t *TopRunner) Order() int     { return t.Ord }
func (t *TopRunner) Run() error {
	t.Log.Add("run", t.Nm)
	if t.Fail {
		return errors.New("injected fault: run of " + t.Nm)
	}
	return nil
}

// Runners that take their ordering role from embedded structs: the Order() of a shared base struct (promoted),
// the priority mark of the library's helper struct.
type RunnerBase struct {
	Nm  string
	Ord int
	Log *mon.Lifecycle
}

func (b *RunnerBase) Naming() string { return b.Nm }
func (b *RunnerBase) Order() int     { return b.Ord }
func (b *RunnerBase) Run() error {
	b.Log.Add("run", b.Nm)
	return nil
}

type PromotedPriorityRunner struct {
	definition.PriorityComponent
	RunnerBase
}
type PromotedOrderedRunner struct{ RunnerBase }

// PromotedPlainRunner: neither mark (unordered).
type PromotedPlainRunner struct {
	Nm  string
	Log *mon.Lifecycle
}

func (b *PromotedPlainRunner) Naming() string { return b.Nm }
func (b *PromotedPlainRunner) Run() error {
	b.Log.Add("run", b.Nm)
	return nil
}

// ClosingConfigure: a configure of the application's own (handed over with SetConfigure) that holds a resource and
// releases it in Close; it may be registered as a component too, so that other components can wire it.
type ClosingConfigure struct {
	configure.Configure
	Nm  string
	Log *mon.Lifecycle
}

func (w *ClosingConfigure) Naming() string { return w.Nm }
func (w *ClosingConfigure) Close() error {
	w.Log.Add("close-begin", w.Nm)
	w.Log.Add("close-end", w.Nm)
	return nil
}

// ConfigSubscriber: a closer that wires the application's configure.
type ConfigSubscriber struct {
	Source *ClosingConfigure `wire:",required=false"`
	V      string            `value:"${own.v:none}"`
	TopCloser
}
