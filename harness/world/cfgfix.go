package world

import "errors"

// Compile-time configuration holders that are fetched on demand (lazy).

// LazyAnyHolder binds loosely typed subtrees: what it receives is its own copy of the configured data.
type LazyAnyHolder struct {
	Nm string
	M  map[string]any `prefix:"k.m"`
	L  []any          `prefix:"k.l"`
	K  map[string]any `prefix:"k"`
	S  string         `value:"${k.m.a}"`
}

func (h *LazyAnyHolder) Naming() string { return h.Nm }
func (h *LazyAnyHolder) LazyInit()      {}

// RetryBound is fetched on demand and fails its first FailLeft initializations. The same keys are bound
// through a value placeholder, the prop shorthand and by prefix.
type RetryBound struct {
	Nm       string
	FailLeft int
	ViaValue string   `value:"${k.s}"`
	ViaProp  string   `prop:"k.s"`
	ViaPref  string   `prefix:"k.s"`
	IntValue int      `value:"${k.i}"`
	IntProp  int      `prop:"k.i"`
	IntPref  int      `prefix:"k.i"`
	LValue   []string `value:"${k.l}"`
	LPref    []string `prefix:"k.l"`
	Sect     struct {
		Who string `yaml:"who"`
	} `prefix:"sect.${k.s}"`
}

func (h *RetryBound) Naming() string { return h.Nm }
func (h *RetryBound) LazyInit()      {}
func (h *RetryBound) Init() error {
	if h.FailLeft > 0 {
		h.FailLeft--
		return errors.New("injected transient fault: init of " + h.Nm)
	}
	return nil
}

// MapperStruct: the same struct decoded by its yaml names (default) or, with the mapper argument, by
// another tag's names.
type MapperStruct struct {
	Host string `yaml:"host-y" json:"host-j"`
	Port int    `yaml:"port-y" json:"port-j"`
}

// PrefixedDB implements ConfigurationProperties: an untagged field of this type is bound from "db". A
// field that carries an explicit prefix tag is bound from the tag's path - the tag wins.
type PrefixedDB struct {
	Host string `yaml:"host"`
	Port int    `yaml:"port"`
}

func (PrefixedDB) Prefix() string { return "db" }

// A configuration struct with an untagged embedded struct: the embedded struct's members sit under its own key
// (db.pool.size), not among the keys of the embedding struct (db.size).
type PoolCfg struct {
	Size    int
	Backend string
}
type DBCfg struct {
	PoolCfg
	Size int
	Name string
}

// NamedSource: one properties type serving several subtrees - its prefix depends on the state of the instance the
// field holds (a nil or unnamed one answers for the default subtree).
type NamedSource struct {
	name string
	Host string `yaml:"host"`
	Port int    `yaml:"port"`
}

func NewNamedSource(name string) *NamedSource { return &NamedSource{name: name} }
func (d *NamedSource) Prefix() string {
	if d == nil || d.name == "" {
		return "datasource.default"
	}
	return "datasource." + d.name
}
