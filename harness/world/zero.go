package world

// Zero-size (stateless) component types. In Go all pointers to zero-size values may share one
// address (runtime.zerobase), yet they are distinct components of distinct types: anything that
// identifies components by address confuses them.

type ZProvA struct{} // IA, named
type ZProvB struct{} // IA + IB, Primary, named
type ZProvC struct{} // IA, qualifier g1, named
type ZProvD struct{} // IA, unnamed (default name)
type ZProvE struct{} // IB, qualifier G1, named

func (*ZProvA) Naming() string    { return "zero-prov-a" }
func (*ZProvA) A()                {}
func (*ZProvB) Naming() string    { return "zero-prov-b" }
func (*ZProvB) A()                {}
func (*ZProvB) B()                {}
func (*ZProvB) Primary()          {}
func (*ZProvC) Naming() string    { return "zero-prov-c" }
func (*ZProvC) A()                {}
func (*ZProvC) Qualifier() string { return "g1" }
func (*ZProvD) A()                {}
func (*ZProvE) Naming() string    { return "zero-prov-e" }
func (*ZProvE) B()                {}
func (*ZProvE) Qualifier() string { return "G1" }

// ZeroProviders returns a seeded subset (possibly empty) of the zero-size providers.
func ZeroProviders(pick func(n int) int) []any {
	all := []any{&ZProvA{}, &ZProvB{}, &ZProvC{}, &ZProvD{}, &ZProvE{}}
	var out []any
	if pick(3) != 0 {
		return nil
	}
	for _, p := range all {
		if pick(2) == 0 {
			out = append(out, p)
		}
	}
	return out
}

// Zero-size runners: Run is logged to the log installed by SetZeroLog.
type ZRunnerA struct{}
type ZRunnerB struct{}
type ZRunnerC struct{}

func zeroRun(name string) error {
	zeroLog.Load().Add("run", name)
	return nil
}
func (*ZRunnerA) Naming() string { return "zero-runner-a" }
func (*ZRunnerB) Naming() string { return "zero-runner-b" }
func (*ZRunnerC) Naming() string { return "zero-runner-c" }
func (*ZRunnerA) Run() error     { return zeroRun("zero-runner-a") }
func (*ZRunnerB) Run() error     { return zeroRun("zero-runner-b") }
func (*ZRunnerC) Run() error     { return zeroRun("zero-runner-c") }

// Zero-size substitutes of two different types (for substituting post-processors).
type ZWrap1 struct{}
type ZWrap2 struct{}

func (*ZWrap1) A() {}
func (*ZWrap1) B() {}
func (*ZWrap1) C() {}
func (*ZWrap2) A() {}
func (*ZWrap2) B() {}
func (*ZWrap2) C() {}

// Providers that are not pointers to structs: legal components all the same (they have no fields to tag,
// they only provide).
type IntProv int
type MapProv map[string]string
type SigProv chan struct{}

func (*IntProv) A()             {}
func (*IntProv) Naming() string { return "int-prov" }
func (*MapProv) A()             {}
func (*MapProv) B()             {}
func (SigProv) B()              {}
func (SigProv) Naming() string  { return "sig-prov" }

// NonStructProviders returns a seeded subset (possibly empty) of them; fresh values per call.
func NonStructProviders(pick func(n int) int) []any {
	if pick(3) != 0 {
		return nil
	}
	var out []any
	if pick(2) == 0 {
		v := IntProv(7)
		out = append(out, &v)
	}
	if pick(2) == 0 {
		m := MapProv{"k": "v"}
		out = append(out, &m)
	}
	if pick(2) == 0 {
		out = append(out, SigProv(make(chan struct{})))
	}
	return out
}
