package world

import (
	"fmt"
	"strings"

	"github.com/go-kid/ioc/syslog"
)

// Compile-time holder types for struct shapes that reflect.StructOf cannot build: embedded structs
// whose own type name is unexported. Their exported fields are promoted and settable, so tags on
// them must be processed exactly as if the fields were declared directly on the component.

type lowerBase struct {
	D IA     `wire:"pab"`
	V string `value:"hello"`
	P int    `prop:"c11.i"`
	u int    `value:"5"` // unexported: must stay untouched
	N string // untagged: must stay untouched
}

type UpperMid struct {
	lowerBase
	M string `value:"mid"`
}

type lowerOuter struct {
	UpperMid
	O []string `prefix:"c11.l"`
}

type EmbedFixture interface {
	Check(nameOf func(any) string) []string
}

type HolderFlat struct {
	D IA     `wire:"pab"`
	V string `value:"hello"`
	P int    `prop:"c11.i"`
	u int    `value:"5"`
	N string
}

type HolderLowerDirect struct {
	lowerBase
	Own string `value:"own"`
}

type HolderLowerBelowUpper struct {
	UpperMid
	Own string `value:"own"`
}

type HolderLowerChain struct {
	lowerOuter
	Own string `value:"own"`
}

func checkBase(prefix string, d IA, v string, p int, u int, n string, nameOf func(any) string) []string {
	var out []string
	if d == nil || nameOf(d) != "pab" {
		out = append(out, fmt.Sprintf("%s.D (wire:\"pab\") holds %q", prefix, nameOf(d)))
	}
	if v != "hello" {
		out = append(out, fmt.Sprintf("%s.V (value:\"hello\") holds %q", prefix, v))
	}
	if p != 17 {
		out = append(out, fmt.Sprintf("%s.P (prop:\"c11.i\") holds %d, expected 17", prefix, p))
	}
	if u != 777 {
		out = append(out, fmt.Sprintf("%s.u (unexported sentinel) was modified: %d", prefix, u))
	}
	if n != "SENTINEL" {
		out = append(out, fmt.Sprintf("%s.N (untagged sentinel) was modified: %q", prefix, n))
	}
	return out
}

func (h *HolderFlat) Check(nameOf func(any) string) []string {
	return checkBase("HolderFlat", h.D, h.V, h.P, h.u, h.N, nameOf)
}
func (h *HolderLowerDirect) Check(nameOf func(any) string) []string {
	out := checkBase("HolderLowerDirect.lowerBase", h.D, h.V, h.P, h.u, h.N, nameOf)
	if h.Own != "own" {
		out = append(out, "HolderLowerDirect.Own not bound")
	}
	return out
}
func (h *HolderLowerBelowUpper) Check(nameOf func(any) string) []string {
	out := checkBase("HolderLowerBelowUpper.UpperMid.lowerBase", h.D, h.V, h.P, h.u, h.N, nameOf)
	if h.M != "mid" || h.Own != "own" {
		out = append(out, fmt.Sprintf("HolderLowerBelowUpper: M=%q Own=%q", h.M, h.Own))
	}
	return out
}
func (h *HolderLowerChain) Check(nameOf func(any) string) []string {
	out := checkBase("HolderLowerChain.lowerOuter.UpperMid.lowerBase", h.D, h.V, h.P, h.u, h.N, nameOf)
	if h.M != "mid" || h.Own != "own" || fmt.Sprint(h.O) != "[p q r]" {
		out = append(out, fmt.Sprintf("HolderLowerChain: M=%q Own=%q O=%v", h.M, h.Own, h.O))
	}
	return out
}

// Function-local types: two distinct types that share package path AND name ("base"), one without
// any settable field and one with tagged fields (a trap for caches keyed by type name).
// NewLocalTypeFixtures returns two holders (of function-local types embedding function-local types
// both named "base") and a checker.
func NewLocalTypeFixtures() (first any, second any, check func(nameOf func(any) string) []string) {
	mk1 := func() any {
		type base struct {
			x int //nolint:unused
			y string
		}
		type HolderLocal1 struct {
			base
			Own string `value:"own1"`
		}
		return &HolderLocal1{}
	}
	type base struct {
		V string `value:"hello"`
		D IA     `wire:"pab"`
	}
	type HolderLocal2 struct {
		base
		Own string `value:"own2"`
	}
	h2 := &HolderLocal2{}
	h1 := mk1()
	return h1, h2, func(nameOf func(any) string) []string {
		var out []string
		if h2.V != "hello" || h2.D == nil || nameOf(h2.D) != "pab" || h2.Own != "own2" {
			out = append(out, fmt.Sprintf("HolderLocal2 (embeds a function-local type named base): V=%q D=%q Own=%q", h2.V, nameOf(h2.D), h2.Own))
		}
		return out
	}
}

// Two sibling mix-ins that each declare a field named Store (legal Go: the selector h.Store would be
// ambiguous, the fields themselves are distinct), plus an outer field shadowing a promoted one.
type MixA struct {
	Store IA `wire:"pa"`
}
type MixB struct {
	Store IA `wire:"pab"`
}
type MixC struct {
	Level string `value:"inner"`
}
type HolderSiblings struct {
	MixA
	MixB
	MixC
	Level string `value:"outer"` // shadows MixC.Level
}

func (h *HolderSiblings) Check(nameOf func(any) string) []string {
	var out []string
	if nameOf(h.MixA.Store) != "pa" || nameOf(h.MixB.Store) != "pab" {
		out = append(out, fmt.Sprintf("HolderSiblings: MixA.Store=%q (want pa) MixB.Store=%q (want pab): equally named fields of sibling embedded structs are distinct fields", nameOf(h.MixA.Store), nameOf(h.MixB.Store)))
	}
	if h.Level != "outer" || h.MixC.Level != "inner" {
		out = append(out, fmt.Sprintf("HolderSiblings: Level=%q (want outer) MixC.Level=%q (want inner)", h.Level, h.MixC.Level))
	}
	return out
}

// An embedded *pointer* to a struct is not looked into, whether the pointer is nil or not: the struct
// behind it belongs to somebody else.
type SharedState struct {
	V string        `value:"hello"`
	D IA            `wire:"pab"`
	L syslog.Logger `logger:""`
}
type HolderPtrEmbedded struct {
	*SharedState
	Own string `value:"own"`
}

func (h *HolderPtrEmbedded) Check(nameOf func(any) string) []string {
	var out []string
	if h.Own != "own" {
		out = append(out, "HolderPtrEmbedded.Own not bound")
	}
	if h.SharedState == nil || h.SharedState.V != "SENTINEL" || h.SharedState.D != nil || h.SharedState.L != nil {
		out = append(out, fmt.Sprintf("HolderPtrEmbedded: the struct behind the embedded pointer was written: %+v", h.SharedState))
	}
	return out
}

// An embedded mix-in whose value type happens to implement ConfigurationProperties (value receiver): it
// carries no tag, it is looked into like every anonymous by-value struct, and its untagged fields are
// not the container's to write. The same type as a *named, tagged* field is bound as a whole.
type PrefixedMix struct {
	Keep   string `yaml:"keep"`
	Tagged string `value:"tv"`
	Num    int    `yaml:"i"`
	hidden int
}

func (PrefixedMix) Prefix() string { return "c11" }

type HolderPrefixedEmbed struct {
	PrefixedMix
	Own string `value:"own"`
}

func (h *HolderPrefixedEmbed) Check(nameOf func(any) string) []string {
	var out []string
	if h.Keep != "SENTINEL" || h.Num != 4242 || h.hidden != 777 {
		out = append(out, fmt.Sprintf("HolderPrefixedEmbed: untagged fields of the embedded mix-in were written: Keep=%q Num=%d hidden=%d", h.Keep, h.Num, h.hidden))
	}
	if h.Tagged != "tv" || h.Own != "own" {
		out = append(out, fmt.Sprintf("HolderPrefixedEmbed: Tagged=%q (want tv) Own=%q (want own)", h.Tagged, h.Own))
	}
	return out
}

// Logger fields: the default prefix of a logger:"" field is the component, wherever the field is declared.
type LogMix struct {
	L syslog.Logger `logger:""`
}
type LogMixOuter struct {
	LogMix
	X string `value:"x"`
}
type HolderLogger struct {
	LogMixOuter
	Direct syslog.Logger `logger:""`
	Named  syslog.Logger `logger:"custom-prefix"`
	// with the embed argument the prefix names the struct the field is declared in: for a field declared
	// directly on the component (here: after an embedded struct) that is the component itself
	Own syslog.Logger `logger:",embed"`
}

func (h *HolderLogger) Check(nameOf func(any) string) []string {
	var out []string
	if h.Direct == nil || h.L == nil || h.Named == nil {
		return []string{fmt.Sprintf("HolderLogger: logger fields not set: Direct=%v embedded L=%v Named=%v", h.Direct, h.L, h.Named)}
	}
	pd, ok1 := PrefixOf(h.Direct)
	pe, ok2 := PrefixOf(h.L)
	pn, ok3 := PrefixOf(h.Named)
	if ok1 && ok2 && pd != pe {
		out = append(out, fmt.Sprintf("HolderLogger: logger:\"\" declared directly got prefix %q, the same tag two embedding levels down got %q", pd, pe))
	}
	if po, ok4 := PrefixOf(h.Own); ok4 && ok1 && (po != pd || strings.Contains(po, ".Embed(")) {
		out = append(out, fmt.Sprintf("HolderLogger: logger:\",embed\" on a field declared directly on the component got prefix %q, the component is %q", po, pd))
	}
	if ok3 && pn != "custom-prefix" {
		out = append(out, fmt.Sprintf("HolderLogger: logger:\"custom-prefix\" got prefix %q", pn))
	}
	return out
}

// Embedded structs that carry a tag are fields like any other, not holders to look into: a user-defined
// tag on one is delivered to its processor (with the embedded field itself), a foreign tag
// (json:",inline") makes the container leave the whole field alone. Either way the tags inside are not
// the container's business.
type Stamped struct {
	Inner string `value:"inner"`
}
type OptionsMix struct {
	W IA     `wire:"pab"`
	V string `value:"v"`
}
type HolderTaggedEmbeds struct {
	Stamped    `mytag:"created"`
	OptionsMix `json:",inline"`
	Own        string `value:"own"`
}

func (h *HolderTaggedEmbeds) Check(nameOf func(any) string) []string {
	var out []string
	if h.Inner != "SENTINEL" || h.W != nil || h.V != "SENTINEL" {
		out = append(out, fmt.Sprintf("HolderTaggedEmbeds: fields inside tagged embedded structs were written: Stamped.Inner=%q OptionsMix.W=%q OptionsMix.V=%q", h.Inner, nameOf(h.W), h.V))
	}
	if h.Own != "own" {
		out = append(out, "HolderTaggedEmbeds.Own not bound")
	}
	return out
}

// One field, one binding: a field that carries a processor's tag is not offered to that processor's
// extract handler as well (value next to prop; an explicit prefix tag on a type that announces a prefix).
type PrefixedC11 struct {
	S string `yaml:"s"`
	N int    `yaml:"n"`
}

func (PrefixedC11) Prefix() string { return "c11.elsewhere" }

type HolderBothTags struct {
	N  int         `value:"1" prop:"c11.i"`
	DB PrefixedC11 `prefix:"c11.sub"`
}

func (h *HolderBothTags) Check(nameOf func(any) string) []string {
	var out []string
	if h.N != 1 {
		out = append(out, fmt.Sprintf("HolderBothTags.N `value:\"1\" prop:\"c11.i\"` = %d, the value tag says 1", h.N))
	}
	if h.DB != (PrefixedC11{S: "nested-value", N: 5}) {
		out = append(out, fmt.Sprintf("HolderBothTags.DB `prefix:\"c11.sub\"` = %+v, configured {nested-value 5}", h.DB))
	}
	return out
}

// A by-value field whose type has Prefix() on the POINTER receiver only is not a ConfigurationProperties
// value: untagged (or foreign-tagged), it is not the container's to write.
type PtrPrefixed struct {
	Keep string `yaml:"s"`
	N    int    `yaml:"n"`
}

func (*PtrPrefixed) Prefix() string { return "c11.sub" }

type HolderPtrPrefixed struct {
	Defaults PtrPrefixed
	Shadow   PtrPrefixed `json:"shadow"`
	Own      string      `value:"own"`
}

func (h *HolderPtrPrefixed) Check(nameOf func(any) string) []string {
	var out []string
	want := PtrPrefixed{Keep: "SENTINEL", N: 4242}
	if h.Defaults != want || h.Shadow != want {
		out = append(out, fmt.Sprintf("HolderPtrPrefixed: untagged / foreign-tagged by-value fields were written: Defaults=%+v Shadow=%+v", h.Defaults, h.Shadow))
	}
	if h.Own != "own" {
		out = append(out, "HolderPtrPrefixed.Own not bound")
	}
	return out
}

// NewEmbedFixtures returns fresh fixture holders with sentinels in the fields the container must not touch.
// Blank (padding / no-copy / alignment) fields in front of tagged fields, directly and inside an embedded
// struct: every tag is applied to the field that carries it.
type BlankMix struct {
	_     [0]func()
	Name  string
	_     struct{}
	Title string `value:"hello"`
	Count int    `prop:"c11.i"`
}

type HolderBlank struct {
	_ struct{}
	N string
	V string `value:"own"`
	_ int32
	D IA `wire:"pab"`
	BlankMix
}

func (h *HolderBlank) Check(nameOf func(any) string) []string {
	var out []string
	if h.N != "SENTINEL" || h.Name != "SENTINEL" {
		out = append(out, fmt.Sprintf("untagged fields next to blank fields were written: N=%q Name=%q", h.N, h.Name))
	}
	if h.V != "own" || h.Title != "hello" || h.Count != 17 || nameOf(h.D) != "pab" {
		out = append(out, fmt.Sprintf("tagged fields behind blank fields: V=%q Title=%q Count=%d D=%s, expected own / hello / 17 / pab", h.V, h.Title, h.Count, nameOf(h.D)))
	}
	return out
}

// One struct type embedded by value through two paths: both copies are scanned.
type AuditMix struct {
	Tag string `value:"audit"`
	Dep IA     `wire:"pa"`
}
type ReaderMix struct {
	AuditMix
	R string `value:"r"`
}
type WriterMix struct {
	AuditMix
	W string `value:"w"`
}
type HolderTwoPaths struct {
	ReaderMix
	WriterMix
}

func (h *HolderTwoPaths) Check(nameOf func(any) string) []string {
	var out []string
	for path, a := range map[string]*AuditMix{"ReaderMix.AuditMix": &h.ReaderMix.AuditMix, "WriterMix.AuditMix": &h.WriterMix.AuditMix} {
		if a.Tag != "audit" || nameOf(a.Dep) != "pa" {
			out = append(out, fmt.Sprintf("%s: Tag=%q Dep=%s, expected audit / pa (the same struct type is embedded through two paths)", path, a.Tag, nameOf(a.Dep)))
		}
	}
	if h.R != "r" || h.W != "w" {
		out = append(out, fmt.Sprintf("R=%q W=%q", h.R, h.W))
	}
	return out
}

func NewEmbedFixtures() []EmbedFixture {
	a := &HolderFlat{u: 777, N: "SENTINEL"}
	b := &HolderLowerDirect{}
	b.u, b.N = 777, "SENTINEL"
	c := &HolderLowerBelowUpper{}
	c.u, c.N = 777, "SENTINEL"
	d := &HolderLowerChain{}
	d.u, d.N = 777, "SENTINEL"
	return []EmbedFixture{a, b, c, d, &HolderSiblings{}, &HolderPtrEmbedded{SharedState: &SharedState{V: "SENTINEL"}},
		&HolderLogger{},
		&HolderBlank{N: "SENTINEL", BlankMix: BlankMix{Name: "SENTINEL"}},
		&HolderTwoPaths{},
		&HolderZeroMarks{},
		&HolderBothTags{},
		&HolderPtrPrefixed{Defaults: PtrPrefixed{Keep: "SENTINEL", N: 4242}, Shadow: PtrPrefixed{Keep: "SENTINEL", N: 4242}},
		&HolderTaggedEmbeds{Stamped: Stamped{Inner: "SENTINEL"}, OptionsMix: OptionsMix{V: "SENTINEL"}},
		&HolderPrefixedEmbed{PrefixedMix: PrefixedMix{Keep: "SENTINEL", Num: 4242, hidden: 777}}}
}

// An embedded struct that consists of zero-size tagged marker fields only (route / permission markers): it
// has size 0 and is scanned all the same. The user tag `mytag` is on the marker fields; `latetag` is the tag
// of a user processor that learns its tag name only when the factory is prepared.
type RouteMarks struct {
	List struct{} `mytag:"GET /list,k=a"`
	Del  [0]int   `mytag:"DELETE /item"`
}
type HolderZeroMarks struct {
	RouteMarks
	Own   string `value:"own"`
	Topic string `latetag:"orders,k=v"`
}

func (h *HolderZeroMarks) Check(nameOf func(any) string) []string {
	if h.Own != "own" {
		return []string{fmt.Sprintf("Own=%q, expected own", h.Own)}
	}
	return nil
}
