// Package world holds the scenario "world": palette node types whose wiring is decided at run
// time (dynamic tags through ExtractHandler), the scenario runner that starts the real container
// under the monitors, the black-box observer, and the reference resolution model.
package world

import (
	"context"
	"errors"
	"fmt"
	"strings"

	"github.com/go-kid/ioc/syslog"
	"verifharness/mon"
)

// ---------------------------------------------------------------------------------------------
// quiet logger: no output, but Panic/Panicf still panic (the registry relies on that to reject
// duplicates).

type quiet struct{}

func (quiet) Level(syslog.Lv) syslog.Logger { return quiet{} }
func (quiet) Pref(p any) syslog.Logger      { return prefixed{P: fmt.Sprint(p)} }

// prefixed is what the quiet logger hands out for a prefix: it remembers the prefix, so a monitor can tell
// which prefix a logger field was given.
type prefixed struct {
	quiet
	P string
}

// PrefixOf returns the prefix a logger handed out by the quiet logger was made for ("", false otherwise).
func PrefixOf(l syslog.Logger) (string, bool) {
	if p, ok := l.(prefixed); ok {
		return p.P, true
	}
	return "", false
}

func (quiet) Trace(...any)              {}
func (quiet) Tracef(string, ...any)     {}
func (quiet) Debug(...any)              {}
func (quiet) Debugf(string, ...any)     {}
func (quiet) Info(...any)               {}
func (quiet) Infof(string, ...any)      {}
func (quiet) Warn(...any)               {}
func (quiet) Warnf(string, ...any)      {}
func (quiet) Error(...any)              {}
func (quiet) Errorf(string, ...any)     {}
func (quiet) Panic(v ...any)            { panic(fmt.Sprint(v...)) }
func (quiet) Panicf(f string, v ...any) { panic(fmt.Sprintf(f, v...)) }
func (quiet) Fatal(v ...any)            { panic("FATAL: " + fmt.Sprint(v...)) }
func (quiet) Fatalf(f string, v ...any) { panic("FATAL: " + fmt.Sprintf(f, v...)) }

var Quiet syslog.Logger = quiet{}

// Logger is what Build installs through app.SetLogger (Quiet unless a worker switches to the
// repository's own logger for race runs).
var Logger syslog.Logger = Quiet

// InstallRealLogger switches the process to the repository's own logger implementation at level
// Error (exercises its code paths under the race detector; little output).
func InstallRealLogger(prefixes ...string) {
	Logger = syslog.New(syslog.LvError)
	// (an application-supplied logger usually carries prefixes of its own)
	for _, p := range prefixes {
		Logger = Logger.Pref(p)
	}
	syslog.SetLogger(Logger)
}

// silent: like quiet, but Panic/Panicf do not panic (a log level above Panic): duplicate
// registrations are then dropped silently by the registry.
type silent struct{ quiet }

func (silent) Level(syslog.Lv) syslog.Logger { return silent{} }
func (silent) Pref(any) syslog.Logger        { return silent{} }
func (silent) Panic(v ...any)                {}
func (silent) Panicf(f string, v ...any)     {}

// InstallSilentLogger: must be the first thing a process does with syslog (prefix loggers are cached).
func InstallSilentLogger() {
	Logger = silent{}
	syslog.SetLogger(Logger)
}

// InstallQuietLogger must be called before anything else touches syslog (prefix loggers are
// cached with the logger they were derived from).
func InstallQuietLogger() { syslog.SetLogger(Quiet) }

// ClassifyRace maps a de-duplicated race signature to a known-finding class id.
func ClassifyRace(sig string) string {
	if strings.Contains(sig, "applyDefinitionRegistryPostProcessors") {
		return "F-C20-scan-errs"
	}
	return ""
}

// ---------------------------------------------------------------------------------------------
// palette interfaces

type IA interface{ A() }
type IB interface{ B() }
type IC interface{ C() }
type IAB interface {
	IA
	IB
}

// Core is the per-instance data of a palette node. It is a *named* struct field of every palette
// type, so the container does not look into it.
type Core struct {
	Idx   int    // index in the scenario
	Name  string // Naming()
	Qual  string // Qualifier()
	KindV string // Kind()
	Ord   int    // Order()
	Log   *mon.Lifecycle
	Fails map[string]bool // "init" | "aps" | "run" | "close" -> return an error
	// FailOnce: like Fails, but only the first invocation fails (transient fault)
	FailOnce map[string]bool
	Hook     func(kind string, who Node)
	// ZeroErr: injected faults are reported with an error of a field-less value type (a sentinel like
	// `type errNotLeader struct{}`), whose value equals its zero value
	ZeroErr bool
	// TypedNilErr: a failing Close returns a typed nil pointer as its error
	TypedNilErr bool
	// CauseErr: injected faults are reported with an application error type that follows the Cause()
	// convention and has no underlying cause (its Cause() returns nil)
	CauseErr bool
	// CancelErr: injected faults are reported as context.Canceled (odd indices: wrapped with %w)
	CancelErr bool
	// CloseFn, when set, runs between close-begin and close-end (gates, delays).
	CloseFn func(who Node)
}

func (k *Core) ev(kind string, who Node) error {
	name := who.DisplayName()
	k.Log.Add(kind, name)
	if k.Hook != nil {
		k.Hook(kind, who)
	}
	if k.Fails[kind] {
		if k.ZeroErr {
			return zeroErr{}
		}
		if k.CauseErr {
			return &OpErr{Op: kind + " of " + name}
		}
		if k.CancelErr {
			if k.Idx%2 == 1 {
				return fmt.Errorf("injected fault: %s of %s gave up: %w", kind, name, context.Canceled)
			}
			return context.Canceled
		}
		return errors.New("injected fault: " + kind + " of " + name)
	}
	if k.FailOnce[kind] {
		delete(k.FailOnce, kind)
		return errors.New("injected transient fault: " + kind + " of " + name)
	}
	return nil
}

func (k *Core) closeEv(who Node) error {
	name := who.DisplayName()
	k.Log.Add("close-begin", name)
	if k.CloseFn != nil {
		k.CloseFn(who)
	}
	k.Log.Add("close-end", name)
	if k.Fails["close"] {
		if k.TypedNilErr {
			var e *fieldErr // a typed nil pointer returned as error: non-nil as an interface value
			return e
		}
		return errors.New("injected fault: close of " + name)
	}
	return nil
}

// fieldErr's Error method reads a field: calling it on a nil receiver panics (fmt tolerates that, a
// direct call does not).
type fieldErr struct{ msg string }

func (e *fieldErr) Error() string { return e.msg }

// OpErr is an application error in the style `type StartupError struct{ Op string; Err error }` with a
// Cause() method; the injected ones have no underlying cause.
type OpErr struct {
	Op  string
	Err error
}

func (e *OpErr) Error() string { return "injected fault (application error type): " + e.Op }
func (e *OpErr) Cause() error  { return e.Err }

type zeroErr struct{}

func (zeroErr) Error() string { return "injected fault (value-typed sentinel error)" }

// Node is implemented by every palette type.
type Node interface {
	Core() *Core
	Slot() *Slots
	TypeIdx() int
	DisplayName() string
}

// TypeInfo describes a palette type (generated table, palette_gen.go).
type TypeInfo struct {
	Idx                      int
	TypeName                 string
	A, B, C                  bool
	Primary, Lazy, Qualifier bool
	Init, Aps                bool
	Runner, Closer           bool
	Ordered, Priority        bool // Ordered: has Order(); Priority: has Priority()
	Mark, Kind               bool
	New                      func() Node
	DefaultName              string // package path + type name
}

const PkgPath = "verifharness/world"

func (t *TypeInfo) Implements(iface string) bool {
	switch iface {
	case "IA":
		return t.A
	case "IB":
		return t.B
	case "IC":
		return t.C
	case "IAB":
		return t.A && t.B
	case "any":
		return true
	}
	return false
}
