package world

import (
	"fmt"
	"math/rand"
	"sort"
	"strings"
)

// G builds scenarios: nodes of palette types plus edges realised as per-instance tags.
type G struct {
	Rng *rand.Rand
	Sc  *Scenario
}

func NewG(rng *rand.Rand) *G { return &G{Rng: rng, Sc: &Scenario{}} }

// name pools on both sides of "github.com/go-kid/ioc/app/App" in the name-sorted refresh.
var lowPrefix = []string{"a", "b", "c", "d", "e", "f"}
var highPrefix = []string{"h", "k", "n", "q", "v", "z"}

func (g *G) FreshName(i int) string {
	var p string
	if g.Rng.Intn(2) == 0 {
		p = lowPrefix[g.Rng.Intn(len(lowPrefix))]
	} else {
		p = highPrefix[g.Rng.Intn(len(highPrefix))]
	}
	return fmt.Sprintf("%s%d", p, i)
}

// AddNode appends a node; name "" means unnamed (default name) – allowed once per type.
func (g *G) AddNode(typ int, name string) int {
	g.Sc.Nodes = append(g.Sc.Nodes, NodeSpec{Type: typ, Name: name, Tags: map[string]TagSpec{}})
	return len(g.Sc.Nodes) - 1
}

func (g *G) HasUnnamed(typ int) bool {
	for _, n := range g.Sc.Nodes {
		if n.Type == typ && n.Name == "" {
			return true
		}
	}
	return false
}

// AddRandomNode picks a type from the given list; unnamed with probability pUnnamed when the
// type has no unnamed instance yet.
func (g *G) AddRandomNode(types []int, pUnnamed float64) int {
	t := types[g.Rng.Intn(len(types))]
	name := ""
	if g.HasUnnamed(t) || g.Rng.Float64() >= pUnnamed {
		name = g.FreshName(len(g.Sc.Nodes))
	}
	return g.AddNode(t, name)
}

// SingleSlotsFor lists the free single-valued slots of node i that can hold node j.
// kinds: "ptr", "iface", "any" (empty = all).
func (g *G) SingleSlotsFor(i, j int, kinds ...string) []string {
	want := func(k string) bool {
		if len(kinds) == 0 {
			return true
		}
		for _, x := range kinds {
			if x == k {
				return true
			}
		}
		return false
	}
	tj := Palette[g.Sc.Nodes[j].Type]
	var out []string
	for _, si := range SlotTable {
		if _, used := g.Sc.Nodes[i].Tags[si.Name]; used {
			continue
		}
		switch si.Kind {
		case "ptr":
			if want("ptr") && si.Type == tj.Idx {
				out = append(out, si.Name)
			}
		case "iface":
			if si.Iface == "any" {
				if want("any") {
					out = append(out, si.Name)
				}
			} else if want("iface") && tj.Implements(si.Iface) {
				out = append(out, si.Name)
			}
		}
	}
	return out
}

// EdgeByName wires a free single-valued slot of i to j by j's name. Returns the slot or "".
func (g *G) EdgeByName(i, j int, args string, kinds ...string) string {
	slots := g.SingleSlotsFor(i, j, kinds...)
	if len(slots) == 0 {
		return ""
	}
	s := slots[g.Rng.Intn(len(slots))]
	g.Sc.Nodes[i].Tags[s] = TagSpec{Tag: "wire", Val: g.Sc.Nodes[j].DisplayName() + args}
	return s
}

// SetTag sets an arbitrary tag on a slot.
func (g *G) SetTag(i int, slot, tag, val string) {
	g.Sc.Nodes[i].Tags[slot] = TagSpec{Tag: tag, Val: val}
}

func (g *G) FreeSlots(i int, pred func(SlotInfo) bool) []string {
	var out []string
	for _, si := range SlotTable {
		if _, used := g.Sc.Nodes[i].Tags[si.Name]; used {
			continue
		}
		if pred(si) {
			out = append(out, si.Name)
		}
	}
	return out
}

func SlotByName(name string) SlotInfo {
	for _, si := range SlotTable {
		if si.Name == name {
			return si
		}
	}
	return SlotInfo{}
}

// ShuffleOrders fills registration order and order control from the rng.
func (g *G) ShuffleOrders() {
	n := len(g.Sc.Nodes)
	g.Sc.RegOrder = g.Rng.Perm(n)
	modes := []string{"random", "random", "sorted", "reversed", "native"}
	g.Sc.Order = OrderCtl{DefMode: modes[g.Rng.Intn(len(modes))], DefSeed: g.Rng.Int63(), ShuffleNames: g.Rng.Intn(2) == 0, NamesSeed: g.Rng.Int63()}
}

// Types with all three of: interface IA, a pointer slot.
var TypesWithA = typesWhere(func(t *TypeInfo) bool { return t.A })
var TypesWithB = typesWhere(func(t *TypeInfo) bool { return t.B })
var TypesWithC = typesWhere(func(t *TypeInfo) bool { return t.C })
var TypesPlain = typesWhere(func(t *TypeInfo) bool { return !t.Runner && !t.Closer })
var TypesEagerPlain = typesWhere(func(t *TypeInfo) bool { return !t.Runner && !t.Closer && !t.Lazy })
var TypesRunner = typesWhere(func(t *TypeInfo) bool { return t.Runner })
var TypesCloser = typesWhere(func(t *TypeInfo) bool { return t.Closer })
var TypesAll = typesWhere(func(t *TypeInfo) bool { return true })

func typesWhere(p func(t *TypeInfo) bool) []int {
	var out []int
	for _, t := range Palette {
		if p(t) {
			out = append(out, t.Idx)
		}
	}
	return out
}

// ---------------------------------------------------------------------------------------------
// graph canonicalisation (for distinct counting)

// GraphSig renders the scenario's wiring in a name-independent form: node types + attributes and
// the tags with names replaced by node indices.
func (sc *Scenario) GraphSig() string {
	names := map[string]int{}
	for i := range sc.Nodes {
		names[sc.Nodes[i].DisplayName()] = i
	}
	var sb strings.Builder
	for i := range sc.Nodes {
		n := &sc.Nodes[i]
		fmt.Fprintf(&sb, "N%d:t%d:%v:q%s:f%v;", i, n.Type, n.Name != "", n.Qual, n.Fails)
		for _, s := range SortedSlots(n) {
			t := n.Tags[s]
			v, rest, _ := strings.Cut(t.Val, ",")
			if j, ok := names[v]; ok && t.Tag == "wire" {
				v = fmt.Sprintf("#%d", j)
			}
			fmt.Fprintf(&sb, "%s=%s:%s,%s;", s, t.Tag, v, rest)
		}
	}
	return sb.String()
}

// Adjacency derived from by-name edges only (for shape classification in evidence).
func (sc *Scenario) NamedAdj() [][]int {
	names := map[string]int{}
	for i := range sc.Nodes {
		names[sc.Nodes[i].DisplayName()] = i
	}
	adj := make([][]int, len(sc.Nodes))
	for i := range sc.Nodes {
		for _, s := range SortedSlots(&sc.Nodes[i]) {
			t := sc.Nodes[i].Tags[s]
			if t.Tag != "wire" {
				continue
			}
			v, _, _ := strings.Cut(t.Val, ",")
			if j, ok := names[v]; ok {
				adj[i] = append(adj[i], j)
			}
		}
	}
	return adj
}

// HasCycle / HasDiamond on an adjacency list.
func HasCycle(adj [][]int) bool {
	color := make([]int, len(adj))
	var dfs func(u int) bool
	dfs = func(u int) bool {
		color[u] = 1
		for _, v := range adj[u] {
			if color[v] == 1 {
				return true
			}
			if color[v] == 0 && dfs(v) {
				return true
			}
		}
		color[u] = 2
		return false
	}
	for u := range adj {
		if color[u] == 0 && dfs(u) {
			return true
		}
	}
	return false
}

// HasDiamond: some node reachable from another along two edge-disjoint first steps.
func HasDiamond(adj [][]int) bool {
	n := len(adj)
	reach := make([][]bool, n)
	for u := 0; u < n; u++ {
		reach[u] = make([]bool, n)
		stack := []int{u}
		for len(stack) > 0 {
			x := stack[len(stack)-1]
			stack = stack[:len(stack)-1]
			for _, v := range adj[x] {
				if !reach[u][v] {
					reach[u][v] = true
					stack = append(stack, v)
				}
			}
		}
	}
	for u := 0; u < n; u++ {
		succ := uniq(adj[u])
		for a := 0; a < len(succ); a++ {
			for b := a + 1; b < len(succ); b++ {
				for t := 0; t < n; t++ {
					ra := succ[a] == t || reach[succ[a]][t]
					rb := succ[b] == t || reach[succ[b]][t]
					if ra && rb && t != u {
						return true
					}
				}
			}
		}
	}
	return false
}

func uniq(xs []int) []int {
	ys := append([]int(nil), xs...)
	sort.Ints(ys)
	out := ys[:0]
	for i, y := range ys {
		if i == 0 || y != ys[i-1] {
			out = append(out, y)
		}
	}
	return out
}
