package world

import "fmt"

// A component that takes its points from a package-private mix-in embedded by value (the mix-in's type
// name is unexported, its exported fields are promoted and settable).
type lowerMixin struct {
	Dep IA     `wire:"mix-dep"`
	Opt IA     `wire:"mix-absent,required=false"`
	Cfg string `value:"${mix.key}"`
}

type MixinHolder struct {
	lowerMixin
	run        *Run
	SeenAtInit string
	Inits      int
}

func (h *MixinHolder) Naming() string { return "mixin-holder" }
func (h *MixinHolder) Bind(r *Run)    { h.run = r }
func (h *MixinHolder) Init() error {
	depInit := false
	for _, e := range h.run.Log.Events() {
		if e.Kind == "init" && e.Who == "mix-dep" {
			depInit = true
		}
	}
	h.Inits++
	h.SeenAtInit = fmt.Sprintf("dep-set=%v dep-initialised=%v cfg=%q opt-nil=%v", h.Dep != nil, depInit, h.Cfg, h.Opt == nil)
	h.run.Log.Add("init", "mixin-holder")
	return nil
}
