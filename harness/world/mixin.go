package world

import (
	"fmt"

	"github.com/go-kid/ioc/container/processors"
)

// A component that takes its points from a package-private mix-in embedded by value (the mix-in's type
// name is unexported, its exported fields are promoted and settable).
type lowerMixin struct {
	Dep IA     `wire:"mix-dep"`
	Opt IA     `wire:"mix-absent,required=false"`
	Cfg string `value:"${mix.key}"`
}

type MixinHolder struct {
	lowerMixin
	run        *Run
	SeenAtInit string
	Inits      int
}

func (h *MixinHolder) Naming() string { return "mixin-holder" }
func (h *MixinHolder) Bind(r *Run)    { h.run = r }
func (h *MixinHolder) Init() error {
	depInit := false
	for _, e := range h.run.Log.Events() {
		if e.Kind == "init" && e.Who == "mix-dep" {
			depInit = true
		}
	}
	h.Inits++
	h.SeenAtInit = fmt.Sprintf("dep-set=%v dep-initialised=%v cfg=%q opt-nil=%v", h.Dep != nil, depInit, h.Cfg, h.Opt == nil)
	h.run.Log.Add("init", "mixin-holder")
	return nil
}

// InitPP is a user post-processor that is itself a component with points and an Init of its own: like any
// component it is populated (and what it depends on initialised) before its Init.
type InitPP struct {
	processors.DefaultComponentPostProcessor
	Dep        IA     `wire:"mix-dep"`
	Cfg        string `value:"${mix.key}"`
	Ord        int
	run        *Run
	SeenAtInit string
	Inits      int
}

func (h *InitPP) Naming() string { return "init-pp" }
func (h *InitPP) Order() int     { return h.Ord }
func (h *InitPP) Bind(r *Run)    { h.run = r }
func (h *InitPP) Init() error {
	depInit := false
	for _, e := range h.run.Log.Events() {
		if e.Kind == "init" && e.Who == "mix-dep" {
			depInit = true
		}
	}
	h.Inits++
	h.SeenAtInit = fmt.Sprintf("dep-set=%v dep-initialised=%v cfg=%q", h.Dep != nil, depInit, h.Cfg)
	return nil
}

// EmbedIfaceHolder takes its dependency through an embedded interface that carries the tag itself (the
// decorator layout `type Cached struct { Store `wire:"..."` }`): a point like any other, set - and the
// (lazy) component behind it initialised - before the holder's own Init.
type EmbedIfaceHolder struct {
	IA         `wire:"mix-dep"`
	run        *Run
	SeenAtInit string
	Inits      int
}

func (h *EmbedIfaceHolder) Naming() string { return "embed-iface-holder" }
func (h *EmbedIfaceHolder) Bind(r *Run)    { h.run = r }
func (h *EmbedIfaceHolder) Init() error {
	depInit := false
	for _, e := range h.run.Log.Events() {
		if e.Kind == "init" && e.Who == "mix-dep" {
			depInit = true
		}
	}
	h.Inits++
	h.SeenAtInit = fmt.Sprintf("dep-set=%v dep-initialised=%v", h.IA != nil, depInit)
	h.run.Log.Add("init", "embed-iface-holder")
	return nil
}
