package world

// Holders whose self-referring injection point sits in an embedded struct that is NOT at offset 0 of the
// component (and one control at offset 0): the point's only candidate - or one of its candidates - is the
// component the embedded struct belongs to.
type SelfMarked interface{ SelfMark() }

type SelfOther struct{}

func (*SelfOther) SelfMark() {}

type EmbReq struct {
	Me SelfMarked `wire:""`
}
type EmbOpt struct {
	Me SelfMarked `wire:",required=false"`
}
type EmbSlice struct {
	All []SelfMarked `wire:""`
}
type EmbSliceOpt struct {
	All []SelfMarked `wire:",required=false"`
}
type EmbNamed struct {
	Me SelfMarked `wire:"self-holder"`
}
type EmbPtr struct {
	Me *SelfHolderPtr `wire:""`
}
type EmbDeep struct {
	Lead int
	EmbReq
}

type SelfHolderReq struct {
	Pad string
	EmbReq
}
type SelfHolderOpt struct {
	Pad [3]int
	EmbOpt
}
type SelfHolderSlice struct {
	Pad string
	EmbSlice
}
type SelfHolderSliceOpt struct {
	Pad string
	EmbSliceOpt
}
type SelfHolderNamed struct {
	Pad string
	EmbNamed
}
type SelfHolderPtr struct {
	Pad string
	EmbPtr
}
type SelfHolderDeep struct {
	Pad string
	EmbDeep
}
type SelfHolderZero struct {
	EmbReq
	Pad string
}

func (*SelfHolderReq) SelfMark()      {}
func (*SelfHolderOpt) SelfMark()      {}
func (*SelfHolderSlice) SelfMark()    {}
func (*SelfHolderSliceOpt) SelfMark() {}
func (*SelfHolderNamed) SelfMark()    {}
func (*SelfHolderPtr) SelfMark()      {}
func (*SelfHolderDeep) SelfMark()     {}
func (*SelfHolderZero) SelfMark()     {}

func (*SelfHolderNamed) Naming() string { return "self-holder" }

// SelfHolderKinds: constructor, whether the point is required, whether it is a slice, whether another
// SelfMarked component can satisfy it.
type SelfHolderKind struct {
	Label    string
	New      func() any
	Required bool
	Slice    bool
	OtherFit bool
}

var SelfHolderKinds = []SelfHolderKind{
	{"required interface point in an embed behind a field", func() any { return &SelfHolderReq{} }, true, false, true},
	{"optional interface point in an embed behind a field", func() any { return &SelfHolderOpt{} }, false, false, true},
	{"required slice point in an embed behind a field", func() any { return &SelfHolderSlice{} }, true, true, true},
	{"optional slice point in an embed behind a field", func() any { return &SelfHolderSliceOpt{} }, false, true, true},
	{"point naming its own component, in an embed behind a field", func() any { return &SelfHolderNamed{} }, true, false, false},
	{"pointer point of the holder's own type, in an embed behind a field", func() any { return &SelfHolderPtr{} }, true, false, false},
	{"required interface point two embeds deep", func() any { return &SelfHolderDeep{} }, true, false, true},
	{"required interface point in an embed at offset 0", func() any { return &SelfHolderZero{} }, true, false, true},
}

// A holder with two injection points whose struct fields carry the same name: they live in two embedded structs
// (reachable only through their embedding paths), each with a qualifier of its own.
type ReadDeps struct {
	Store IA   `wire:",qualifier=replica"`
	All   []IA `wire:",qualifier=replica,required=false"`
}
type WriteDeps struct {
	Store IA   `wire:",qualifier=primary"`
	All   []IA `wire:",qualifier=primary,required=false"`
}
type TwoStores struct {
	ReadDeps
	WriteDeps
}
