package world

import (
	"errors"

	"verifharness/mon"
)

// Logging configuration loaders of the three ordering classes.

type ldCore struct {
	Nm  string
	Ord int
	Doc []byte
	Err bool
	// ErrOnce: only the first call fails (a source that is not reachable yet)
	ErrOnce bool
	Log     *mon.Lifecycle
	Hits    int
	// Probe, when set, runs inside LoadConfig before the document is returned (a loader that inspects
	// the configuration loaded so far, profile / overlay style).
	Probe func()
}

func (l *ldCore) load() ([]byte, error) {
	l.Hits++
	l.Log.Add("load", l.Nm)
	if l.Probe != nil {
		l.Probe()
	}
	if l.Err || (l.ErrOnce && l.Hits == 1) {
		return nil, errors.New("injected fault: loader " + l.Nm)
	}
	return l.Doc, nil
}

type LoaderU struct{ ldCore }

func (l *LoaderU) LoadConfig() ([]byte, error) { return l.load() }

type LoaderO struct{ ldCore }

func (l *LoaderO) LoadConfig() ([]byte, error) { return l.load() }
func (l *LoaderO) Order() int                  { return l.Ord }

type LoaderP struct{ ldCore }

func (l *LoaderP) LoadConfig() ([]byte, error) { return l.load() }
func (l *LoaderP) Order() int                  { return l.Ord }
func (l *LoaderP) Priority()                   {}

// LoaderPO implements Priority only (counts as unordered).
type LoaderPO struct{ ldCore }

func (l *LoaderPO) LoadConfig() ([]byte, error) { return l.load() }
func (l *LoaderPO) Priority()                   {}

type LoggedLoader interface {
	LoadConfig() ([]byte, error)
	Core() *ldCore
}

func (l *ldCore) Core() *ldCore { return l }

// NewLoader: class 0 unordered, 1 ordered, 2 priority-ordered, 3 priority only.
func NewLoader(class int, name string, ord int, doc []byte, log *mon.Lifecycle) LoggedLoader {
	c := ldCore{Nm: name, Ord: ord, Doc: doc, Log: log}
	switch class {
	case 0:
		return &LoaderU{c}
	case 1:
		return &LoaderO{c}
	case 2:
		return &LoaderP{c}
	}
	return &LoaderPO{c}
}

// Loaders registered BY VALUE whose value is the zero value of their type: a field-less struct of built-in
// defaults, a struct whose only field is left empty, a numeric type at 0. Each supplies a fixed document.
type BuiltinDefaults struct{}

func (BuiltinDefaults) LoadConfig() ([]byte, error) {
	return []byte("srv:\n  fromdefaults: builtin\nb: builtin-b\n"), nil
}

type TenantLoader struct{ Tenant string }

func (t TenantLoader) LoadConfig() ([]byte, error) {
	return []byte("a: tenant-" + t.Tenant + "-default\ndb:\n  tenant: '" + t.Tenant + "'\n"), nil
}

type LevelLoader int

func (l LevelLoader) LoadConfig() ([]byte, error) {
	return []byte("c: level-" + itoa(int(l)) + "\n"), nil
}
