// Package model: two packages share this base name and the type name Item on purpose; their default
// component names (package path + type name) differ.
package model

type Item struct{ Tag string }

func (*Item) A() {}

// Linker: both packages declare an interface of this name (with different method sets).
type Linker interface{ L2() }
