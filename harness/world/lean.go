package world

import (
	"reflect"

	p1model "verifharness/world/p1/model"
	p2model "verifharness/world/p2/model"
)

// Provider types outside the palette: an interface with unexported methods, implemented by a type
// with very few exported methods ("lean") and by one with many ("rich"). reflect counts unexported
// methods for interface types but not for concrete types, which is a classic trap for hand-rolled
// "can this type implement that interface" shortcuts.

type IHidden interface {
	X()
	h1()
	h2()
	h3()
	h4()
	h5()
	h6()
	h7()
}

type LeanH struct{ Nm string }

func (l *LeanH) Naming() string { return l.Nm }
func (l *LeanH) X()             {}
func (l *LeanH) h1()            {}
func (l *LeanH) h2()            {}
func (l *LeanH) h3()            {}
func (l *LeanH) h4()            {}
func (l *LeanH) h5()            {}
func (l *LeanH) h6()            {}
func (l *LeanH) h7()            {}

type RichH struct{ Nm string }

func (l *RichH) Naming() string { return l.Nm }
func (l *RichH) X()             {}
func (l *RichH) E1()            {}
func (l *RichH) E2()            {}
func (l *RichH) E3()            {}
func (l *RichH) E4()            {}
func (l *RichH) E5()            {}
func (l *RichH) E6()            {}
func (l *RichH) E7()            {}
func (l *RichH) h1()            {}
func (l *RichH) h2()            {}
func (l *RichH) h3()            {}
func (l *RichH) h4()            {}
func (l *RichH) h5()            {}
func (l *RichH) h6()            {}
func (l *RichH) h7()            {}
func (l *RichH) Mark()          {}

// Pair is a generic provider: the default name of an instantiation with two type arguments contains a
// comma inside brackets ("verifharness/world/Pair[int,string]").
type Pair[K comparable, V any] struct{ Tag string }

func (*Pair[K, V]) A() {}

// Defined pointer types: a field of such a type can only be wired by name (by-type resolution compares
// types for identity); the named component's pointer is assignable to it.
type RefT00 *T00
type RefT03 *T03

var (
	TypeRefT00 = reflect.TypeOf(RefT00(nil))
	TypeRefT03 = reflect.TypeOf(RefT03(nil))
)

// Anonymous fields that carry a tag of their own are injection points like named ones (the decorator
// layout `type Cached struct { Store `wire:""` }`, an embedded pointer, an embedded named slice type).
type PlainDep struct{ X int }
type IBs []IB
type AnonTagged struct {
	IA        `wire:""`
	*PlainDep `wire:""`
	IBs       `wire:",required=false"`
}

// Providers whose func-tag methods take arguments: a func point asks whether the method exists (and, with
// returns=*, nothing more) - the container never needs to call these.
type ArgMark1 struct{ Nm string }
type ArgMark2 struct{ Nm string }
type ArgKind struct{ Nm string }

func (a *ArgMark1) Naming() string      { return a.Nm }
func (a *ArgMark1) Mark(n int)          {}
func (a *ArgMark2) Naming() string      { return a.Nm }
func (a *ArgMark2) Mark(xs ...string)   {}
func (a *ArgKind) Naming() string       { return a.Nm }
func (a *ArgKind) Kind(p string) string { return p + "kind" }

// A cycle through two interface types that print alike (model.Linker of two packages): LinkA is a p1 Linker
// and needs a p2 Linker, LinkB is a p2 Linker and needs a p1 Linker.
type LinkA struct {
	Nm   string
	Next p2model.Linker `wire:""`
}
type LinkB struct {
	Nm   string
	Next p1model.Linker `wire:""`
}

func (a *LinkA) Naming() string { return a.Nm }
func (a *LinkA) L1()            {}
func (b *LinkB) Naming() string { return b.Nm }
func (b *LinkB) L2()            {}
