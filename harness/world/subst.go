package world

import (
	"fmt"
	"sync"

	"github.com/go-kid/ioc/component_definition"
	"github.com/go-kid/ioc/container/processors"
	"github.com/go-kid/ioc/definition"
)

// SubPlan says when a component is replaced by a Wrap object.
type SubPlan struct {
	Early  bool `json:"early,omitempty"`  // GetEarlyBeanReference returns a wrapper
	Before bool `json:"before,omitempty"` // PostProcessBeforeInitialization returns a wrapper
	After  bool `json:"after,omitempty"`  // PostProcessAfterInitialization returns a wrapper
	Same   bool `json:"same,omitempty"`   // After re-uses the wrapper made earlier (if any)
	// Inst: PostProcessBeforeInstantiation supplies a wrapper in the component's place (the component itself
	// is then never built by the container)
	Inst bool `json:"inst,omitempty"`
	// SameType: the substitute is a fresh instance of the component's own concrete type (a decorated
	// copy), so it can also stand in for *T fields; otherwise it is a *Wrap.
	SameType bool `json:"same_type,omitempty"`
	// NamedCopy (with SameType): the decorated copy of an UNNAMED component gives itself a name of its own
	// (a configured copy); the component stays registered under the name it was registered with.
	NamedCopy bool `json:"named_copy,omitempty"`
	// ZeroSize: the substitutes are zero-size objects of two different types (*ZWrap1 for odd versions,
	// *ZWrap2 for even ones); at most one component per scenario may use this mode.
	ZeroSize bool `json:"zero_size,omitempty"`
}

// Substituter is a harness SmartInstantiationAware post-processor that substitutes chosen
// components by Wrap objects at chosen times.
type Substituter struct {
	processors.DefaultInstantiationAwareComponentPostProcessor
	Plan  map[string]SubPlan
	mu    sync.Mutex
	Made  map[string][]*Wrap // wrappers created per component name, in creation order
	Calls map[string]int     // callback counts: "early:<name>", "before:<name>", "after:<name>"
	Run   *Run
}

func NewSubstituter(plan map[string]SubPlan) *Substituter {
	return &Substituter{Plan: plan, Made: map[string][]*Wrap{}, Calls: map[string]int{}}
}

func (s *Substituter) Naming() string { return "verif.substituter" }
func (s *Substituter) Bind(r *Run)    { s.Run = r }

func (s *Substituter) wrap(c any, name string, reuse bool) any {
	if reuse && len(s.Made[name]) > 0 {
		last := s.Made[name][len(s.Made[name])-1]
		if last.Copy != nil {
			return last.Copy
		}
		if last.Zero != nil {
			return last.Zero
		}
		return last
	}
	orig := c
	if w, ok := c.(*Wrap); ok {
		orig = w.Orig
	} else if s.Run != nil {
		if w, ok := s.Run.SubInfo[c]; ok {
			orig = w.Orig
		}
	}
	w := &Wrap{Orig: orig, OrigName: name, Version: len(s.Made[name]) + 1}
	s.Made[name] = append(s.Made[name], w)
	if p := s.Plan[name]; p.ZeroSize && s.Run != nil {
		var z any = &ZWrap1{}
		if w.Version%2 == 0 {
			z = &ZWrap2{}
		}
		s.Run.SubInfo[z] = w
		w.Zero = z
		return z
	}
	if p := s.Plan[name]; p.SameType {
		if n, ok := orig.(Node); ok {
			// decorated copy of the same concrete type
			cp := Palette[n.TypeIdx()].New()
			*cp.Core() = *n.Core()
			cp.Core().Log = nil // the copy's callbacks are not part of the scenario's event log
			cp.Core().Fails, cp.Core().FailOnce, cp.Core().Hook = nil, nil, nil
			if p.NamedCopy && cp.Core().Name == "" {
				cp.Core().Name = fmt.Sprintf("configured-copy-%d-of-%s", w.Version, Palette[n.TypeIdx()].TypeName)
			}
			w.Copy = cp
			if s.Run != nil {
				s.Run.SubInfo[cp] = w
			}
			return cp
		}
	}
	return w
}

func (s *Substituter) PostProcessBeforeInstantiation(m *component_definition.Meta, name string) (any, error) {
	s.mu.Lock()
	defer s.mu.Unlock()
	s.Calls["inst:"+name]++
	if p, ok := s.Plan[name]; ok && p.Inst {
		return s.wrap(m.Raw, name, false), nil
	}
	return nil, nil
}

func (s *Substituter) GetEarlyBeanReference(c any, name string) (any, error) {
	s.mu.Lock()
	defer s.mu.Unlock()
	s.Calls["early:"+name]++
	if p, ok := s.Plan[name]; ok && p.Early {
		return s.wrap(c, name, false), nil
	}
	return c, nil
}

func (s *Substituter) PostProcessBeforeInitialization(c any, name string) (any, error) {
	s.mu.Lock()
	defer s.mu.Unlock()
	s.Calls["before:"+name]++
	if p, ok := s.Plan[name]; ok && p.Before {
		return s.wrap(c, name, false), nil
	}
	return c, nil
}

func (s *Substituter) PostProcessAfterInitialization(c any, name string) (any, error) {
	s.mu.Lock()
	defer s.mu.Unlock()
	s.Calls["after:"+name]++
	if p, ok := s.Plan[name]; ok && p.After {
		return s.wrap(c, name, p.Same), nil
	}
	return c, nil
}

// EarlySubstituter is a Substituter that is sequenced before every other post-processor (priority-ordered,
// lowest order): it is active while the other post-processor components are being created.
type EarlySubstituter struct{ *Substituter }

func (s EarlySubstituter) Order() int     { return -1 << 40 }
func (s EarlySubstituter) Priority()      {}
func (s EarlySubstituter) Naming() string { return "verif.earlysubstituter" }

// ---------------------------------------------------------------------------------------------
// Decorator: runners and closers exposed through decorators (a tracing/timing wrapper around each)

type decoBase struct{ Inner any }

func (d *decoBase) run() error   { return d.Inner.(definition.ApplicationRunner).Run() }
func (d *decoBase) close() error { return d.Inner.(definition.CloserComponent).Close() }
func (d *decoBase) order() int   { return d.Inner.(definition.Ordered).Order() }

// one decorator type per combination of the roles the decorated component plays; none has a Naming of its own
type (
	RunDeco          struct{ decoBase }
	RunDecoOrd       struct{ decoBase }
	RunDecoPrio      struct{ decoBase }
	CloseDeco        struct{ decoBase }
	RunCloseDeco     struct{ decoBase }
	RunCloseDecoOrd  struct{ decoBase }
	RunCloseDecoPrio struct{ decoBase }
)

func (d *RunDeco) Run() error            { return d.run() }
func (d *RunDecoOrd) Run() error         { return d.run() }
func (d *RunDecoOrd) Order() int         { return d.order() }
func (d *RunDecoPrio) Run() error        { return d.run() }
func (d *RunDecoPrio) Order() int        { return d.order() }
func (d *RunDecoPrio) Priority()         {}
func (d *CloseDeco) Close() error        { return d.close() }
func (d *RunCloseDeco) Run() error       { return d.run() }
func (d *RunCloseDeco) Close() error     { return d.close() }
func (d *RunCloseDecoOrd) Run() error    { return d.run() }
func (d *RunCloseDecoOrd) Close() error  { return d.close() }
func (d *RunCloseDecoOrd) Order() int    { return d.order() }
func (d *RunCloseDecoPrio) Run() error   { return d.run() }
func (d *RunCloseDecoPrio) Close() error { return d.close() }
func (d *RunCloseDecoPrio) Order() int   { return d.order() }
func (d *RunCloseDecoPrio) Priority()    {}

// Decorator is a post-processor that exposes the chosen runner/closer components through a decorator (one
// per component) which forwards Run, Close and the ordering role to the decorated component. Like a proxy
// creator it decorates either when the early reference is taken or after initialisation, never both: once
// the early reference has been handed out, the component passes the after-initialisation step unchanged and
// the container keeps exposing the early reference.
type Decorator struct {
	processors.DefaultInstantiationAwareComponentPostProcessor
	Names map[string]bool
	mu    sync.Mutex
	Made  map[string]any
	early map[string]bool
}

func NewDecorator(names ...string) *Decorator {
	d := &Decorator{Names: map[string]bool{}, Made: map[string]any{}}
	for _, n := range names {
		d.Names[n] = true
	}
	return d
}

func (d *Decorator) Naming() string { return "verif.decorator" }

func (d *Decorator) deco(c any, name string, early bool) any {
	d.mu.Lock()
	defer d.mu.Unlock()
	if !d.Names[name] {
		return c
	}
	if d.early == nil {
		d.early = map[string]bool{}
	}
	if early {
		d.early[name] = true
	} else if d.early[name] {
		return c
	}
	if w, ok := d.Made[name]; ok {
		return w
	}
	_, isRun := c.(definition.ApplicationRunner)
	_, isClose := c.(definition.CloserComponent)
	_, isOrd := c.(definition.Ordered)
	_, isPrio := c.(definition.Priority)
	b := decoBase{Inner: c}
	var w any
	switch {
	case isRun && isClose && isOrd && isPrio:
		w = &RunCloseDecoPrio{b}
	case isRun && isClose && isOrd:
		w = &RunCloseDecoOrd{b}
	case isRun && isClose:
		w = &RunCloseDeco{b}
	case isRun && isOrd && isPrio:
		w = &RunDecoPrio{b}
	case isRun && isOrd:
		w = &RunDecoOrd{b}
	case isRun:
		w = &RunDeco{b}
	case isClose:
		w = &CloseDeco{b}
	default:
		return c
	}
	d.Made[name] = w
	return w
}

func (d *Decorator) GetEarlyBeanReference(c any, name string) (any, error) {
	return d.deco(c, name, true), nil
}
func (d *Decorator) PostProcessAfterInitialization(c any, name string) (any, error) {
	return d.deco(c, name, false), nil
}
