package world

import (
	"fmt"
	"reflect"
	"runtime"
	"runtime/debug"
	"sort"
	"strings"
	"sync"
	"time"

	"github.com/go-kid/ioc/app"
	"github.com/go-kid/ioc/component_definition"
	"github.com/go-kid/ioc/configure"
	"github.com/go-kid/ioc/configure/binder"
	"github.com/go-kid/ioc/configure/loader"
	"github.com/go-kid/ioc/container"
	"github.com/go-kid/ioc/container/factory"
	"github.com/go-kid/ioc/container/processors"
	"github.com/go-kid/ioc/container/support"
	"verifharness/mon"
)

// TagSpec is the tag a slot of one node instance carries in one scenario.
type TagSpec struct {
	Tag string `json:"tag"` // "wire" | "func"
	Val string `json:"val"` // full tag value: "<name or method>,<args>"
}

type NodeSpec struct {
	Type  int                `json:"type"`
	Name  string             `json:"name,omitempty"`
	Qual  string             `json:"qual,omitempty"`
	Kind  string             `json:"kind,omitempty"`
	Ord   int                `json:"ord,omitempty"`
	Tags  map[string]TagSpec `json:"tags,omitempty"`
	Cfg   map[string]TagSpec `json:"cfg,omitempty"` // CfgS/CfgI/CfgL -> value/prefix tag
	Fails []string           `json:"fails,omitempty"`
	// FailOnce: callbacks that fail on their first invocation only
	FailOnce []string `json:"fail_once,omitempty"`
	// Lookups: component names this node looks up through App.GetComponentByName from inside its first
	// initialization callback (service-locator style); errors of the lookups are ignored by the node.
	Lookups []string `json:"lookups,omitempty"`
	// LookupsAlways: the lookups are repeated in every initialization callback, not only the first one
	// (a stateless service-locator component)
	LookupsAlways bool `json:"lookups_always,omitempty"`
	// ProvisionalOrd: Order() answers this value until the node's first initialization callback, Ord afterwards
	// (a participant that learns its position while it is initialised)
	ProvisionalOrd *int `json:"provisional_ord,omitempty"`
	// ZeroValueErrors: this node reports its injected faults with a field-less value-typed error
	ZeroValueErrors bool `json:"zero_value_errors,omitempty"`
	// CauselessErrors: this node reports its injected faults with an application error type whose Cause() is nil
	CauselessErrors bool `json:"causeless_errors,omitempty"`
	// CancelErrors: this node reports its injected faults as context.Canceled (plain or wrapped)
	CancelErrors bool `json:"cancel_errors,omitempty"`
}

func (n *NodeSpec) DisplayName() string {
	if n.Name != "" {
		return n.Name
	}
	return Palette[n.Type].DefaultName
}

type OrderCtl struct {
	DefMode      string `json:"def_mode,omitempty"` // random | sorted | reversed | perm | native
	DefSeed      int64  `json:"def_seed,omitempty"`
	PermK        int    `json:"perm_k,omitempty"`
	ShuffleNames bool   `json:"shuffle_names,omitempty"`
	NamesSeed    int64  `json:"names_seed,omitempty"`
}

type Scenario struct {
	Nodes    []NodeSpec `json:"nodes"`
	RegOrder []int      `json:"reg_order,omitempty"`
	Order    OrderCtl   `json:"order"`
	Config   string     `json:"config,omitempty"`
}

// Options of one start (not part of the serialisable scenario).
type Options struct {
	Extra        []any // further components registered after the nodes (post-processors, holders ...)
	ExtraFirst   []any // registered before the nodes
	NoTracer     bool
	NoObserver   bool
	Budget       int // registry step budget (0 = derived)
	BinderBudget int
	Loaders      []configure.Loader
	Hook         func(kind string, who Node)
	AppOptions   []app.SettingOption
	NoRun        bool // only build (caller runs)
}

// Run is one start of the real container on a scenario, with everything the monitors saw.
type Run struct {
	Sc        *Scenario
	Nodes     []Node
	App       *app.App
	Log       *mon.Lifecycle
	Tracer    *mon.RegistryTracer
	Perm      *mon.DefPermuter
	Pop       *mon.PopRegistry
	Binder    *mon.Binder
	Tagger    *Tagger
	CfgTagger *CfgTagger
	Err       error
	Panic     any
	Stack     string
	Diverge   *mon.Divergence
	index     map[any]int   // population identity -> index in Pop.Pop
	SubInfo   map[any]*Wrap // same-type substitutes made by a Substituter -> their description
	Stalled   bool
	ops       []app.SettingOption
	// Looked records what every successful user lookup returned (name -> objects in order of arrival)
	lookedMu sync.Mutex
	Looked   map[string][]any
	// LookErrs records the errors user lookups were answered with (name -> messages in order of arrival)
	LookErrs map[string][]string
}

// Tagger is the harness-supplied definition scanner: it supplies the tag of every slot per
// instance through the public ExtractHandler extension point.
type Tagger struct {
	processors.DefaultTagScanDefinitionRegistryPostProcessor
	mu   sync.Mutex
	tags map[any]map[string]TagSpec
	Seen int
}

func (t *Tagger) Naming() string { return "verif.tagger" }

// CfgTagger is the same mechanism for configuration properties (value / prefix tags).
type CfgTagger struct{ Tagger }

func (t *CfgTagger) Naming() string { return "verif.cfgtagger" }

func newTagger() *Tagger { return initTagger(&Tagger{}, component_definition.PropertyTypeComponent) }

func initTagger(t *Tagger, nodeType component_definition.PropertyType) *Tagger {
	t.tags = map[any]map[string]TagSpec{}
	t.NodeType = nodeType
	t.Required = true
	t.ExtractHandler = func(meta *component_definition.Meta, field *component_definition.Field) (string, string, bool) {
		t.mu.Lock()
		defer t.mu.Unlock()
		m := t.tags[meta.Raw]
		if m == nil {
			return "", "", false
		}
		if field.Holder == nil || !field.Holder.IsEmbed || field.Holder.Type != reflect.TypeOf(Slots{}) {
			return "", "", false
		}
		ts, ok := m[field.StructField.Name]
		if !ok {
			return "", "", false
		}
		t.Seen++
		return ts.Tag, ts.Val, true
	}
	return t
}

// Build creates the node instances and the App with all monitors installed, without running it.
func Build(sc *Scenario, opt Options) *Run {
	r := &Run{Sc: sc, Log: mon.NewLifecycle(), SubInfo: map[any]*Wrap{}}
	r.Tagger = newTagger()
	for i := range sc.Nodes {
		ns := &sc.Nodes[i]
		n := Palette[ns.Type].New()
		k := n.Core()
		k.Idx, k.Name, k.Qual, k.KindV, k.Ord, k.Log, k.Hook = i, ns.Name, ns.Qual, ns.Kind, ns.Ord, r.Log, opt.Hook
		k.ZeroErr = ns.ZeroValueErrors
		k.CauseErr = ns.CauselessErrors
		k.CancelErr = ns.CancelErrors
		if ns.ProvisionalOrd != nil {
			k.Ord = *ns.ProvisionalOrd
			final, outer := ns.Ord, k.Hook
			k.Hook = func(kind string, who Node) {
				if kind == "init" || kind == "aps" {
					who.Core().Ord = final
				}
				if outer != nil {
					outer(kind, who)
				}
			}
		}
		if len(ns.Lookups) > 0 {
			lookups, outer, done, always := ns.Lookups, k.Hook, false, ns.LookupsAlways
			k.Hook = func(kind string, who Node) {
				if outer != nil {
					outer(kind, who)
				}
				if (kind == "init" || kind == "aps") && (!done || always) {
					done = true
					for _, name := range lookups {
						r.UserLookup(name)
					}
				}
			}
		}
		if len(ns.Fails) > 0 {
			k.Fails = map[string]bool{}
			for _, f := range ns.Fails {
				k.Fails[f] = true
			}
		}
		if len(ns.FailOnce) > 0 {
			k.FailOnce = map[string]bool{}
			for _, f := range ns.FailOnce {
				k.FailOnce[f] = true
			}
		}
		r.Nodes = append(r.Nodes, n)
		if len(ns.Tags) > 0 {
			r.Tagger.tags[n] = ns.Tags
		}
		if len(ns.Cfg) > 0 {
			if r.CfgTagger == nil {
				r.CfgTagger = &CfgTagger{}
				initTagger(&r.CfgTagger.Tagger, component_definition.PropertyTypeConfiguration)
			}
			r.CfgTagger.tags[n] = ns.Cfg
		}
	}
	a := app.NewApp()
	r.App = a
	r.Pop = mon.NewPopRegistry(support.NewRegistry(), sc.Order.NamesSeed, sc.Order.ShuffleNames)
	mode := sc.Order.DefMode
	if mode == "" {
		mode = "random"
	}
	r.Perm = mon.NewDefPermuter(support.DefaultDefinitionRegistry(), mode, sc.Order.DefSeed, sc.Order.PermK)
	var scr container.SingletonComponentRegistry = support.DefaultSingletonComponentRegistry()
	if !opt.NoTracer {
		budget := opt.Budget
		if budget == 0 {
			// Logical step budget: a creation costs a handful of registry calls per candidate edge. A single
			// slot contributes one edge, a slice slot at most one per component.
			total := len(sc.Nodes) + len(opt.Extra) + len(opt.ExtraFirst) + 20
			edges := 0
			for _, n := range sc.Nodes {
				for slot := range n.Tags {
					if strings.HasPrefix(SlotByName(slot).Kind, "slice") {
						edges += total
					} else {
						edges++
					}
				}
			}
			budget = 2000 + 40*(total+edges)
		}
		r.Tracer = mon.NewRegistryTracer(scr, budget)
		scr = r.Tracer
	}
	bb := opt.BinderBudget
	if bb == 0 {
		bb = 5000
	}
	r.Binder = mon.NewBinder(binder.NewViperBinder("yaml"), bb)
	ops := []app.SettingOption{
		app.SetLogger(Logger),
		app.SetRegistry(r.Pop),
		app.SetFactory(factory.NewWithRegistries(r.Perm, scr)),
		app.SetConfigBinder(r.Binder),
	}
	loaders := opt.Loaders
	if loaders == nil && sc.Config != "" {
		loaders = []configure.Loader{loader.NewRawLoader([]byte(sc.Config))}
	}
	ops = append(ops, app.SetConfigLoader(loaders...))
	var comps []any
	comps = append(comps, r.Tagger)
	if r.CfgTagger != nil {
		comps = append(comps, r.CfgTagger)
	}
	if !opt.NoObserver {
		comps = append(comps, &Observer{run: r})
	}
	comps = append(comps, opt.ExtraFirst...)
	order := sc.RegOrder
	if len(order) != len(r.Nodes) {
		order = make([]int, len(r.Nodes))
		for i := range order {
			order[i] = i
		}
	}
	for _, i := range order {
		comps = append(comps, r.Nodes[i])
	}
	comps = append(comps, opt.Extra...)
	for _, x := range comps {
		if b, ok := x.(Binder); ok {
			b.Bind(r)
		}
	}
	ops = append(ops, app.SetComponents(comps...))
	ops = append(ops, opt.AppOptions...)
	r.ops = ops
	return r
}

// Start builds and runs.
func Start(sc *Scenario, opt Options) *Run {
	r := Build(sc, opt)
	r.Go()
	return r
}

// Go runs App.Run under recover, on its own goroutine, and watches for a stall: when App.Run has not
// returned and no monitor has seen any progress (lifecycle events, registry calls, binder reads,
// tagger hits) during 3 million scheduler yields AND 5 s, the start is declared stalled (blocked
// forever) and the goroutine is abandoned.
func (r *Run) Go() {
	done := make(chan struct{})
	go func() {
		defer close(done)
		r.Guard(func() { r.Err = r.App.Run(r.ops...) })
	}()
	last, idle := -1, 0
	t0 := time.Now()
	for {
		select {
		case <-done:
			return
		default:
		}
		p := r.progress()
		if p != last {
			last, idle, t0 = p, 0, time.Now()
		}
		idle++
		if idle > 3000000 && time.Since(t0) > 5*time.Second {
			r.Stalled = true
			return
		}
		if idle%256 == 0 {
			time.Sleep(20 * time.Microsecond)
		} else {
			runtime.Gosched()
		}
	}
}

// UserLookup is a lookup issued by user code (a component's callback, a caller after Run): logged in the
// lifecycle log and marked in the registry trace, so that histories can tell errors that were delivered
// to user code from errors the container swallowed itself.
func (r *Run) UserLookup(name string) (any, error) {
	r.Log.Add("lookup", name)
	r.Tracer.Mark("user-lookup", "call", name)
	v, err := r.App.GetComponentByName(name)
	if err == nil && v != nil {
		r.lookedMu.Lock()
		if r.Looked == nil {
			r.Looked = map[string][]any{}
		}
		r.Looked[name] = append(r.Looked[name], v)
		r.lookedMu.Unlock()
	}
	if err != nil {
		r.lookedMu.Lock()
		if r.LookErrs == nil {
			r.LookErrs = map[string][]string{}
		}
		r.LookErrs[name] = append(r.LookErrs[name], err.Error())
		r.lookedMu.Unlock()
	}
	r.Tracer.Mark("user-lookup", "ret", name)
	r.Log.Add("lookup-end", name)
	return v, err
}

func (r *Run) progress() int {
	p := r.Log.Len() + r.Binder.Count()
	if r.Tracer != nil {
		p += r.Tracer.Steps()
	}
	r.Tagger.mu.Lock()
	p += r.Tagger.Seen
	r.Tagger.mu.Unlock()
	return p
}

// Guard runs f, converting panics into r.Panic / r.Diverge.
func (r *Run) Guard(f func()) {
	defer func() {
		if p := recover(); p != nil {
			if d, ok := p.(mon.Divergence); ok {
				r.Diverge = &d
				return
			}
			r.Panic = p
			r.Stack = string(debug.Stack())
		}
	}()
	f()
}

// Outcome: "ok" | "error" | "panic" | "diverged"
func (r *Run) Outcome() string {
	switch {
	case r.Stalled:
		return "stalled"
	case r.Diverge != nil:
		return "diverged"
	case r.Panic != nil:
		return "panic"
	case r.Err != nil:
		return "error"
	}
	return "ok"
}

func (r *Run) OutcomeDetail() string {
	switch {
	case r.Stalled:
		return "stalled: App.Run did not return and nothing observable happened during 3 million scheduler yields and 5 s"
	case r.Diverge != nil:
		return r.Diverge.Error()
	case r.Panic != nil:
		return fmt.Sprintf("panic: %v", r.Panic)
	case r.Err != nil:
		return "error: " + r.Err.Error()
	}
	return "ok"
}

// ---------------------------------------------------------------------------------------------
// Observer post-processor: before/after events with a snapshot of the component's slots.

type Observer struct {
	processors.DefaultInstantiationAwareComponentPostProcessor
	run *Run
}

func (o *Observer) Naming() string { return "verif.observer" }
func (o *Observer) Priority()      {}
func (o *Observer) Order() int     { return -1 << 40 }

func (o *Observer) PostProcessBeforeInitialization(c any, name string) (any, error) {
	o.run.Log.AddBy("before", name, "", SnapshotOf(c))
	return c, nil
}
func (o *Observer) PostProcessAfterInitialization(c any, name string) (any, error) {
	o.run.Log.AddBy("after", name, "", nil)
	return c, nil
}

// SnapshotOf renders every tagged slot of a palette node (identity of what it holds).
func SnapshotOf(c any) map[string]string {
	n, ok := c.(Node)
	if !ok {
		return nil
	}
	snap := map[string]string{}
	sv := reflect.ValueOf(n.Slot()).Elem()
	for _, si := range SlotTable {
		f := sv.FieldByName(si.Name)
		if f.Kind() == reflect.Slice {
			var parts []string
			for i := 0; i < f.Len(); i++ {
				parts = append(parts, fmt.Sprintf("%p", f.Index(i).Interface()))
			}
			snap[si.Name] = "[" + strings.Join(parts, ",") + "]"
			if f.IsNil() {
				snap[si.Name] = "nil"
			}
		} else if f.IsNil() {
			snap[si.Name] = "nil"
		} else {
			snap[si.Name] = fmt.Sprintf("%p", f.Interface())
		}
	}
	for _, cf := range CfgFields {
		snap[cf] = fmt.Sprintf("%#v", sv.FieldByName(cf).Interface())
	}
	return snap
}

// ---------------------------------------------------------------------------------------------
// black-box observation of the wiring

// Ref is what a slot (or slice element) holds, mapped back to the registered population.
type Ref struct {
	Nil  bool
	Pop  int   // index into Population(), -1 when the object is not a registered instance
	Wrap *Wrap // set when the object is a harness wrapper
	Obj  any
}

func (r Ref) String() string {
	switch {
	case r.Nil:
		return "nil"
	case r.Wrap != nil:
		return fmt.Sprintf("wrap(v%d of %s)", r.Wrap.Version, r.Wrap.OrigName)
	case r.Pop >= 0:
		return fmt.Sprintf("#%d", r.Pop)
	}
	return fmt.Sprintf("unknown(%T %p)", r.Obj, r.Obj)
}

// Population returns the distinct registered singletons in registration order.
func (r *Run) Population() []any {
	seen := map[any]bool{}
	var out []any
	for _, o := range r.Pop.Pop {
		if !seen[o] {
			seen[o] = true
			out = append(out, o)
		}
	}
	return out
}

func (r *Run) PopIndex() map[any]int {
	if r.index == nil {
		r.index = map[any]int{}
		for i, o := range r.Population() {
			r.index[o] = i
		}
	}
	return r.index
}

func (r *Run) RefOf(v any) Ref {
	if v == nil {
		return Ref{Nil: true, Pop: -1}
	}
	rv := reflect.ValueOf(v)
	if (rv.Kind() == reflect.Pointer || rv.Kind() == reflect.Interface) && rv.IsNil() {
		return Ref{Nil: true, Pop: -1}
	}
	if rv.Kind() == reflect.Pointer && rv.Type().Name() != "" {
		// a value of a defined pointer type (type Ref *T): the object behind it is identified by the plain *T
		v = rv.Convert(reflect.PointerTo(rv.Type().Elem())).Interface()
	}
	if w, ok := v.(*Wrap); ok {
		return Ref{Pop: -1, Wrap: w, Obj: v}
	}
	if w, ok := r.SubInfo[v]; ok {
		return Ref{Pop: -1, Wrap: w, Obj: v}
	}
	if i, ok := r.PopIndex()[v]; ok {
		return Ref{Pop: i, Obj: v}
	}
	return Ref{Pop: -1, Obj: v}
}

// SlotRefs reads one slot of a node: single-valued slots give one Ref, slices one per element
// (nil slice = no elements, isNilSlice true).
func (r *Run) SlotRefs(n Node, slot string) (refs []Ref, isSlice bool) {
	return r.ValueRefs(reflect.ValueOf(n.Slot()).Elem().FieldByName(slot))
}

// ValueRefs reads a field value (single or slice) as Refs.
func (r *Run) ValueRefs(f reflect.Value) (refs []Ref, isSlice bool) {
	if f.Kind() == reflect.Slice {
		for i := 0; i < f.Len(); i++ {
			refs = append(refs, r.RefOf(f.Index(i).Interface()))
		}
		return refs, true
	}
	if f.IsNil() {
		return []Ref{{Nil: true, Pop: -1}}, false
	}
	return []Ref{r.RefOf(f.Interface())}, false
}

// UntaggedSlotsClean verifies the frame condition on palette nodes: slots without a tag stay nil.
func (r *Run) UntaggedSlotsClean() (string, bool) {
	for i, n := range r.Nodes {
		sv := reflect.ValueOf(n.Slot()).Elem()
		for _, si := range SlotTable {
			if _, tagged := r.Sc.Nodes[i].Tags[si.Name]; tagged {
				continue
			}
			if !sv.FieldByName(si.Name).IsNil() {
				return fmt.Sprintf("node %d (%s) slot %s has no tag but was written", i, r.Sc.Nodes[i].DisplayName(), si.Name), false
			}
		}
	}
	return "", true
}

// SortedSlots returns the tagged slot names of a node spec in a fixed order.
func SortedSlots(ns *NodeSpec) []string {
	var s []string
	for k := range ns.Tags {
		s = append(s, k)
	}
	sort.Strings(s)
	return s
}

// ---------------------------------------------------------------------------------------------
// Wrap: the substitute object used by substituting post-processors (C03). It implements every
// palette interface so it can stand in for any interface-typed slot.

type Wrap struct {
	Orig     any
	OrigName string
	Version  int
	Copy     Node // set when the substitute is a same-type copy (then this record only describes it)
	Zero     any  // set when the substitute is a zero-size object (*ZWrap1 / *ZWrap2)
}

func (w *Wrap) A() {}
func (w *Wrap) B() {}
func (w *Wrap) C() {}
