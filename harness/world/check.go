package world

import (
	"fmt"
	"github.com/go-kid/ioc/component_definition"
	"reflect"
	"sort"
)

// LiteralPoints finds the wire/func points of a non-palette holder from its literal struct tags,
// following the documented scanning rule (exported fields; anonymous untagged by-value embedded
// structs are looked through).
func LiteralPoints(holderIdx int, obj any) []Point {
	t := reflect.TypeOf(obj)
	if t.Kind() != reflect.Pointer || t.Elem().Kind() != reflect.Struct {
		return nil
	}
	var out []Point
	var walk func(t reflect.Type)
	walk = func(t reflect.Type) {
		for i := 0; i < t.NumField(); i++ {
			f := t.Field(i)
			if f.Anonymous && f.Tag == "" && f.Type.Kind() == reflect.Struct {
				walk(f.Type)
				continue
			}
			if f.PkgPath != "" {
				continue
			}
			for _, tag := range []string{"wire", "func"} {
				if v, ok := f.Tag.Lookup(tag); ok {
					out = append(out, Point{Holder: holderIdx, Field: f.Name, FType: f.Type, Tag: tag, Raw: v})
					break
				}
			}
		}
	}
	walk(t.Elem())
	return out
}

// ExtraEdges resolves the literal points of every non-palette member of the population.
func ExtraEdges(pop []Comp, skip ...map[int]bool) map[int][]Resolution {
	out := map[int][]Resolution{}
	for _, c := range pop {
		if _, isNode := c.Obj.(Node); isNode {
			continue
		}
		if len(skip) > 0 && skip[0][c.Idx] {
			continue
		}
		for _, pt := range LiteralPoints(c.Idx, c.Obj) {
			out[c.Idx] = append(out[c.Idx], Resolve(pop, pt))
		}
	}
	return out
}

type Complaint struct {
	Kind string // unknown-object | outside-candidates | outside-tied | missing | duplicate | self | optional-written | empty-required
	Node int
	Slot string
	Msg  string
	Res  Resolution
}

// Created returns the names for which the observer saw after-initialization.
func (r *Run) Created() map[string]bool {
	out := map[string]bool{}
	for _, e := range r.Log.Events() {
		if e.Kind == "after" {
			out[e.Who] = true
		}
	}
	return out
}

// CheckWiring compares the observed wiring of every palette node with the model, per point.
// Only meaningful after a successful start. Wrapper objects are mapped to their origin.
func (r *Run) CheckWiring(pop []Comp, points []PointRes) []Complaint {
	var out []Complaint
	created := r.Created()
	for _, p := range points {
		if p.Res.Unsupported {
			continue
		}
		refs, isSlice := r.ValueRefs(p.Val)
		holderCreated := created[p.HolderName]
		add := func(kind, msg string) {
			out = append(out, Complaint{Kind: kind, Node: p.Node, Slot: p.Slot, Res: p.Res,
				Msg: fmt.Sprintf("holder %q field %s [%s:%q]: %s (model S=%v tied=%v)", p.HolderName, p.Slot, p.Pt.Tag, p.Pt.Raw, msg, p.Res.S, p.Res.Tied)})
		}
		var got []int
		for _, ref := range refs {
			if ref.Nil {
				continue
			}
			idx := ref.Pop
			if ref.Wrap != nil {
				if i, ok := r.PopIndex()[ref.Wrap.Orig]; ok {
					idx = i
				}
			}
			if idx < 0 {
				add("unknown-object", "holds an object that is not a registered instance: "+ref.String())
				continue
			}
			if idx == p.Pt.Holder {
				add("self", "holds its own holder")
			}
			got = append(got, idx)
		}
		if isSlice {
			for _, g := range got {
				if !InInts(p.Res.S, g) {
					add("outside-candidates", fmt.Sprintf("slice contains #%d (%s) which is not a candidate", g, pop[g].Name))
				}
			}
			sorted := append([]int(nil), got...)
			sort.Ints(sorted)
			for i := 1; i < len(sorted); i++ {
				if sorted[i] == sorted[i-1] {
					add("duplicate", fmt.Sprintf("slice contains #%d twice", sorted[i]))
				}
			}
			if holderCreated {
				for _, s := range p.Res.S {
					if !InInts(got, s) {
						add("missing", fmt.Sprintf("slice lacks candidate #%d (%s)", s, pop[s].Name))
					}
				}
				for _, ref := range refs {
					if ref.Nil {
						add("missing", "slice contains a nil element")
					}
				}
			}
			continue
		}
		if len(got) == 0 {
			if holderCreated && len(p.Res.S) > 0 {
				add("missing", "single-valued point is empty although candidates exist")
			}
			if holderCreated && len(p.Res.S) == 0 && p.Res.Required {
				add("empty-required", "required point without candidate is empty after a successful start")
			}
			continue
		}
		g := got[0]
		if len(p.Res.S) == 0 {
			add("optional-written", fmt.Sprintf("point without candidate was written with #%d (%s)", g, pop[g].Name))
		} else if !InInts(p.Res.S, g) {
			add("outside-candidates", fmt.Sprintf("holds #%d (%s) which is not a candidate", g, pop[g].Name))
		} else if !InInts(p.Res.Tied, g) {
			add("outside-tied", fmt.Sprintf("holds #%d (%s) although the rules single out %v", g, pop[g].Name, p.Res.Tied))
		}
	}
	return out
}

// LookupMismatch prefixes CheckIdentity's complaint about an object obtained through a user lookup.
const LookupMismatch = "a lookup of "

// CheckIdentity (C01): every injected value is a registered instance (or a wrapper), equals what
// the by-name lookup returns, and all holders of one name agree.
func (r *Run) CheckIdentity(pop []Comp) []string {
	var out []string
	seen := map[string]any{}
	published := r.Published()
	for ni, n := range r.Nodes {
		if published != nil && !published[n.DisplayName()] {
			continue // never (successfully) created: what a failed attempt left in its fields is not "held"
		}
		for _, slot := range SortedSlots(&r.Sc.Nodes[ni]) {
			refs, _ := r.SlotRefs(n, slot)
			for _, ref := range refs {
				if ref.Nil {
					continue
				}
				var name string
				switch {
				case ref.Wrap != nil:
					name = ref.Wrap.OrigName
				case ref.Pop >= 0:
					name = pop[ref.Pop].Name
				default:
					out = append(out, fmt.Sprintf("node %d slot %s holds %s: not a registered instance (a copy?)", ni, slot, ref.String()))
					continue
				}
				if prev, ok := seen[name]; ok && prev != ref.Obj {
					out = append(out, fmt.Sprintf("two holders see different objects for component %q (%p vs %p)", name, prev, ref.Obj))
				}
				seen[name] = ref.Obj
			}
		}
	}
	names := make([]string, 0, len(seen))
	for k := range seen {
		names = append(names, k)
	}
	// what lookups issued by user code (from inside callbacks) were handed counts too: a component that
	// obtained another one through a lookup holds it just as well as through a field
	for name := range r.Looked {
		if _, ok := seen[name]; !ok && (published == nil || published[name]) {
			names = append(names, name)
		}
	}
	sort.Strings(names)
	for _, name := range names {
		var got any
		var err error
		r.Guard(func() { got, err = r.App.GetComponentByName(name) })
		if r.Panic != nil || r.Diverge != nil {
			out = append(out, fmt.Sprintf("lookup of %q after the start: %s", name, r.OutcomeDetail()))
			return out
		}
		if err != nil {
			out = append(out, fmt.Sprintf("lookup of %q after a successful start failed: %v", name, err))
			continue
		}
		if h, ok := seen[name]; ok && got != h {
			out = append(out, fmt.Sprintf("holders of %q see %p but GetComponentByName returns %p (%T)", name, h, got, got))
		}
		for _, o := range r.Looked[name] {
			if o != got {
				out = append(out, fmt.Sprintf("%s%q from inside a callback was handed %p, the container publishes %p (%T)", LookupMismatch, name, o, got, got))
				break
			}
		}
		// a listing (Factory.GetComponents) that selects this one definition returns the published object too,
		// the first time and every later time
		for round := 1; round <= 2; round++ {
			var listed []any
			var lerr error
			nm := name
			r.Guard(func() {
				listed, lerr = r.App.GetComponents(func(m *component_definition.Meta) bool { return m.Name() == nm })
			})
			if r.Panic != nil || r.Diverge != nil {
				out = append(out, fmt.Sprintf("listing of %q after the start: %s", name, r.OutcomeDetail()))
				return out
			}
			if lerr != nil {
				out = append(out, fmt.Sprintf("listing (GetComponents) of the published component %q failed: %v", name, lerr))
				break
			}
			if len(listed) != 1 || listed[0] != got {
				out = append(out, fmt.Sprintf("listing #%d (GetComponents) of component %q returns %d object(s) %v, GetComponentByName returns %p (%T)", round, name, len(listed), ptrs(listed), got, got))
				break
			}
		}
	}
	return out
}

func ptrs(l []any) []string {
	var out []string
	for _, o := range l {
		out = append(out, fmt.Sprintf("%p(%T)", o, o))
	}
	return out
}

// LitPointRes resolves the literal wire/func points of a registered non-palette holder.
func (r *Run) LitPointRes(pop []Comp, obj any) []PointRes {
	h, ok := r.PopIndex()[obj]
	if !ok {
		h = -1
	}
	name := defaultName(reflect.TypeOf(obj))
	if h >= 0 {
		name = pop[h].Name
	}
	var out []PointRes
	for _, pt := range LiteralPoints(h, obj) {
		out = append(out, PointRes{Node: -1, Slot: pt.Field, Pt: pt, Res: Resolve(pop, pt),
			Val: reflect.ValueOf(obj).Elem().FieldByName(pt.Field), HolderName: name})
	}
	return out
}

// Published returns the names whose creation completed successfully according to the registry trace
// (nil when the run has no tracer).
func (r *Run) Published() map[string]bool {
	if r.Tracer == nil {
		return nil
	}
	out := map[string]bool{}
	for _, e := range r.Tracer.Events() {
		if e.Op == "create" && e.Phase == "ret" && e.Err == "" {
			out[e.Name] = true
		}
	}
	return out
}
