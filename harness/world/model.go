package world

import (
	"reflect"
	"sort"
	"strings"

	"github.com/go-kid/ioc/definition"
)

// This file is the reference resolution model: an independent implementation of what the
// property statements say about candidate selection. It works on the registered population and
// the scenario's tags only; it shares no code with the container.

type Comp struct {
	Idx     int
	Obj     any
	Name    string
	Named   bool // declares a custom name
	Type    reflect.Type
	Primary bool
	Lazy    bool
	HasQual bool
	Qual    string
}

func defaultName(t reflect.Type) string {
	if t.Kind() == reflect.Pointer {
		t = t.Elem()
	}
	if t.Name() == "" {
		return t.String()
	}
	if t.PkgPath() == "" {
		return t.Name()
	}
	return t.PkgPath() + "/" + t.Name()
}

func Describe(pop []any) []Comp {
	out := make([]Comp, len(pop))
	for i, o := range pop {
		c := Comp{Idx: i, Obj: o, Type: reflect.TypeOf(o)}
		c.Name = defaultName(c.Type)
		if n, ok := o.(definition.NamingComponent); ok {
			if a := n.Naming(); a != "" {
				c.Name, c.Named = a, true
			}
		}
		_, c.Primary = o.(definition.WirePrimary)
		_, c.Lazy = o.(definition.LazyInit)
		if q, ok := o.(definition.WireQualifier); ok {
			c.HasQual, c.Qual = true, q.Qualifier()
		}
		out[i] = c
	}
	return out
}

type Point struct {
	Holder int // population index of the holder (-1: not registered)
	Field  string
	FType  reflect.Type
	Tag    string // wire | func
	Raw    string // full tag value
}

type Resolution struct {
	Slice       bool
	S           []int // candidates after all filters and holder removal, ascending population index
	Tied        []int // acceptable values of a single-valued point (subset of S)
	Required    bool
	ByName      bool
	Unsupported bool // the statements do not define this point (not generated on purpose)
}

// ParseTag splits "v,n1=a b,n2" into value and arguments (names normalised to a lower-case
// first letter). The generated wire/func tags contain no brackets.
// splitTop splits at separators that are not inside a bracketed group ([..], {..}, (..)): "bracketed
// groups are never split" (C19's statement).
func splitTop(s string, sep byte) []string {
	var out []string
	depth, start := 0, 0
	for i := 0; i < len(s); i++ {
		switch s[i] {
		case '[', '{', '(':
			depth++
		case ']', '}', ')':
			if depth > 0 {
				depth--
			}
		case sep:
			if depth == 0 {
				out = append(out, s[start:i])
				start = i + 1
			}
		}
	}
	return append(out, s[start:])
}

func ParseTag(raw string) (val string, args map[string][]string) {
	parts := splitTop(raw, ',')
	val = parts[0]
	if strings.HasPrefix(val, "${nosuchkey.") && strings.HasSuffix(val, "}") {
		// placeholder with a key that is never configured (generated on purpose): the point is processed as
		// if it had been written with the default - an empty one makes it a by-type point
		if i := strings.Index(val, ":"); i >= 0 {
			val = val[i+1 : len(val)-1]
		}
	}
	args = map[string][]string{}
	for _, p := range parts[1:] {
		if p == "" {
			continue
		}
		name, rest, has := strings.Cut(p, "=")
		if name == "" {
			continue
		}
		name = strings.ToLower(name[:1]) + name[1:]
		if !has {
			args[name] = []string{""}
			continue
		}
		args[name] = splitTop(rest, ' ')
	}
	return
}

func contains(xs []string, x string) bool {
	for _, y := range xs {
		if x == y {
			return true
		}
	}
	return false
}

func Resolve(pop []Comp, pt Point) Resolution {
	val, args := ParseTag(pt.Raw)
	res := Resolution{Required: true}
	if r, ok := args["required"]; ok && contains(r, "false") {
		res.Required = false
	}
	ft := pt.FType
	elem := ft
	if ft.Kind() == reflect.Slice {
		res.Slice = true
		elem = ft.Elem()
	}
	if elem.Kind() != reflect.Pointer && elem.Kind() != reflect.Interface {
		res.Unsupported = true
		return res
	}
	typeOK := func(c Comp) bool {
		if elem.Kind() == reflect.Pointer {
			return c.Type == elem
		}
		return c.Type.Implements(elem)
	}
	var cand []int
	switch pt.Tag {
	case "wire":
		if val == "" {
			for _, c := range pop {
				if typeOK(c) {
					cand = append(cand, c.Idx)
				}
			}
		} else {
			res.ByName = true
			if res.Slice {
				res.Unsupported = true
				return res
			}
			for _, c := range pop {
				if c.Name == val && c.Type.AssignableTo(elem) {
					cand = append(cand, c.Idx)
				}
			}
		}
	case "func":
		rets, hasRet := args["returns"]
		for _, c := range pop {
			if !typeOK(c) {
				continue
			}
			m, ok := c.Type.MethodByName(val)
			if !ok {
				continue
			}
			if !hasRet {
				if m.Type.NumOut() == 0 {
					cand = append(cand, c.Idx)
				}
				continue
			}
			if contains(rets, "*") {
				cand = append(cand, c.Idx)
				continue
			}
			if m.Type.NumIn() != 1 { // receiver only
				continue
			}
			out := reflect.ValueOf(c.Obj).MethodByName(val).Call(nil)
			if len(out) == 0 {
				if contains(rets, "") {
					cand = append(cand, c.Idx)
				}
				continue
			}
			if s, ok := out[0].Interface().(string); ok && contains(rets, s) {
				cand = append(cand, c.Idx)
			}
		}
	default:
		res.Unsupported = true
		return res
	}
	if q, ok := args["qualifier"]; ok {
		var kept []int
		for _, i := range cand {
			if pop[i].HasQual && contains(q, pop[i].Qual) {
				kept = append(kept, i)
			}
		}
		cand = kept
	}
	var s []int
	for _, i := range cand {
		if i != pt.Holder {
			s = append(s, i)
		}
	}
	sort.Ints(s)
	res.S = s
	if !res.Slice {
		res.Tied = tied(pop, s)
	}
	return res
}

// tied: the unique Primary if there is exactly one; else, when there is no Primary at all, the
// unique component without a custom name; else (the statements are silent) all of S.
func tied(pop []Comp, s []int) []int {
	if len(s) <= 1 {
		return s
	}
	var prim, unnamed []int
	for _, i := range s {
		if pop[i].Primary {
			prim = append(prim, i)
		}
		if !pop[i].Named {
			unnamed = append(unnamed, i)
		}
	}
	if len(prim) == 1 {
		return prim
	}
	if len(prim) == 0 && len(unnamed) == 1 {
		return unnamed
	}
	return s
}

func InInts(xs []int, x int) bool {
	for _, y := range xs {
		if x == y {
			return true
		}
	}
	return false
}

// ---------------------------------------------------------------------------------------------
// whole-scenario expectations

// PointRes is the model's resolution of one tagged slot of one palette node.
type PointRes struct {
	Node       int // palette node index, -1 for literal-tag holders
	Slot       string
	Pt         Point
	Res        Resolution
	Val        reflect.Value // the field itself (settable view into the holder)
	HolderName string
}

// Expect is what the model says about a whole start.
type Expect struct {
	Points   []PointRes
	MustFail bool   // some certainly-created component has a required point without candidate
	MayFail  bool   // some possibly-created component has one
	Must     []bool // population index -> certainly created
	May      []bool // population index -> possibly created
}

// NodePoints resolves every tagged slot of every palette node of the run.
func (r *Run) NodePoints(pop []Comp) []PointRes {
	idx := r.PopIndex()
	st := reflect.TypeOf(Slots{})
	var out []PointRes
	for ni, n := range r.Nodes {
		h, ok := idx[n]
		if !ok {
			h = -1
		}
		for _, slot := range SortedSlots(&r.Sc.Nodes[ni]) {
			ts := r.Sc.Nodes[ni].Tags[slot]
			sf, _ := st.FieldByName(slot)
			pt := Point{Holder: h, Field: slot, FType: sf.Type, Tag: ts.Tag, Raw: ts.Val}
			out = append(out, PointRes{Node: ni, Slot: slot, Pt: pt, Res: Resolve(pop, pt),
				Val: reflect.ValueOf(n.Slot()).Elem().FieldByName(slot), HolderName: n.DisplayName()})
		}
	}
	return out
}

// ExpectFor computes creation reachability and the expected start outcome. extraEdges lists
// points of non-palette holders (population index -> resolutions), e.g. the App's own slices.
func (r *Run) ExpectFor(pop []Comp, points []PointRes, extra map[int][]Resolution) Expect {
	e := Expect{Points: points, Must: make([]bool, len(pop)), May: make([]bool, len(pop))}
	idx := r.PopIndex()
	byHolder := map[int][]Resolution{}
	_ = idx
	for _, p := range points {
		byHolder[p.Pt.Holder] = append(byHolder[p.Pt.Holder], p.Res)
	}
	for h, rs := range extra {
		byHolder[h] = append(byHolder[h], rs...)
	}
	var mustQ, mayQ []int
	for _, c := range pop {
		if !c.Lazy {
			e.Must[c.Idx], e.May[c.Idx] = true, true
			mustQ = append(mustQ, c.Idx)
			mayQ = append(mayQ, c.Idx)
		}
	}
	for len(mustQ) > 0 {
		h := mustQ[0]
		mustQ = mustQ[1:]
		for _, res := range byHolder[h] {
			var targets []int
			if res.Slice {
				targets = res.S
			} else if len(res.Tied) == 1 {
				targets = res.Tied
			}
			for _, t := range targets {
				if !e.Must[t] {
					e.Must[t] = true
					mustQ = append(mustQ, t)
				}
			}
		}
	}
	for len(mayQ) > 0 {
		h := mayQ[0]
		mayQ = mayQ[1:]
		for _, res := range byHolder[h] {
			targets := res.S
			if !res.Slice {
				targets = res.Tied
			}
			for _, t := range targets {
				if !e.May[t] {
					e.May[t] = true
					mayQ = append(mayQ, t)
				}
			}
		}
	}
	for h, rs := range byHolder {
		for _, res := range rs {
			if res.Unsupported {
				continue
			}
			if res.Required && len(res.S) == 0 {
				if e.Must[h] {
					e.MustFail = true
				}
				if e.May[h] {
					e.MayFail = true
				}
			}
		}
	}
	return e
}
