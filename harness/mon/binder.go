package mon

import (
	"sync"

	"github.com/go-kid/ioc/configure"
)

// Binder wraps a configure.Binder: Get-step budget (decides divergence of placeholder
// resolution in logical steps) and a record of what was served.
type Binder struct {
	Inner  configure.Binder
	Budget int
	mu     sync.Mutex
	Gets   int
	Paths  map[string]int
}

func NewBinder(inner configure.Binder, budget int) *Binder {
	return &Binder{Inner: inner, Budget: budget, Paths: map[string]int{}}
}

func (b *Binder) SetConfig(c []byte) error { return b.Inner.SetConfig(c) }
func (b *Binder) Set(path string, val any) { b.Inner.Set(path, val) }
func (b *Binder) Get(path string) any {
	b.mu.Lock()
	b.Gets++
	b.Paths[path]++
	over := b.Budget > 0 && b.Gets > b.Budget
	n := b.Gets
	b.mu.Unlock()
	if over {
		panic(Divergence{Where: "Binder.Get(" + path + ")", Steps: n})
	}
	return b.Inner.Get(path)
}

func (b *Binder) Count() int {
	b.mu.Lock()
	defer b.mu.Unlock()
	return b.Gets
}
