// Package mon contains the monitors: append-only logs and interface wrappers that observe the
// real container at its public interface boundaries.
package mon

import (
	"fmt"
	"sync"
)

// Event is one entry of the lifecycle log; Seq is a logical clock.
type Event struct {
	Seq  int
	Kind string // aps | init | run | close-begin | close-end | before | after | pp:<kind>:<P> | load | early | scan ...
	Who  string // component name (or loader / processor name)
	By   string // processor name for pp events
	Snap map[string]string
}

func (e Event) String() string {
	if e.By != "" {
		return fmt.Sprintf("%d:%s:%s@%s", e.Seq, e.Kind, e.Who, e.By)
	}
	return fmt.Sprintf("%d:%s:%s", e.Seq, e.Kind, e.Who)
}

// Lifecycle is a mutex-protected append-only event log for one start.
type Lifecycle struct {
	mu sync.Mutex
	ev []Event
}

func NewLifecycle() *Lifecycle { return &Lifecycle{} }

func (l *Lifecycle) Add(kind, who string) int {
	if l == nil {
		return -1
	}
	l.mu.Lock()
	defer l.mu.Unlock()
	l.ev = append(l.ev, Event{Seq: len(l.ev), Kind: kind, Who: who})
	return len(l.ev) - 1
}

func (l *Lifecycle) AddBy(kind, who, by string, snap map[string]string) int {
	if l == nil {
		return -1
	}
	l.mu.Lock()
	defer l.mu.Unlock()
	l.ev = append(l.ev, Event{Seq: len(l.ev), Kind: kind, Who: who, By: by, Snap: snap})
	return len(l.ev) - 1
}

func (l *Lifecycle) Events() []Event {
	if l == nil {
		return nil
	}
	l.mu.Lock()
	defer l.mu.Unlock()
	out := make([]Event, len(l.ev))
	copy(out, l.ev)
	return out
}

func (l *Lifecycle) Len() int {
	if l == nil {
		return 0
	}
	l.mu.Lock()
	defer l.mu.Unlock()
	return len(l.ev)
}

// Divergence is the sentinel panic value of the step budgets.
type Divergence struct {
	Where string
	Steps int
}

func (d Divergence) Error() string {
	return fmt.Sprintf("step budget exceeded at %s after %d steps", d.Where, d.Steps)
}
