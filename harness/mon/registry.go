package mon

import (
	"fmt"
	"hash/fnv"
	"math/rand"
	"sort"
	"sync"

	"github.com/go-kid/ioc/component_definition"
	"github.com/go-kid/ioc/container"
)

// ---------------------------------------------------------------------------------------------
// RegistryTracer: wraps the real SingletonComponentRegistry and records every call and result
// at the interface boundary.

type TraceEv struct {
	Seq   int
	Call  int    // id of the call this event belongs to
	Phase string // "call" | "ret"
	Op    string // get | create | create-fn | early-fn | addfactory | add | remove | increation
	Name  string
	Allow bool   // allowEarlyReference (get)
	Meta  int    // identity of the returned / passed *Meta (0 = nil)
	Raw   int    // identity of Meta.Raw (0 = nil)
	Err   string // non-empty when the call returned an error
	Bool  bool   // result of increation
	Depth int
}

type RegistryTracer struct {
	Inner  container.SingletonComponentRegistry
	Budget int
	mu     sync.Mutex
	ev     []TraceEv
	calls  int
	steps  int
	depth  int
	metaID map[*component_definition.Meta]int
	rawID  map[any]int
	Metas  []*component_definition.Meta // by id-1
}

func NewRegistryTracer(inner container.SingletonComponentRegistry, budget int) *RegistryTracer {
	return &RegistryTracer{Inner: inner, Budget: budget, metaID: map[*component_definition.Meta]int{}, rawID: map[any]int{}}
}

func (t *RegistryTracer) idOf(m *component_definition.Meta) (int, int) {
	if m == nil {
		return 0, 0
	}
	id, ok := t.metaID[m]
	if !ok {
		id = len(t.metaID) + 1
		t.metaID[m] = id
		t.Metas = append(t.Metas, m)
	}
	rid := 0
	if m.Raw != nil {
		var ok bool
		func() {
			defer func() { recover() }() // unhashable Raw: ignore
			rid, ok = t.rawID[m.Raw]
			if !ok {
				rid = len(t.rawID) + 1
				t.rawID[m.Raw] = rid
			}
		}()
	}
	return id, rid
}

// Mark inserts a marker event that is not a registry call (e.g. the window of a lookup issued by user code).
func (t *RegistryTracer) Mark(op, phase, name string) {
	if t == nil {
		return
	}
	t.mu.Lock()
	defer t.mu.Unlock()
	t.ev = append(t.ev, TraceEv{Seq: len(t.ev), Phase: phase, Op: op, Name: name, Depth: t.depth})
}

func (t *RegistryTracer) begin(op, name string, allow bool) int {
	t.mu.Lock()
	defer t.mu.Unlock()
	t.calls++
	id := t.calls
	t.ev = append(t.ev, TraceEv{Seq: len(t.ev), Call: id, Phase: "call", Op: op, Name: name, Allow: allow, Depth: t.depth})
	t.depth++
	if op == "get" || op == "create" {
		t.steps++
		if t.Budget > 0 && t.steps > t.Budget {
			t.depth--
			panic(Divergence{Where: "SingletonComponentRegistry." + op + "(" + name + ")", Steps: t.steps})
		}
	}
	return id
}

func (t *RegistryTracer) end(id int, op, name string, m *component_definition.Meta, err error, b bool) {
	t.mu.Lock()
	defer t.mu.Unlock()
	t.depth--
	mid, rid := t.idOf(m)
	e := TraceEv{Seq: len(t.ev), Call: id, Phase: "ret", Op: op, Name: name, Meta: mid, Raw: rid, Bool: b, Depth: t.depth}
	if err != nil {
		e.Err = err.Error()
		if e.Err == "" {
			e.Err = "error"
		}
	}
	t.ev = append(t.ev, e)
}

// abort closes a call that is being unwound by a panic.
func (t *RegistryTracer) abort(id int, op, name string) {
	t.mu.Lock()
	defer t.mu.Unlock()
	t.depth--
	t.ev = append(t.ev, TraceEv{Seq: len(t.ev), Call: id, Phase: "ret", Op: op, Name: name, Err: "panic", Depth: t.depth})
}

type tracedFactory struct {
	t     *RegistryTracer
	op    string
	name  string
	inner container.SingletonFactory
}

func (f tracedFactory) GetComponent() (m *component_definition.Meta, err error) {
	id := f.t.begin(f.op, f.name, false)
	done := false
	defer func() {
		if !done {
			f.t.abort(id, f.op, f.name)
		}
	}()
	m, err = f.inner.GetComponent()
	done = true
	f.t.end(id, f.op, f.name, m, err, false)
	return
}

func (t *RegistryTracer) AddSingleton(name string, meta *component_definition.Meta) {
	id := t.begin("add", name, false)
	t.Inner.AddSingleton(name, meta)
	t.end(id, "add", name, meta, nil, false)
}

func (t *RegistryTracer) AddSingletonFactory(name string, method container.SingletonFactory) {
	id := t.begin("addfactory", name, false)
	t.Inner.AddSingletonFactory(name, tracedFactory{t: t, op: "early-fn", name: name, inner: method})
	t.end(id, "addfactory", name, nil, nil, false)
}

func (t *RegistryTracer) GetSingleton(name string, allowEarlyReference bool) (m *component_definition.Meta, err error) {
	id := t.begin("get", name, allowEarlyReference)
	done := false
	defer func() {
		if !done {
			t.abort(id, "get", name)
		}
	}()
	m, err = t.Inner.GetSingleton(name, allowEarlyReference)
	done = true
	t.end(id, "get", name, m, err, false)
	return
}

func (t *RegistryTracer) RemoveSingleton(name string) {
	id := t.begin("remove", name, false)
	t.Inner.RemoveSingleton(name)
	t.end(id, "remove", name, nil, nil, false)
}

func (t *RegistryTracer) GetSingletonOrCreateByFactory(name string, factory container.SingletonFactory) (m *component_definition.Meta, err error) {
	id := t.begin("create", name, false)
	done := false
	defer func() {
		if !done {
			t.abort(id, "create", name)
		}
	}()
	m, err = t.Inner.GetSingletonOrCreateByFactory(name, tracedFactory{t: t, op: "create-fn", name: name, inner: factory})
	done = true
	t.end(id, "create", name, m, err, false)
	return
}

func (t *RegistryTracer) IsSingletonCurrentlyInCreation(name string) bool {
	id := t.begin("increation", name, false)
	b := t.Inner.IsSingletonCurrentlyInCreation(name)
	t.end(id, "increation", name, nil, nil, b)
	return b
}

func (t *RegistryTracer) Events() []TraceEv {
	t.mu.Lock()
	defer t.mu.Unlock()
	out := make([]TraceEv, len(t.ev))
	copy(out, t.ev)
	return out
}

func (t *RegistryTracer) Steps() int {
	t.mu.Lock()
	defer t.mu.Unlock()
	return t.steps
}

// ResetBudget restarts step counting (used when the history is continued after the start).
func (t *RegistryTracer) ResetBudget(b int) {
	t.mu.Lock()
	defer t.mu.Unlock()
	t.steps = 0
	t.Budget = b
}

// ShapeHash is a hash of the trace with names replaced by first-occurrence indices: the
// "distinct creation trace" counter.
func ShapeHash(ev []TraceEv) string {
	h := fnv.New64a()
	names := map[string]int{}
	for _, e := range ev {
		if e.Op == "increation" {
			continue
		}
		n, ok := names[e.Name]
		if !ok {
			n = len(names)
			names[e.Name] = n
		}
		fmt.Fprintf(h, "%s%s%d%v%v|", e.Phase[:1], e.Op, n, e.Allow, e.Err != "")
	}
	return fmt.Sprintf("%x", h.Sum64())
}

// ---------------------------------------------------------------------------------------------
// DefPermuter: wraps the real DefinitionRegistry; GetMetas returns the real result in a
// controlled order.

type DefPermuter struct {
	Inner container.DefinitionRegistry
	mu    sync.Mutex
	rng   *rand.Rand
	// Mode: "random" (seeded shuffle), "sorted", "reversed", "perm" (k-th permutation for small sets), "native"
	Mode   string
	PermK  int
	Orders map[string]bool // distinct orders handed out (for sets of size >= 2)
	Calls  int
}

func NewDefPermuter(inner container.DefinitionRegistry, mode string, seed int64, k int) *DefPermuter {
	return &DefPermuter{Inner: inner, rng: rand.New(rand.NewSource(seed)), Mode: mode, PermK: k, Orders: map[string]bool{}}
}

func (d *DefPermuter) RegisterMeta(m *component_definition.Meta) { d.Inner.RegisterMeta(m) }
func (d *DefPermuter) GetMetaByName(name string) *component_definition.Meta {
	return d.Inner.GetMetaByName(name)
}
func (d *DefPermuter) GetMetaOrRegister(name string, component any) *component_definition.Meta {
	return d.Inner.GetMetaOrRegister(name, component)
}

func (d *DefPermuter) GetMetas(opts ...container.Option) []*component_definition.Meta {
	ms := d.Inner.GetMetas(opts...)
	d.mu.Lock()
	defer d.mu.Unlock()
	d.Calls++
	if d.Mode == "native" || len(ms) < 2 {
		return ms
	}
	sort.Slice(ms, func(i, j int) bool { return ms[i].Name() < ms[j].Name() })
	switch d.Mode {
	case "sorted":
	case "reversed":
		for i, j := 0, len(ms)-1; i < j; i, j = i+1, j-1 {
			ms[i], ms[j] = ms[j], ms[i]
		}
	case "perm":
		ms = KthPerm(ms, d.PermK)
	default:
		d.rng.Shuffle(len(ms), func(i, j int) { ms[i], ms[j] = ms[j], ms[i] })
	}
	if len(ms) <= 6 {
		s := ""
		for _, m := range ms {
			s += m.Name() + ","
		}
		d.Orders[s] = true
	}
	return ms
}

// KthPerm returns the k-th (mod n!) permutation of xs in factorial-number-system order.
func KthPerm[T any](xs []T, k int) []T {
	n := len(xs)
	pool := append([]T(nil), xs...)
	out := make([]T, 0, n)
	f := 1
	for i := 2; i <= n && f < 1<<40; i++ {
		f *= i
	}
	if f > 0 {
		k %= f
	}
	for i := n; i >= 1; i-- {
		f /= i
		if f == 0 {
			f = 1
		}
		j := 0
		if i > 1 {
			j = (k / f) % i
			k %= f
		}
		out = append(out, pool[j])
		pool = append(pool[:j], pool[j+1:]...)
	}
	return out
}

// ---------------------------------------------------------------------------------------------
// PopRegistry: wraps the public SingletonRegistry: records the population, permutes
// GetSingletonNames.

type PopRegistry struct {
	Inner    container.SingletonRegistry
	mu       sync.Mutex
	rng      *rand.Rand
	Shuffle  bool
	Pop      []any
	Rejected []any // registrations that panicked
}

func NewPopRegistry(inner container.SingletonRegistry, seed int64, shuffle bool) *PopRegistry {
	return &PopRegistry{Inner: inner, rng: rand.New(rand.NewSource(seed)), Shuffle: shuffle}
}

func (p *PopRegistry) RegisterSingleton(s any) {
	ok := false
	defer func() {
		p.mu.Lock()
		defer p.mu.Unlock()
		if ok {
			p.Pop = append(p.Pop, s)
		} else {
			p.Rejected = append(p.Rejected, s)
		}
	}()
	p.Inner.RegisterSingleton(s)
	ok = true
}
func (p *PopRegistry) GetSingleton(name string) (any, error) { return p.Inner.GetSingleton(name) }
func (p *PopRegistry) ContainsSingleton(name string) bool    { return p.Inner.ContainsSingleton(name) }
func (p *PopRegistry) GetSingletonCount() int                { return p.Inner.GetSingletonCount() }
func (p *PopRegistry) GetSingletonNames() []string {
	ns := p.Inner.GetSingletonNames()
	if p.Shuffle {
		p.mu.Lock()
		sort.Strings(ns)
		p.rng.Shuffle(len(ns), func(i, j int) { ns[i], ns[j] = ns[j], ns[i] })
		p.mu.Unlock()
	}
	return ns
}
