#!/usr/bin/env python3
"""Validate MANIFEST.json and evidence/*.json against the schemas in /root/.vp (run with python3-vt)."""
import json, sys, glob, os
import jsonschema
base = os.path.dirname(os.path.dirname(os.path.abspath(__file__)))
ok = True
def check(doc, schema, name):
    global ok
    try:
        jsonschema.validate(json.load(open(doc)), json.load(open(schema)))
        print("valid  ", name)
    except Exception as e:
        ok = False
        print("INVALID", name, str(e)[:300])
check(base + "/MANIFEST.json", "/root/.vp/MANIFEST.schema.json", "MANIFEST.json")
for f in sorted(glob.glob(base + "/evidence/*.json")):
    check(f, "/root/.vp/EVIDENCE.schema.json", os.path.basename(f))
man = json.load(open(base + "/MANIFEST.json"))
claimed = {c["property_id"] for c in man["checks"]}
na = {c["property_id"] for c in man.get("not_applicable", [])}
props = [json.loads(l)["id"] for l in open(base + "/properties.jsonl")]
for p in props:
    if p not in claimed and p not in na:
        ok = False; print("UNLISTED", p)
sys.exit(0 if ok else 1)
