#!/bin/bash
# tools/seeded_matrix.sh [tier] [ids...] : runs every seeded change against its own property's check and
# (unless OWN_ONLY=1) all other checks; appends machine-readable lines to seeded/matrix.log
cd "${VERIF_HOME:-/verif}" || exit 2
TIER="${1:-quick}"; shift
ALL="C01 C02 C03 C04 C05 C06 C07 C08 C09 C10 C11 C12 C13 C14 C15 C16 C17 C18 C19 C20"
DIRS="$@"; [ -z "$DIRS" ] && DIRS=$(ls -d seeded/C??-? | xargs -n1 basename)
for d in $DIRS; do
  OWN=$(python3 -c "import json; print(json.load(open('seeded/$d/meta.json'))['property'])")
  OTHERS=""; if [ -z "${OWN_ONLY:-}" ]; then for p in $ALL; do [ "$p" != "$OWN" ] && OTHERS="$OTHERS $p"; done; fi
  timeout 7200 tools/run_seeded.sh seeded/$d $TIER $OTHERS 2>&1 | grep -E "^RESULT|^CHECK" | sed "s#^#$d #" | cut -c1-400 | tee -a seeded/matrix.log
done
