#!/usr/bin/env python3
"""tools/design_table.py : regenerates the table of seeded changes in DESIGN.md (section 7) from seeded/*/meta.json."""
import json, os, re
root = os.path.dirname(os.path.dirname(os.path.abspath(__file__)))
rows = []
for d in sorted(os.listdir(os.path.join(root, "seeded"))):
    mp = os.path.join(root, "seeded", d, "meta.json")
    if not os.path.exists(mp):
        continue
    m = json.load(open(mp))
    summ = " ".join(m.get("summary", "").split()).replace("|", "/")
    rows.append("| %s | %s | %s |" % (d, m["property"], summ[:200]))
p = os.path.join(root, "DESIGN.md")
s = open(p).read()
head = "| change | property | what it does |\n|--------|----------|--------------|\n"
i = s.index(head)
j = s.index("\n\n", i)
s = s[:i] + head + "\n".join(rows) + s[j:]
open(p, "w").write(s)
print(len(rows), "rows")
