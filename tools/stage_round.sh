#!/bin/bash
# tools/stage_round.sh <dest> <ids...> : copies /tmp/wt-Cxx/_seeded/{a,b} of finished seeding agents to <dest>/Cxx/{a,b}
DEST="$1"; shift
for p in "$@"; do
  for v in a b; do
    s=/tmp/wt-$p/_seeded/$v
    [ -f $s/patch.diff ] || { echo "missing $s"; continue; }
    mkdir -p $DEST/$p/$v && rm -rf $DEST/$p/$v/* && cp -r $s/. $DEST/$p/$v/
    python3 - "$DEST/$p/$v/meta.json" "$p" <<'PY'
import json,sys
p=sys.argv[1]
try: m=json.load(open(p))
except Exception as e: m={"summary":"unreadable: %s"%e}
m["property"]=sys.argv[2]
json.dump(m,open(p,"w"),indent=1)
PY
  done
done
