#!/usr/bin/env python3
"""tools/import_seeded.py <staging-dir> : copies confirmed seeded changes (<staging>/Cxx/{a,b}/) to /verif/seeded/Cxx-{a,b}/
with patch.diff, demo/ and a normalised meta.json."""
import json, os, shutil, sys
src = sys.argv[1]
dst = os.path.join(os.path.dirname(os.path.dirname(os.path.abspath(__file__))), "seeded")
os.makedirs(dst, exist_ok=True)
for prop in sorted(os.listdir(src)):
    for v in sorted(os.listdir(os.path.join(src, prop))):
        s = os.path.join(src, prop, v)
        if not os.path.exists(os.path.join(s, "patch.diff")):
            continue
        d = os.path.join(dst, f"{prop}-{v}")
        if os.path.exists(d):
            shutil.rmtree(d)
        os.makedirs(d)
        shutil.copy(os.path.join(s, "patch.diff"), d)
        if os.path.isdir(os.path.join(s, "demo")):
            shutil.copytree(os.path.join(s, "demo"), os.path.join(d, "demo"))
        try:
            m = json.load(open(os.path.join(s, "meta.json")))
        except Exception as e:
            m = {"summary": "meta.json unreadable: %s" % e}
        meta = {
            "property": prop,
            "summary": m.get("summary", ""),
            "needs_to_manifest": m.get("needs", ""),
            "files": m.get("files", []),
            "author": "independent sub-agent given only the property text and a scratch worktree of /repo",
            "author_verification": m.get("verified", ""),
            "my_verification": "tools/run_seeded.sh seeded/%s-%s quick : patch applied to /repo (git apply), go build + unedited repository suite pass, demo copied to /repo/_seeded_demo and run (fails with the change), property checks run, /repo restored (git checkout -- .); results in seeded/RESULTS.md" % (prop, v),
        }
        json.dump(meta, open(os.path.join(d, "meta.json"), "w"), indent=1)
        print("imported", d)
