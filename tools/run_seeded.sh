#!/bin/bash
# tools/run_seeded.sh <seeded-dir> [tier] [extra property ids...]
# Applies <seeded-dir>/patch.diff to /repo, confirms that it compiles and that the repository's own
# suite still passes, runs the demo (must fail), runs the checks of the property named in meta.json
# (plus extra ids), and reverts /repo. Prints one summary line per check.
set -u
D="$(cd "$1" && pwd)"; TIER="${2:-quick}"; shift; shift 2>/dev/null
export GOFLAGS=-mod=mod GOPROXY=off GOSUMDB=off GOTOOLCHAIN=local
PROP=$(python3 -c "import json,sys; print(json.load(open('$D/meta.json'))['property'])")
REPO="${REPO_DIR:-/repo}"; VH="${VERIF_HOME:-/verif}"
cd "$REPO" || exit 2
if [ -n "$(git status --porcelain)" ]; then echo "REPO DIRTY, refusing"; exit 2; fi
cleanup() { cd "$REPO" && git checkout -q -- . && git clean -fdq -- . >/dev/null 2>&1; rm -rf "$REPO/_seeded_demo"; }
trap cleanup EXIT
git apply "$D/patch.diff" || { echo "RESULT $D apply=FAILED"; exit 2; }
go build ./... 2>/dev/null && go test -mod=mod -vet=off -count=1 -run '^$' ./... >/dev/null 2>&1 || { echo "RESULT $D compile=FAILED"; exit 2; }
SUITE=pass; go test -mod=mod -vet=off -count=1 ./... >"$VH/.work/seeded-suite.log" 2>&1 || SUITE=FAIL
DEMO=n/a
if [ -d "$D/demo" ]; then
  mkdir -p "$REPO/_seeded_demo" && cp -r "$D/demo/." "$REPO/_seeded_demo/"
  if go test -mod=mod -vet=off -count=1 ./_seeded_demo/... >"$VH/.work/seeded-demo.log" 2>&1; then DEMO=passes-with-change; else DEMO=fails-with-change; fi
  rm -rf "$REPO/_seeded_demo"
fi
echo "RESULT $D property=$PROP suite=$SUITE demo=$DEMO"
cd "$VH"
for P in $PROP "$@"; do
  OUT=$(./check.sh "$P" "$TIER" 2>&1); RC=$?
  V=$(echo "$OUT" | grep -c '^VIOLATION')
  W=$(echo "$OUT" | grep -m1 'what:' | cut -c1-220)
  echo "CHECK $P tier=$TIER exit=$RC violations_printed=$V $W"
done
git -C "$VH" checkout -q -- evidence 2>/dev/null
