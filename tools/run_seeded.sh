#!/bin/bash
# tools/run_seeded.sh <seeded-dir> [tier] [extra property ids...]
# Applies <seeded-dir>/patch.diff to /repo, confirms that it compiles and that the repository's own
# suite still passes, runs the demo (must fail), runs the checks of the property named in meta.json
# (plus extra ids), and reverts /repo. Prints one summary line per check.
set -u
D="$(cd "$1" && pwd)"; TIER="${2:-quick}"; shift; shift 2>/dev/null
export GOFLAGS=-mod=mod GOPROXY=off GOSUMDB=off GOTOOLCHAIN=local
PROP=$(python3 -c "import json,sys; print(json.load(open('$D/meta.json'))['property'])")
REPO="${REPO_DIR:-/repo}"; VH="${VERIF_HOME:-/verif}"
cd "$REPO" || exit 2
if [ -n "$(git status --porcelain)" ]; then echo "REPO DIRTY, refusing"; exit 2; fi
trap 'cleanup' EXIT
# the demonstration lives where its author ran it: _seeded/<a|b>/demo (some demos depend on the package path;
# directories starting with "_" are invisible to ./... patterns, so every package directory is named explicitly)
V=$(basename "$D"); V=${V##*-}; case "$V" in a|c|e|g|i|k|m|o|q|s|u|w|y) ORIG=a;; *) ORIG=b;; esac
DEMODIR="$REPO/_seeded/$ORIG/demo"
rundemo() {
  local rc=0 n=0
  for dir in $(find "$DEMODIR" -name '*_test.go' -printf '%h\n' | sort -u); do
    n=$((n+1))
    (cd "$dir" && go test -mod=mod -vet=off -count=1 . ) >>"$1" 2>&1 || rc=1
  done
  [ $n -eq 0 ] && return 2
  return $rc
}
cleanup() { cd "$REPO" && git checkout -q -- . && git clean -fdq -- . >/dev/null 2>&1; rm -rf "$REPO/_seeded" "$REPO/_seeded_demo"; }
DEMO=n/a
if [ -d "$D/demo" ]; then
  mkdir -p "$DEMODIR" && cp -r "$D/demo/." "$DEMODIR/"
  : >"$VH/.work/seeded-demo-clean.log"
  rundemo "$VH/.work/seeded-demo-clean.log"; case $? in 0) CLEAN=passes;; 2) CLEAN=NO-TESTS;; *) CLEAN=FAILS;; esac
fi
git apply "$D/patch.diff" || { echo "RESULT $D apply=FAILED"; exit 2; }
go build ./... 2>/dev/null && go test -mod=mod -vet=off -count=1 -run '^$' ./... >/dev/null 2>&1 || { echo "RESULT $D compile=FAILED"; exit 2; }
SUITE=pass; go test -mod=mod -vet=off -count=1 ./... >"$VH/.work/seeded-suite.log" 2>&1 || SUITE=FAIL
if [ -d "$D/demo" ]; then
  : >"$VH/.work/seeded-demo.log"
  rundemo "$VH/.work/seeded-demo.log"; case $? in 0) DEMO=passes-with-change;; 2) DEMO=NO-TESTS;; *) DEMO=fails-with-change;; esac
  DEMO="$DEMO,unchanged-tree:$CLEAN"
  rm -rf "$REPO/_seeded"
fi
echo "RESULT $D property=$PROP suite=$SUITE demo=$DEMO"
cd "$VH"
[ -n "${DEMO_ONLY:-}" ] && exit 0
for P in $PROP "$@"; do
  OUT=$(./check.sh "$P" "$TIER" 2>&1); RC=$?
  V=$(echo "$OUT" | grep -c '^VIOLATION')
  W=$(echo "$OUT" | grep -m1 'what:' | cut -c1-220)
  echo "CHECK $P tier=$TIER exit=$RC violations_printed=$V $W"
done
git -C "$VH" checkout -q -- evidence 2>/dev/null
