#!/usr/bin/env python3
"""Regenerates MANIFEST.json from the table below (keeps it valid and in sync with the checks that exist)."""
import json, subprocess, os
base = os.path.dirname(os.path.dirname(os.path.abspath(__file__)))
repo_commits = subprocess.run(["git", "-C", "/repo", "log", "--format=%H %s"], capture_output=True, text=True).stdout.strip().split("\n")
hook_commits = [l.split()[0] for l in repo_commits if "verif hook" in l]
T = {
 "C01": ("exploration", "runtime monitoring: black-box identity observer + registry call tracer over generated graphs under permuted orders",
         "Seeded + partly enumerated exploration of dependency graphs on the real container; identity of every injected value against the registered instance and against by-name lookup. Holds on the graphs/orders explored, nothing beyond.", "5 C01"),
 "C02": ("exploration", "runtime monitoring: step-budget divergence monitor on the singleton registry + reference-model wiring oracle over enumerated and random digraphs",
         "Every digraph on 3 (thorough: 4) nodes at every rotation and edge kind, plus random large cyclic graphs, started on the real container; termination decided in logical steps, wiring compared per point with an independent model.", "5 C02"),
 "C06": ("exploration", "runtime monitoring: reference-model oracle (set comprehension over the observed population) vs black-box wiring observation",
         "Seeded populations x consumer kinds x orders on the real container; per-point soundness and completeness against an independent model.", "5 C06"),
 "C07": ("exploration", "runtime monitoring: reference-model oracle for by-name points + duplicate-registration monitor on the real registry",
         "Seeded name x type x field-kind space incl. absent and incompatible names, required/optional, on the real container; panics are violations.", "5 C07"),
 "C08": ("exploration", "runtime monitoring: per-field reference-model oracle with cross-field interference workloads",
         "Seeded multi-field holders mixing qualified / Primary / optional-unsatisfiable points in all positions under permuted candidate orders.", "5 C08"),
}
NOTE = {
 "C01": "trusted: reflection-based observer, the verif hook only swaps registries for wrappers; sampled quantifiers",
 "C02": "trusted: step budget formula as divergence criterion; model in harness/world/model.go",
 "C06": "trusted: model in harness/world/model.go; func-tag matching only with string results",
 "C07": "trusted: model; silent-drop logger level not exercised",
 "C08": "trusted: model; silent where the statement is silent (two Primaries)",
}
props = [json.loads(l) for l in open(base + "/properties.jsonl")]
checks, na = [], []
for p in props:
    i = p["id"]
    if i in T and os.path.exists(f"{base}/harness/props/{i.lower()}.go"):
        lvl, tech, text, ref = T[i]
        checks.append({
            "property_id": i,
            "quick_cmd": f"./check.sh {i} quick",
            "thorough_cmd": f"./check.sh {i} thorough",
            "evidence_file": f"/verif/evidence/{i}.json",
            "replay_cmd_template": "./.work/bin/vcheck replay {path}",
            "engine": "vcheck",
            "level_claimed": {"category": lvl, "text": text, "design_ref": "DESIGN.md section " + ref},
            "level_note": NOTE[i],
            "technique": tech,
        })
    else:
        na.append({"property_id": i, "reason": "check under construction in this session (runtime-monitoring design in DESIGN.md section 5); not claimed until its check is committed"})
man = {
 "version": 1,
 "setup_cmd": "cd /verif/harness && GOFLAGS=-mod=mod GOPROXY=off GOSUMDB=off GOTOOLCHAIN=local go build -tags verif -o /verif/.work/bin/vcheck ./cmd/vcheck",
 "hooks": {"guard": "verif (Go build tag)", "enable": "go build -tags verif (check.sh does this for every run)",
           "baseline_off_cmd": "cd /repo && GOFLAGS=-mod=mod go test -mod=mod -json -vet=off -count=1 -timeout 25m ./...",
           "source_commits": hook_commits, "add_only": True},
 "engines": [{"name": "vcheck", "path": "/verif/harness", "serves_properties": [c["property_id"] for c in checks],
              "kind_free_text": "Go harness: parent/worker processes running the real container under monitors (registry tracer, order permuters, lifecycle log, binder budget, race detector, porcupine)"}],
 "checks": checks,
 "not_applicable": na,
 "notes": "All checks: ./check.sh <ID> <tier>; VERIF_SEED selects the case list; known findings in known_findings.json; see DESIGN.md.",
}
json.dump(man, open(base + "/MANIFEST.json", "w"), indent=1)
print("checks:", [c["property_id"] for c in checks], "na:", len(na))
