#!/usr/bin/env python3
"""Regenerates MANIFEST.json from the table below (keeps it valid and in sync with the checks that exist)."""
import json, subprocess, os
base = os.path.dirname(os.path.dirname(os.path.abspath(__file__)))
repo_commits = subprocess.run(["git", "-C", "/repo", "log", "--format=%H %s"], capture_output=True, text=True).stdout.strip().split("\n")
hook_commits = [l.split()[0] for l in repo_commits if "verif hook" in l]
T = {
 "C01": ("exploration", "runtime monitoring: black-box identity observer + registry call tracer over generated graphs under permuted orders",
         "Seeded + partly enumerated exploration of dependency graphs on the real container; identity of every injected value against the registered instance and against by-name lookup. Holds on the graphs/orders explored, nothing beyond.", "5 C01"),
 "C02": ("exploration", "runtime monitoring: step-budget divergence monitor on the singleton registry + reference-model wiring oracle over enumerated and random digraphs",
         "Every digraph on 3 (thorough: 4) nodes at every rotation and edge kind, plus random large cyclic graphs, started on the real container; termination decided in logical steps, wiring compared per point with an independent model.", "5 C02"),
 "C03": ("exploration", "runtime monitoring: version-identity monitor under a substituting post-processor (all wrap timings) over cyclic graphs",
         "Seeded cyclic graphs x wrapped subsets x wrap timings x orders on the real container; after every successful start each holder's version is compared with the published one.", "5 C03"),
 "C04": ("exploration", "runtime monitoring: offline trace conformance of recorded registry histories against a sequential per-name state machine",
         "Histories recorded at the SingletonComponentRegistry interface (generated protocol-respecting client driving the real registry + traced real starts continued after failures) checked exactly (sequential histories) against the cache protocol.", "5 C04"),
 "C05": ("exploration", "runtime monitoring: offline checker over a per-start lifecycle event log (logical clock) written by components and observing post-processors",
         "Seeded graphs / lazy-eager mixes / post-processor sets on the real container; exactly-once, ordering, populate-before-init and dependencies-first decided on the recorded events and the observed wiring.", "5 C05"),
 "C06": ("exploration", "runtime monitoring: reference-model oracle (set comprehension over the observed population) vs black-box wiring observation",
         "Seeded populations x consumer kinds x orders on the real container; per-point soundness and completeness against an independent model.", "5 C06"),
 "C07": ("exploration", "runtime monitoring: reference-model oracle for by-name points + duplicate-registration monitor on the real registry",
         "Seeded name x type x field-kind space incl. absent and incompatible names, required/optional, on the real container; panics are violations.", "5 C07"),
 "C08": ("exploration", "runtime monitoring: per-field reference-model oracle with cross-field interference workloads",
         "Seeded multi-field holders mixing qualified / Primary / optional-unsatisfiable points in all positions under permuted candidate orders.", "5 C08"),
 "C09": ("fault_enumeration", "runtime monitoring with fault injection: every single fault site of each generated scenario is injected (one start each) and judged by outcome / event-log oracles with step budgets",
         "Per scenario the complete list of single fault sites (required points, config keys, Init/AfterPropertiesSet, every post-processor callback kind x component, scanner x component, factory post-processor, loaders, runners) is enumerated and injected, plus seeded pairs; scenarios are sampled.", "5 C09"),
 "C10": ("exploration", "runtime monitoring: differential runs of one scenario under enumerated / seeded registration, enumeration and candidate orders + reference model for tied sets",
         "Each scenario is started 12-24 times under controlled orders (all permutations of candidate sets up to 4); outcomes and determined points must agree.", "5 C10"),
 "C11": ("exploration", "runtime monitoring: metamorphic comparison (flat vs embedded re-arrangements of run-time built struct types) + sentinel frame checker + recording tag processor",
         "Seeded leaf multisets in flat and nested reflect.StructOf arrangements on the real container; equal leaf values, exact property delivery, untouched sentinels.", "5 C11"),
 "C12": ("exploration", "runtime monitoring: contract predicate over sorter outputs and over invocation logs of real starts",
         "Seeded participant multisets through the real sorter and real starts with logging post-processors, runners and loaders of all classes.", "5 C12"),
 "C13": ("exploration", "runtime monitoring: offline checker over the per-start event log (runner events vs lifecycle events) with injected runner failures",
         "Seeded runner sets among other components, each choice of failing runner; exactly-once, after-ready, order and stop-at-first-error decided on recorded events.", "5 C13"),
 "C14": ("exploration", "runtime monitoring: gated closers + event-log sampling at the return of App.Close, repeated under the race detector",
         "Seeded closer sets with gates inside their Close methods (released in seeded orders only once all have begun), error subsets; sampled exactly when Close returns; same workload on a -race build.", "5 C14"),
 "C15": ("exploration", "runtime monitoring: independent deep-merge model vs App.Get / prefix-bound fields over generated sources and option sequences",
         "Seeded source sets (raw, file, args, ordered, priority-ordered) and option sequences on the real container; every path compared with the model.", "5 C15"),
 "C16": ("exploration", "runtime monitoring: model resolver + literal twins, Binder.Get step budget as divergence monitor",
         "Seeded tag texts x configurations incl. reference cycles on the real container; replacement text against an independent resolver, termination decided in logical steps.", "5 C16"),
 "C17": ("exploration", "runtime monitoring: typed expectations from the generator's own document + prefix/value/prop twin comparison over hostile values",
         "Seeded hostile values x compatible targets bound three ways on the real container.", "5 C17"),
 "C18": ("exploration", "runtime monitoring: differential against direct evaluation by the expression library and a directly constructed validator (biconditional)",
         "Seeded expressions with placeholder operands/operators and value x constraint pairs on the real container.", "5 C18"),
 "C19": ("exploration", "runtime monitoring: seeded + mutation fuzzing under recover() for totality, independent reference parser for faithfulness, end-to-end starts",
         "Seeded byte strings / grammar strings / mutated structured tags through the real parser; structured tags against a reference parser; generated tags on run-time built holders.", "5 C19"),
 "C20": ("exploration", "Go race detector over gated concurrent start/shutdown workloads + porcupine linearizability checking of recorded histories",
         "A -race build runs starts with overlapping scanner failures and concurrent closers (reports parsed from the GORACE log); histories of the concurrent map/set utilities recorded at the client boundary are checked by porcupine per key.", "5 C20"),
}
NOTE = {
 "C01": "trusted: reflection-based observer, the verif hook only swaps registries for wrappers; sampled quantifiers",
 "C02": "trusted: step budget formula as divergence criterion; model in harness/world/model.go",
 "C03": "trusted: wrappers only for interface-typed slots; statement constrains successful starts only",
 "C04": "trusted: tracer wraps every interface method; client never re-enters a name without early factory",
 "C05": "trusted: event log written from harness callbacks; post-processor components themselves are out of scope",
 "C06": "trusted: model in harness/world/model.go; func-tag matching only with string results",
 "C07": "trusted: model; silent-drop logger level not exercised",
 "C08": "trusted: model; silent where the statement is silent (two Primaries)",
 "C09": "trusted: model-based reachedness (certainly created / certainly not); pairs sampled",
 "C10": "trusted: model for tied sets; map-iteration and scan scheduling only sampled by repetition",
 "C11": "trusted: reflect.StructOf shapes only; unsafe used inside the harness to pre-fill unexported decoys",
 "C12": "trusted: class of a participant derived from its Go interfaces by the harness",
 "C13": "trusted: event log; tie-tolerant prefix rule for failing runners",
 "C14": "trusted: gates live in harness-supplied Close methods; fallback delay never decides a verdict",
 "C15": "trusted: yaml.v3 for generating documents; one loader per (class, Order)",
 "C16": "trusted: model resolver; budget of 20000 Binder.Get calls",
 "C17": "trusted: yaml.v3 round trip; any-typed targets excluded",
 "C18": "trusted: expr and validator libraries (used as reference)",
 "C19": "trusted: reference parser; watchdog for non-termination of the parser",
 "C20": "trusted: Go race detector, porcupine v1.3.0; schedules sampled",
}
props = [json.loads(l) for l in open(base + "/properties.jsonl")]
checks, na = [], []
for p in props:
    i = p["id"]
    if i in T and os.path.exists(f"{base}/harness/props/{i.lower()}.go"):
        lvl, tech, text, ref = T[i]
        checks.append({
            "property_id": i,
            "quick_cmd": f"./check.sh {i} quick",
            "thorough_cmd": f"./check.sh {i} thorough",
            "evidence_file": f"/verif/evidence/{i}.json",
            "replay_cmd_template": "./check.sh replay {path}",
            "engine": "vcheck",
            "level_claimed": {"category": lvl, "text": text, "design_ref": "DESIGN.md section " + ref},
            "level_note": NOTE[i],
            "technique": tech,
        })
    else:
        na.append({"property_id": i, "reason": "check under construction in this session (runtime-monitoring design in DESIGN.md section 5); not claimed until its check is committed"})
man = {
 "version": 1,
 "setup_cmd": "cd /verif/harness && GOFLAGS=-mod=mod GOPROXY=off GOSUMDB=off GOTOOLCHAIN=local go build -tags verif -o /verif/.work/bin/vcheck ./cmd/vcheck",
 "hooks": {"guard": "verif (Go build tag)", "enable": "go build -tags verif (check.sh does this for every run)",
           "baseline_off_cmd": "cd /repo && GOFLAGS=-mod=mod go test -mod=mod -json -vet=off -count=1 -timeout 25m ./...",
           "source_commits": hook_commits, "add_only": True},
 "engines": [{"name": "vcheck", "path": "/verif/harness", "serves_properties": [c["property_id"] for c in checks],
              "kind_free_text": "Go harness: parent/worker processes running the real container under monitors (registry tracer, order permuters, lifecycle log, binder budget, race detector, porcupine)"}],
 "checks": checks,
 "not_applicable": na,
 "notes": "All checks: ./check.sh <ID> <tier>; VERIF_SEED selects the case list; known findings in known_findings.json; see DESIGN.md.",
}
json.dump(man, open(base + "/MANIFEST.json", "w"), indent=1)
print("checks:", [c["property_id"] for c in checks], "na:", len(na))
