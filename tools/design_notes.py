#!/usr/bin/env python3
"""tools/design_notes.py <round> <notes.json> : appends '*Added after seeding round N*: ...' paragraphs to the
per-property sections of DESIGN.md (section 5); notes.json maps property id -> text."""
import json, os, re, sys
root = os.path.dirname(os.path.dirname(os.path.abspath(__file__)))
rnd, notes = sys.argv[1], json.load(open(sys.argv[2]))
p = os.path.join(root, "DESIGN.md")
s = open(p).read()
for pid, txt in sorted(notes.items()):
    a = s.index("\n### %s " % pid)
    b = s.index("\n### ", a + 5) if pid != "C20" else s.index("\n## 6.", a)
    ms = list(re.finditer(r"\*Added after seeding round \d+\*: [^\n]*\n", s[a:b]))
    pos = a + ms[-1].end() if ms else b
    s = s[:pos] + "\n*Added after seeding round %s*: %s\n" % (rnd, txt) + s[pos:]
open(p, "w").write(s)
print("inserted", len(notes))
